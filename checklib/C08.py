"""C08 - type sizes, alignments and layouts equal the psABI (parse.c declspec / struct_decl / union_decl, type.c).

Three legs on every run (no hooks; everything is observed through compiled programs):
  model <-> code : Model/Layout.lean (`drv_c08 declspec`, `drv_c08 layout`) against programs compiled by the snapshot's
                   chibicc that print sizeof/_Alignof/offsetof and, for bit-fields, the set bits of a zeroed object after
                   the member was set to all-ones                                              -> corr.disagreements
  spec  <-> gcc  : Spec/LayoutSpec.lean (`drv_c08 specdecl`, `drv_c08 speclayout`) against the same program compiled by
                   gcc 12 (-std=c11), the independent implementation of C11 6.7.2 and the psABI   -> spec bug, reported as disagreement
  code  <-> gcc  : the property itself                                                           -> corr.violations
Outcome classes (outcome_leg): declarations at and beyond the edge of the language -- aligned(n) / _Alignas(n) with n = 0, negative,
not a power of two, 2^28, larger (also >= 2^32), bit-fields of non-integer types (floating, pointer, array, empty and non-empty
struct/union, void), enum bit-fields -- each compiled alone by `chibicc -cc1` (signals visible) and `gcc -fsyntax-only`; the class
layout / located diagnostic (which one) / signal is compared model <-> chibicc, spec <-> gcc, chibicc <-> gcc; the accepted ones are then
compared number by number (sizeof/_Alignof/offsetof) like every other declaration.
"""
import os, json, itertools, hashlib, copy
from concurrent.futures import ThreadPoolExecutor
from .framework import *

PROPERTY = 'C08'
GEN_MODULES = ['declspec']
LEAN_TARGETS = ['ChibiVerif.Props.C08', 'ChibiVerif.Findings.C08']
PROPS_FILES = ['ChibiVerif/Props/C08.lean']
NEEDS_HOOKS = False
TRUSTED_BASE = [
    'Lean 4.33.0 kernel; axioms admitted: propext, Classical.choice, Quot.sound (audited per theorem on every run)',
    'translator tools/extract/declspec.py: counter enum, keyword ladder, switch (counter) table, primitive Type literals, '
    'pointer/enum/struct literals, align_to/align_down are regenerated from the snapshot on every run (regex over exact shapes, fails on any other shape)',
    'hand-written model lean/ChibiVerif/Model/Layout.lean of the loops of declspec, struct_decl, union_decl and of struct_members\' '
    'member alignment; tied by differential execution: programs compiled by the snapshot chibicc print sizeof/_Alignof/offsetof/bit images, '
    'compared with `drv_c08 layout` on generated declarations (this leg is testing)',
    'specification lean/ChibiVerif/Spec/LayoutSpec.lean (my reading of C11 6.7.2p2, psABI figure 3.1 and 3.1.2, gcc semantics of packed/aligned), '
    'validated against gcc 12.2 on the same generated declarations on every run',
    'C int: Model/Layout.lean computes in unbounded Int; Model/Layout32.lean redoes struct_decl / union_decl / array_of with every int operation '
    'explicit (strict: signed overflow is an outcome; wrap: two\'s complement). C08_layout_int_partial / C08_types_int_partial prove both equal to the '
    'specification below 256 MiB (sizeof + _Alignof + 8 < 2^28), C08_align_bound that the divisors are never 0; at 256 MiB and above (known finding '
    'C08-huge-struct-overflow, replayed each run) the wrap mode is compared with what the real compiler prints — assumption: the host compiler '
    'compiles parse.c\'s int arithmetic with wrap-around (the snapshot is built with -O0)',
    'translator pins of attribute_list aligned(N), declspec _Alignas(constant) (guards translated atom by atom to alignedAttrBad / alignasConstBad), '
    'struct_members\' bit-field arm and type.c is_integer (kind list regenerated)',
    'gcc 12 + glibc + the host CPU running the printed programs',
]
ASSUMPTIONS = ['bit-field base types are the integer types, _Bool and enumerated types with width <= width of the type (1 for _Bool); '
               'bit-fields wider than their type and __attribute__((aligned)) without argument are excluded (latitude); declarations gcc '
               'rejects for the two modelled constraints (alignment not 0 / a power of two <= 2^28; bit-field of non-integer type) must be '
               'diagnosed by chibicc too (outcome leg); declarations gcc rejects for other reasons are dropped',
               '_Alignas(n) on members only with n = 0 or n >= the natural alignment (C11 6.7.5p4), never on bit-fields',
               'declspec is modelled for the ten built-in type keywords; qualifiers are exercised only through the compiled programs']

# -------------------------------------------------------------------------------------------- C11 6.7.2p2 (generator side)
VALID = [
    (['void'], 'ty_void'), (['char'], 'ty_char'), (['signed', 'char'], 'ty_char'), (['unsigned', 'char'], 'ty_uchar'),
    (['short'], 'ty_short'), (['signed', 'short'], 'ty_short'), (['short', 'int'], 'ty_short'), (['signed', 'short', 'int'], 'ty_short'),
    (['unsigned', 'short'], 'ty_ushort'), (['unsigned', 'short', 'int'], 'ty_ushort'),
    (['int'], 'ty_int'), (['signed'], 'ty_int'), (['signed', 'int'], 'ty_int'),
    (['unsigned'], 'ty_uint'), (['unsigned', 'int'], 'ty_uint'),
    (['long'], 'ty_long'), (['signed', 'long'], 'ty_long'), (['long', 'int'], 'ty_long'), (['signed', 'long', 'int'], 'ty_long'),
    (['unsigned', 'long'], 'ty_ulong'), (['unsigned', 'long', 'int'], 'ty_ulong'),
    (['long', 'long'], 'ty_long'), (['signed', 'long', 'long'], 'ty_long'), (['long', 'long', 'int'], 'ty_long'),
    (['signed', 'long', 'long', 'int'], 'ty_long'),
    (['unsigned', 'long', 'long'], 'ty_ulong'), (['unsigned', 'long', 'long', 'int'], 'ty_ulong'),
    (['float'], 'ty_float'), (['double'], 'ty_double'), (['long', 'double'], 'ty_ldouble'), (['_Bool'], 'ty_bool'),
]
KEYWORDS = ['void', '_Bool', 'char', 'short', 'int', 'long', 'float', 'double', 'signed', 'unsigned']
# what a program can observe of a scalar type: (size, align, is_unsigned, is_float)
OBSERVE = {'ty_bool': (1, 1, 1, 0), 'ty_char': (1, 1, 0, 0), 'ty_uchar': (1, 1, 1, 0), 'ty_short': (2, 2, 0, 0), 'ty_ushort': (2, 2, 1, 0),
           'ty_int': (4, 4, 0, 0), 'ty_uint': (4, 4, 1, 0), 'ty_long': (8, 8, 0, 0), 'ty_ulong': (8, 8, 1, 0),
           'ty_float': (4, 4, 0, 1), 'ty_double': (8, 8, 0, 1), 'ty_ldouble': (16, 16, 0, 1)}
SPELLINGS = {}
for _ms, _ty in VALID:
    SPELLINGS.setdefault(_ty, []).append(_ms)
BITFIELD_BASES = ['ty_bool', 'ty_char', 'ty_uchar', 'ty_short', 'ty_ushort', 'ty_int', 'ty_uint', 'ty_long', 'ty_ulong']
PRIM_SIZE = {k: v[0] for k, v in OBSERVE.items()}

KNOWN_REGIONS = {
    # id -> description; membership is decided by regions_of()
    'C08-packed-bitfield-straddle': 'packed struct in which some bit-field, put at the next free bit (gcc), crosses a storage-unit boundary of its declared type',
    'C08-packed-member-alignas': 'packed struct/union with a member that carries _Alignas stricter than 1',
    'C08-packed-union-bitfield': 'packed union with a named bit-field narrower, in bytes, than its declared type',
    'C08-huge-struct-overflow': 'aggregate of 256 MiB or more (sizeof >= 2^28 according to gcc / the specification; reached here through large alignment requests)',
}
MAX_ALIGN = 1 << 28
HUGE_ID = 'C08-huge-struct-overflow'

def align_ok(n):
    """alignment requests gcc accepts: 0 (aligned(0): warning only) and the powers of two up to 2^28"""
    return n == 0 or (0 < n <= MAX_ALIGN and n & (n - 1) == 0)

def is_int_type(t):
    return t[0] == 'e' or (t[0] == 'p' and t[1] in BITFIELD_BASES)

def error_kinds(t):
    """which of the two modelled constraints the tree violates somewhere (incl. inside _Alignas operands): subset of {'align','bitfield'}"""
    r = set()
    for a in all_aggregates(t, []):
        if a[2] is not None and not align_ok(a[2]):
            r.add('align')
        for m in a[3]:
            if any(not isinstance(x, tuple) and not align_ok(x) for x in specs_of(m[0])):
                r.add('align')
            if m[1] is not None and not is_int_type(m[3]):
                r.add('bitfield')
    return r

def c_int(n):
    return '(-9223372036854775807-1)' if n == -(1 << 63) else str(n)
KNOWN_WITNESS = {
    'C08-packed-bitfield-straddle': 's 1 - 3 m 0 - 1 p ty_char m 0 30 1 p ty_int m 0 10 1 p ty_int',
    'C08-packed-member-alignas': 's 1 - 2 m 0 - 1 p ty_char m 8 - 1 p ty_int',
    'C08-packed-union-bitfield': 'u 1 - 2 m 0 3 1 p ty_int m 0 - 1 p ty_char',
}

# -------------------------------------------------------------------------------------------- type trees
# T ::= ('p', ty_name) | ('e',) | ('ptr', flavour) | ('a', n, T) | ('f', T) | ('s'|'u', packed, aligned|None, [M])
# M ::= (alignas, width|None, named, T)      alignas: int (0 = none) | ('T', type) for _Alignas(type-name) | ('L', [int | ('T', type)]) several

def specs_of(aa):
    """alignment specifiers of a member as a list of int | ('T', type)"""
    if isinstance(aa, tuple):
        return list(aa[1]) if aa[0] == 'L' else [aa]
    return [aa] if aa else []

def ser_specs(specs):
    return ' '.join(('t ' + ser(x[1])) if isinstance(x, tuple) else f'c {x}' for x in specs)

def ser(t):
    k = t[0]
    if k == 'p':
        return f'p {t[1]}'
    if k == 'e':
        return 'e'
    if k == 'ptr':
        return 'ptr'
    if k == 'a':
        return f'a {t[1]} ' + ser(t[2])
    if k == 'f':
        return 'f ' + ser(t[1])
    if k in 'su':
        s = f'{k} {1 if t[1] else 0} {"-" if t[2] is None else t[2]} {len(t[3])}'
        for (aa, w, nm, mt) in t[3]:
            if isinstance(aa, tuple) and aa[0] == 'L':     # several specifiers
                s += f' G {len(aa[1])} ' + ser_specs(aa[1]) + f' {"-" if w is None else w} {1 if nm else 0} ' + ser(mt)
            elif isinstance(aa, tuple):       # _Alignas(type-name): ('T', type)
                s += f' M {"-" if w is None else w} {1 if nm else 0} ' + ser(aa[1]) + ' ' + ser(mt)
            else:
                s += f' m {aa} {"-" if w is None else w} {1 if nm else 0} ' + ser(mt)
        return s
    raise ValueError(t)

def parse(tokens):
    """inverse of ser (corpus / replay files)"""
    def ty(i):
        k = tokens[i]
        if k == 'p':
            return ('p', tokens[i + 1]), i + 2
        if k == 'e':
            return ('e',), i + 1
        if k == 'ptr':
            return ('ptr', 0), i + 1
        if k == 'a':
            t, j = ty(i + 2)
            return ('a', int(tokens[i + 1]), t), j
        if k == 'f':
            t, j = ty(i + 1)
            return ('f', t), j
        if k in 'su':
            packed = tokens[i + 1] == '1'
            al = None if tokens[i + 2] == '-' else int(tokens[i + 2])
            n = int(tokens[i + 3])
            j = i + 4
            ms = []
            for _ in range(n):
                if tokens[j] == 'G':
                    nspec = int(tokens[j + 1]); j += 2
                    specs = []
                    for _ in range(nspec):
                        if tokens[j] == 'c':
                            specs.append(int(tokens[j + 1])); j += 2
                        else:
                            ta, j = ty(j + 1)
                            specs.append(('T', ta))
                    w = None if tokens[j] == '-' else int(tokens[j]); nm = tokens[j + 1] == '1'
                    t, j = ty(j + 2)
                    ms.append((('L', specs), w, nm, t))
                    continue
                if tokens[j] == 'M':
                    w = None if tokens[j + 1] == '-' else int(tokens[j + 1]); nm = tokens[j + 2] == '1'
                    ta, j = ty(j + 3)
                    t, j = ty(j)
                    ms.append((('T', ta), w, nm, t))
                    continue
                assert tokens[j] == 'm'
                aa = int(tokens[j + 1]); w = None if tokens[j + 2] == '-' else int(tokens[j + 2]); nm = tokens[j + 3] == '1'
                t, j = ty(j + 4)
                ms.append((aa, w, nm, t))
            return (k, packed, al, ms), j
        raise ValueError(tokens[i:])
    t, j = ty(0)
    assert j == len(tokens), tokens
    return t

def aggregates(t, out):
    """all struct/union nodes of a tree"""
    k = t[0]
    if k in 'su':
        out.append(t)
        for m in t[3]:
            aggregates(m[3], out)
    elif k == 'a':
        aggregates(t[2], out)
    elif k == 'f':
        aggregates(t[1], out)
    return out

def all_aggregates(t, out):
    """struct/union nodes of a tree including those inside _Alignas(type-name) operands"""
    k = t[0]
    if k in 'su':
        out.append(t)
        for m in t[3]:
            for x in specs_of(m[0]):
                if isinstance(x, tuple):
                    all_aggregates(x[1], out)
            all_aggregates(m[3], out)
    elif k == 'a':
        all_aggregates(t[2], out)
    elif k == 'f':
        all_aggregates(t[1], out)
    return out

REGION_IDS = ['C08-packed-bitfield-straddle', 'C08-packed-member-alignas', 'C08-packed-union-bitfield']
_REG_CACHE = {}
_REG_CTX = [None]

def prefetch_regions(ctx, trees):
    """known-finding regions of each tree as decided by the Lean predicates the `_partial` theorems exclude
    (`drv_c08 regions` = Lemmas/LayoutLemmas `Ty.inRegion`): a packed struct counts only if one of its bit-fields really
    straddles a storage unit where gcc puts it, a packed aggregate only for member _Alignas > 1, a packed union only for a
    named bit-field narrower (in bytes) than its declared type"""
    _REG_CTX[0] = ctx
    new = [k for k in dict.fromkeys(ser(t) for t in trees) if k not in _REG_CACHE]
    if not new:
        return
    out = ctx.driver('regions', ''.join(k + '\n' for k in new)).splitlines()
    if len(out) != len(new):
        raise RuntimeError('drv_c08 regions: answer count differs from query count')
    for k, l in zip(new, out):
        w = l.split()
        if not w or w[0] != 'regions':
            raise RuntimeError('drv_c08 regions: ' + l)
        r = set() if w[1:] == ['-'] else {REGION_IDS[int(x)] for x in w[1:]}
        if not r <= regions_syntactic(parse(k.split())):
            raise RuntimeError(f'drv_c08 regions: {sorted(r)} is not inside the syntactic over-approximation for {k}')
        _REG_CACHE[k] = r

def regions_of(t):
    """ids of the known-finding regions some aggregate of the tree lies in"""
    k = ser(t)
    if k not in _REG_CACHE:
        prefetch_regions(_REG_CTX[0], [t])
    return set(_REG_CACHE[k])

def regions_syntactic(t):
    """syntactic over-approximation of the regions (the regions as they were before they were narrowed): sanity bound only"""
    r = set()
    for a in all_aggregates(t, []):
        if not a[1]:
            continue
        if a[0] == 's' and any(m[1] is not None and m[1] > 0 for m in a[3]):
            r.add('C08-packed-bitfield-straddle')
        if any(any(isinstance(x, tuple) or x for x in specs_of(m[0])) for m in a[3]):
            r.add('C08-packed-member-alignas')
        if a[0] == 'u' and any(m[1] is not None and m[2] for m in a[3]):
            r.add('C08-packed-union-bitfield')
    return r

def clone(t):
    """structural copy without sharing (copy.deepcopy would keep two references to one node shared)"""
    k = t[0]
    if k == 'a':
        return ('a', t[1], clone(t[2]))
    if k == 'f':
        return ('f', clone(t[1]))
    if k in 'su':
        return (k, t[1], t[2], [(clone_aa(aa), w, nm, clone(mt)) for (aa, w, nm, mt) in t[3]])
    return tuple(t)

def clone_aa(aa):
    if isinstance(aa, tuple) and aa[0] == 'L':
        return ('L', [(('T', clone(x[1])) if isinstance(x, tuple) else x) for x in aa[1]])
    if isinstance(aa, tuple):
        return ('T', clone(aa[1]))
    return aa

def render_spec(x, rng, namer):
    """one `_Alignas(...)`"""
    if isinstance(x, tuple):
        ta = x[1]
        if not getattr(namer, 'force_pre', False) and (ta[0] in 'su' or rng.random() < 0.5):
            an = f'A{namer.tag}_{namer.fresh("")}'
            namer.pre.append('typedef ' + render(ta, an, rng, namer, {}) + ';')
            return f'_Alignas({an})'
        return f'_Alignas({render(ta, "", rng, namer, {})})'
    return f'_Alignas({c_int(x)})'

class Namer:
    def __init__(self, tag=''):
        self.n = 0
        self.tag = tag
        self.pre = []        # typedefs that must precede the declaration (operands of _Alignas)
        self.force_pre = False   # attributes before the member list, _Alignas operands inline: diagnostics come in the model's order
    def fresh(self, p='m'):
        self.n += 1
        return f'{p}{self.n}'

def spell(ty, rng, noconst=False):
    ms = list(rng.choice(SPELLINGS[ty]))
    rng.shuffle(ms)
    if rng.random() < 0.15:
        ms.insert(rng.randrange(len(ms) + 1), 'volatile' if noconst else rng.choice(['const', 'volatile']))
    return ' '.join(ms)

def render(t, name, rng, namer, names, noconst=False):
    """C declaration of `name` with type t (no trailing ';').  `names` collects, per aggregate node id, the member names.
    noconst: the member is assigned to by the probe (bit-fields), so no `const`"""
    k = t[0]
    if k == 'p':
        return f'{spell(t[1], rng, noconst)} {name}'.rstrip()
    if k == 'e':
        return f'enum {{ {namer.fresh("E" + namer.tag + "_")} }} {name}'.rstrip()
    if k == 'ptr':
        fl = t[1]
        return [f'void *{name}', f'int **{name}', f'char (*{name})[3]', f'int (*{name})(void)', f'struct Incomplete *{name}',
                f'long double *const {name}'][fl % 6]
    if k == 'a':
        return render(t[2], f'{name}[{t[1]}]', rng, namer, names)
    if k == 'f':
        return render(t[1], f'{name}[]', rng, namer, names)
    if k in 'su':
        kw = 'struct' if k == 's' else 'union'
        attrs = []
        if t[1]:
            attrs.append('packed')
        if t[2] is not None:
            attrs.append(f'aligned({c_int(t[2])})')
        pre = post = ''
        if attrs:
            a = '__attribute__((' + ', '.join(attrs) + '))'
            if rng.random() < 0.5 or namer.force_pre:
                pre = ' ' + a
            else:
                post = ' ' + a
        mnames = []
        body = ''
        for (aa, w, nm, mt) in t[3]:
            mname = namer.fresh() if nm else ''
            mnames.append(mname)
            d = render(mt, mname, rng, namer, names, noconst=w is not None)
            specs = specs_of(aa)
            if not specs and w is None and rng.random() < 0.03:
                specs = [0]
            if specs:
                d = ' '.join(render_spec(x, rng, namer) for x in specs) + ' ' + d
            if w is not None:
                d += f' : {w}'
            body += ' ' + d + ';'
        names[id(t)] = mnames
        return f'{kw}{pre} {{{body} }}{post} {name}'.rstrip()
    raise ValueError(t)

def walk(t, names, lay, get, base, prefix, out):
    """observable members of aggregate t: ('O', path, byte offset) and ('B', path, first bit, width, is_bool).
    lay: ser(aggregate) -> parsed layout; get(placed) -> first bit relative to the aggregate"""
    L = lay[ser(t)]
    if L is None:
        return
    for j, (aa, w, nm, mt) in enumerate(t[3]):
        first = base + get(L['placed'][j])
        mname = names[id(t)][j]
        if w is not None:
            if nm and w > 0:
                out.append(('B', prefix + mname, first, w, mt == ('p', 'ty_bool')))
            continue
        if nm:
            out.append(('O', prefix + mname, first // 8))
            if mt[0] in 'su':
                walk(mt, names, lay, get, first, prefix + mname + '.', out)
        elif mt[0] in 'su':
            walk(mt, names, lay, get, first, prefix, out)

def parse_layout(line, spec):
    """driver answer -> {'size','align','placed':[...]} or None"""
    w = line.split('|')
    head = w[0].split()
    if head[0] != 'ok':
        return None
    pl = []
    for p in w[1:]:
        nums = [int(x) for x in p.split()]
        pl.append(nums)
    return {'size': int(head[1]), 'align': int(head[2]), 'placed': pl}

PROLOGUE = r'''
#include <stddef.h>
int printf(const char *, ...);
void *memset(void *, int, unsigned long);
static void bits(int c, int k, void *p, long n) {
  unsigned char *b = p; long first = -1, last = -1, cnt = 0;
  for (long i = 0; i < n * 8; i++)
    if (b[i / 8] >> (i % 8) & 1) { if (first < 0) first = i; last = i; cnt++; }
  printf("W %d %d %ld %ld %ld\n", c, k, first, last, cnt);
}
/* which bits of the object does reading the member depend on: set one bit at a time */
#define RD(c, k, expr) do { long first = -1, last = -1, cnt = 0; \
  for (long i = 0; i < (long)sizeof(u) * 8; i++) { \
    memset(&u, 0, sizeof u); ((unsigned char *)&u)[i / 8] = 1 << (i % 8); \
    if (expr) { if (first < 0) first = i; last = i; cnt++; } } \
  printf("B %d %d %ld %ld %ld\n", c, k, first, last, cnt); } while (0)
'''

def make_program(cases, rng, light=False):
    """cases: list of type trees.  Returns (source, per-case info) where info[i] = (names, tree).
    light: only sizeof/_Alignof/offsetof (no object is defined: alignments up to 2^28 and sizes up to 2^28 are fine)"""
    src = [PROLOGUE]
    body = []
    info = []
    for i, t in enumerate(cases):
        t = clone(t)              # every aggregate node gets its own identity (member names are kept per node)
        namer = Namer(str(i))
        names = {}
        decl = render(t, f'T{i}', rng, namer, names)
        src += namer.pre
        src.append(f'typedef {decl};')
        full = ' '.join(namer.pre + [f'typedef {decl};'])       # what a report shows
        body.append(f'  printf("S {i} %ld %ld\\n", (long)sizeof(T{i}), (long)_Alignof(T{i}));')
        obs = []
        if t[0] in 'su':
            # the member paths do not depend on the layout: walk with a dummy layout
            dummy = {}
            for a in aggregates(t, []):
                dummy[ser(a)] = {'placed': [[0, 0, 0]] * len(a[3])}
            walk(t, names, dummy, lambda p: 0, 0, '', obs)
        if obs and light:
            for kk, o in enumerate(obs):
                if o[0] == 'O':
                    body.append(f'  printf("O {i} {kk} %ld\\n", (long)offsetof(T{i}, {o[1]}));')
        elif obs:
            body.append(f'  {{ union {{ T{i} v; char pad[sizeof(T{i}) + 16]; }} u;')
            for kk, o in enumerate(obs):
                if o[0] == 'O':
                    body.append(f'    printf("O {i} {kk} %ld\\n", (long)offsetof(T{i}, {o[1]}));')
                else:
                    body.append(f'    RD({i}, {kk}, u.v.{o[1]});')
                    if o[3] <= 31:   # chibicc cannot assemble stores to bit-fields of 32..63 bits (a C04 matter), so the store image is for narrow fields
                        body.append(f'    memset(&u, 0, sizeof u); u.v.{o[1]} = {"1" if o[4] else "-1"}; bits({i}, {kk}, &u, sizeof u);')
            body.append('  }')
        info.append((names, full, t))
    src.append('int main(void) {')
    src += body
    src.append('  return 0;\n}')
    return '\n'.join(src) + '\n', info

def run_program(ctx, src, tag, which):
    """compile+run with chibicc ('c') or gcc ('g'); returns (ok, lines or error text)"""
    path = os.path.join(ctx.scratch, f'{tag}.c')
    with open(path, 'w') as f:
        f.write(src)
    exe = os.path.join(ctx.scratch, f'{tag}.{which}.exe')
    if which == 'c':
        cmd = [ctx.cc, '-I' + os.path.join(ctx.snapshot, 'include'), '-o', exe, path]
    else:
        cmd = ['gcc', '-std=c11', '-w', '-O0', '-o', exe, path]
    rc, o, e = sh(cmd, timeout=300)
    if rc != 0:
        return False, 'compile: ' + (e or o)[-600:]
    rc, o, e = sh([exe], timeout=120)
    try:
        os.unlink(exe)
    except OSError:
        pass
    if rc != 0:
        return False, f'run: rc={rc} ' + e[-300:]
    return True, o.splitlines()

def collect(lines):
    """program output -> {case: {'S': (size, align), 'O': {k: off}, 'B': {k: (first,last,cnt)}, 'W': likewise}}"""
    res = {}
    for l in lines:
        w = l.split()
        if not w:
            continue
        c = int(w[1])
        d = res.setdefault(c, {'S': None, 'O': {}, 'B': {}, 'W': {}})
        if w[0] == 'S':
            d['S'] = (int(w[2]), int(w[3]))
        elif w[0] == 'O':
            d['O'][int(w[2])] = int(w[3])
        elif w[0] in 'BW':
            d[w[0]][int(w[2])] = (int(w[3]), int(w[4]), int(w[5]))
    return res

def expected(t, names, lay, get, light=False):
    """what the program must print for case t according to a layout source"""
    L = lay[ser(t)] if t[0] in 'su' else lay['#' + ser(t)]
    if L is None:
        return None
    d = {'S': (L['size'], L['align']), 'O': {}, 'B': {}, 'W': {}}
    if t[0] in 'su':
        obs = []
        walk(t, names, lay, get, 0, '', obs)
        for kk, o in enumerate(obs):
            if o[0] == 'O':
                d['O'][kk] = o[2]
            elif not light:
                d['B'][kk] = (o[2], o[2] + o[3] - 1, o[3])
                if o[3] <= 31:
                    d['W'][kk] = d['B'][kk]
    return d

def driver_layouts(ctx, cases):
    """model and spec layouts of every aggregate node (and of every non-aggregate top-level type, keyed '#'+ser)"""
    keys = []
    seen = set()
    for t in cases:
        ks = [ser(a) for a in aggregates(t, [])]
        if t[0] not in 'su':
            ks.append('#' + ser(t))
        for k in ks:
            if k not in seen:
                seen.add(k)
                keys.append(k)
    text = ''.join(k.lstrip('#') + '\n' for k in keys)
    mo = ctx.driver('layout', text).splitlines()
    so = ctx.driver('speclayout', text).splitlines()
    wo = ctx.driver('layout32', text).splitlines()
    st = ctx.driver('layout32strict', text).splitlines()
    if len(mo) != len(keys) or len(so) != len(keys) or len(wo) != len(keys) or len(st) != len(keys):
        raise RuntimeError('drv_c08 layout: answer count differs from query count')
    # strict mode (signed overflow = outcome) may differ from wrap mode only by reporting an overflow
    STRICT_OVERFLOW.update(k for k, a, b in zip(keys, wo, st) if a != b and b == 'fail overflow')
    bad = [(k, a, b) for k, a, b in zip(keys, wo, st) if a != b and b != 'fail overflow']
    if bad:
        raise RuntimeError('drv_c08 layout32 / layout32strict differ other than by an overflow: ' + repr(bad[0]))
    model = {k: parse_layout(l, False) for k, l in zip(keys, mo)}
    spec = {k: parse_layout(l, True) for k, l in zip(keys, so)}
    model32 = {k: parse_layout(l, False) for k, l in zip(keys, wo)}      # struct_decl with explicit int arithmetic, wrap-around
    return model, spec, model32

STRICT_OVERFLOW = set()      # keys (ser) for which the strict int32 model reports signed overflow
MODEL_GET = lambda p: p[0] * 8 + p[1]
SPEC_GET = lambda p: p[0]

def first_diff(a, b):
    if a is None or b is None:
        return ('missing', a, b)
    if a['S'] != b['S']:
        return ('sizeof/_Alignof', a['S'], b['S'])
    for k in sorted(set(a['O']) | set(b['O'])):
        if a['O'].get(k) != b['O'].get(k):
            return (f'offsetof #{k}', a['O'].get(k), b['O'].get(k))
    for f, nm in (('B', 'bits read by'), ('W', 'bits written by')):
        for k in sorted(set(a[f]) | set(b[f])):
            if a[f].get(k) != b[f].get(k):
                return (f'{nm} bit-field #{k} (first bit, last bit, number of bits)', a[f].get(k), b[f].get(k))
    return None

def prepare_batch(ctx, cases, tag, light=False):
    """sequential part (uses ctx.rng): the translation unit of a batch"""
    src, info = make_program(cases, ctx.rng, light)
    return (src, info, tag)

def execute_batch(ctx, prep):
    """parallel part: compile and run with gcc and chibicc"""
    src, info, tag = prep
    g = run_program(ctx, src, tag, 'g')
    c = run_program(ctx, src, tag, 'c') if g[0] else (False, 'not run')
    return g, c

def check_batch(ctx, corr, cases, tag, count_tag, pre=None, light=False):
    """runs one translation unit of cases through chibicc, gcc, model and spec.  Returns list of problem dicts
    (kind = 'tie' | 'spec' | 'violation'), each with the case."""
    problems = []
    if not cases:
        return problems
    if pre is not None:
        (src, info, _), ((okg, outg), pre_c) = pre
    else:
        src, info = make_program(cases, ctx.rng, light)
        okg, outg = run_program(ctx, src, tag, 'g')
        pre_c = None
    if not okg:
        # something gcc rejects slipped through the generator: find and drop (latitude), one by one
        if len(cases) == 1:
            corr.count('skipped_gcc_rejects')
            return problems
        mid = len(cases) // 2
        return check_batch(ctx, corr, cases[:mid], tag + 'a', count_tag, light=light) + check_batch(ctx, corr, cases[mid:], tag + 'b', count_tag, light=light)
    okc, outc = pre_c if pre_c is not None else run_program(ctx, src, tag, 'c')
    if not okc:
        if len(cases) == 1:
            problems.append({'kind': 'violation', 'case': cases[0], 'decl': info[0][1],
                             'what': 'chibicc does not translate a declaration gcc accepts', 'expected': 'program compiles and runs',
                             'got': outc})
            return problems
        mid = len(cases) // 2
        return check_batch(ctx, corr, cases[:mid], tag + 'a', count_tag, light=light) + check_batch(ctx, corr, cases[mid:], tag + 'b', count_tag, light=light)
    model, spec, model32 = driver_layouts(ctx, cases)
    prefetch_regions(ctx, cases)
    rc_, rg_ = collect(outc), collect(outg)
    for i, t in enumerate(cases):
        names, decl, tc = info[i]
        corr.evaluations += 1
        corr.count(count_tag)
        key = ser(t)
        em = expected(tc, names, model, MODEL_GET, light)
        es = expected(tc, names, spec, SPEC_GET, light)
        try:
            em32 = expected(tc, names, model32, MODEL_GET, light)
        except (KeyError, TypeError):
            em32 = None
        ic, ig = rc_.get(i), rg_.get(i)
        if t[0] in 'su' and (len(t[3]) >= 2 or any(m[1] is not None or m[0] for m in t[3]) or t[1] or t[2]):
            corr.nontrivial.add(hashlib.sha1(key.encode()).hexdigest())
        for a in aggregates(t, []):
            if a[1]:
                corr.count('has_packed')
                break
        if any(m[1] is not None for a in aggregates(t, []) for m in a[3]):
            corr.count('has_bitfield')
        for rid in regions_syntactic(t) - regions_of(t):
            corr.count('in-scope-since-region-narrowed:' + rid)     # packed, syntactically in the old region, covered by the theorem now
        # 256 MiB or more (bit count >= 2^31): the region of known finding C08-huge-struct-overflow
        huge = bool((es and es['S'][0] >= MAX_ALIGN) or (ig and ig['S'] and ig['S'][0] >= MAX_ALIGN))
        d = first_diff(ic, em)
        if huge:
            # the Int model does not follow the int overflow of 256 MiB objects (known finding); the int32 model (wrap-around) must
            d = first_diff(ic, em32)
            corr.count('tie-huge:int32-model-compared')
            if d:
                problems.append({'kind': 'tie', 'case': t, 'decl': decl, 'what': f'int32 model (wrap-around) and chibicc differ on {d[0]} of an aggregate of 256 MiB or more',
                                 'impl': d[1], 'model': d[2]})
        elif d:
            problems.append({'kind': 'tie', 'case': t, 'decl': decl, 'what': f'model and chibicc differ on {d[0]}', 'impl': d[1], 'model': d[2]})
        if any(ser(a) in STRICT_OVERFLOW for a in aggregates(t, [])) or ('#' + ser(t)) in STRICT_OVERFLOW:
            corr.count('int32-strict:signed-overflow')
            if es and es['S'][0] < (1 << 27) and es['S'][1] < (1 << 27):
                problems.append({'kind': 'tie', 'case': t, 'decl': decl, 'what': 'the strict int32 model reports signed overflow for a declaration far below 256 MiB',
                                 'impl': ic and ic['S'], 'model': 'fail overflow'})
        if not huge:
            d32 = first_diff(em, em32)
            if d32:
                problems.append({'kind': 'tie', 'case': t, 'decl': decl, 'what': f'Int model and int32 model differ on {d32[0]} below 256 MiB',
                                 'impl': d32[1], 'model': d32[2]})
        d = first_diff(ig, es)
        if d:
            problems.append({'kind': 'spec', 'case': t, 'decl': decl, 'what': f'Spec.LayoutSpec and gcc differ on {d[0]}', 'gcc': d[1], 'spec': d[2]})
        d = first_diff(ic, ig)
        if d:
            problems.append({'kind': 'violation', 'case': t, 'decl': decl, 'what': f'{d[0]} differs from the psABI (gcc 12)',
                             'expected': d[2], 'got': d[1], 'huge': huge})
    return problems

# -------------------------------------------------------------------------------------------- generators

def gen_member_type(rng, depth, allow_flex_struct=True):
    x = rng.random()
    if depth > 0 and x < 0.22:
        return gen_aggregate(rng, depth - 1, rng.randrange(1, 5), top=False)
    if x < 0.30:
        return ('ptr', rng.randrange(6))
    if x < 0.34:
        return ('e',)
    if x < 0.50:
        base = gen_member_type(rng, depth - 1 if depth > 0 else 0)
        if has_flex(base):
            return base
        return ('a', rng.choice([1, 2, 3, 5, 7]), base)
    return ('p', rng.choice(list(OBSERVE)))

def gen_alignas_operand(rng, depth):
    x = rng.random()
    if x < 0.30:
        return ('a', rng.choice([2, 3, 5, 12]), ('p', rng.choice(['ty_char', 'ty_short', 'ty_int', 'ty_long', 'ty_double', 'ty_ldouble', 'ty_ushort'])))
    if x < 0.60:
        for _ in range(10):
            t = gen_aggregate(rng, min(depth, 1), rng.randrange(1, 4), top=False)
            if not has_flex(t):
                return t
    if x < 0.72:
        return ('ptr', rng.randrange(6))
    if x < 0.80:
        return ('a', 3, ('ptr', rng.randrange(6)))
    return ('p', rng.choice(list(OBSERVE)))

def has_flex(t):
    if t[0] == 'f':
        return True
    if t[0] == 'a':
        return has_flex(t[2])
    if t[0] in 'su':
        return any(has_flex(m[3]) for m in t[3])
    return False

def nat_align(t):
    """natural alignment as gcc sees it (needed only to pick valid _Alignas values; not an oracle)"""
    k = t[0]
    if k == 'p':
        return OBSERVE[t[1]][1]
    if k == 'e':
        return 4
    if k == 'ptr':
        return 8
    if k == 'a':
        return nat_align(t[2])
    if k == 'f':
        return nat_align(t[1])
    al = t[2] or 1
    for (aa, w, nm, mt) in t[3]:
        if w is not None and not nm:
            continue
        sp = [nat_align(x[1]) if isinstance(x, tuple) else x for x in specs_of(aa)]
        a = max(sp) if sp and max(sp) else (1 if t[1] else nat_align(mt))
        al = max(al, a)
    return al

def gen_aggregate(rng, depth, nmem, top=True, kind=None, packed=None):
    kind = kind or ('s' if rng.random() < 0.75 else 'u')
    if packed is None:
        packed = rng.random() < 0.2
    aligned = rng.choice([0, 1, 2, 4, 8, 16, 32]) if rng.random() < 0.2 else None
    ms = []
    for j in range(nmem):
        x = rng.random()
        if x < 0.35:
            base = rng.choice(BITFIELD_BASES + ['enum'])
            maxw = 1 if base == 'ty_bool' else 32 if base == 'enum' else PRIM_SIZE[base] * 8
            named = rng.random() < 0.75
            r = rng.random()
            if not named and r < 0.35:
                w = 0
            elif r < 0.5:
                w = maxw
            elif r < 0.6:
                w = 1
            else:
                w = rng.randrange(1, maxw + 1)
            ms.append((0, w, named, ('e',) if base == 'enum' else ('p', base)))
            continue
        mt = gen_member_type(rng, depth)
        if has_flex(mt):
            mt = ('p', 'ty_int')
        aa = 0
        x = rng.random()
        if x < 0.13:
            na = nat_align(mt)
            aa = rng.choice([a for a in (1, 2, 4, 8, 16, 32) if a >= na])
        elif x < 0.26:
            # _Alignas(type-name): operands whose size differs from their alignment (arrays, structs, unions) and scalars/pointers
            ta = gen_alignas_operand(rng, depth)
            if nat_align(ta) < nat_align(mt):      # C11 6.7.5p4: may not reduce the alignment -> take a byte buffer as the member
                mt = ('a', rng.choice([1, 3, 12, 17]), ('p', 'ty_uchar'))
            aa = ('T', ta)
        elif x < 0.36:
            # several specifiers: the strictest takes effect (C11 6.7.5p6); weaker ones and 0 may accompany it
            na = nat_align(mt)
            specs = []
            for _ in range(rng.randrange(2, 4)):
                if rng.random() < 0.5:
                    specs.append(rng.choice([0, 1, 2, 4, 8, 16, 32]))
                else:
                    specs.append(('T', gen_alignas_operand(rng, min(depth, 1))))
            eff = max(nat_align(y[1]) if isinstance(y, tuple) else y for y in specs)
            if eff and eff < na:
                specs.insert(rng.randrange(len(specs) + 1), rng.choice([a for a in (1, 2, 4, 8, 16, 32) if a >= na]))
            aa = ('L', specs)
        named = True
        if mt[0] in 'su' and rng.random() < 0.4:
            named = False
        ms.append((aa, None, named, mt))
    # flexible array member: last member of a struct that has another named member
    if kind == 's' and top and len(ms) >= 1 and rng.random() < 0.12 and any(m[2] for m in ms):
        et = gen_member_type(rng, 0)
        if not has_flex(et):
            ms.append((0, None, True, ('f', et)))
    if not any(m[2] for m in ms):
        ms.append((0, None, True, ('p', rng.choice(list(OBSERVE)))))
    return (kind, packed, aligned, ms)

ALPHABET = None
def member_alphabet():
    """small systematic alphabet of members for the exhaustive short sequences"""
    global ALPHABET
    if ALPHABET is None:
        A = []
        for ty in ('ty_char', 'ty_short', 'ty_int', 'ty_long', 'ty_ldouble'):
            A.append((0, None, True, ('p', ty)))
        A.append((0, None, True, ('a', 3, ('p', 'ty_char'))))
        A.append((0, None, True, ('ptr', 0)))
        A.append((16, None, True, ('p', 'ty_char')))
        A.append((0, None, True, ('s', False, None, [(0, None, True, ('p', 'ty_char')), (0, None, True, ('p', 'ty_short'))])))
        A.append((0, None, False, ('u', False, None, [(0, None, True, ('p', 'ty_int')), (0, 7, True, ('p', 'ty_uchar'))])))
        buf = ('a', 12, ('p', 'ty_uchar'))
        for ta in (('a', 3, ('p', 'ty_int')),
                   ('s', False, None, [(0, None, True, ('a', 12, ('p', 'ty_char')))]),
                   ('s', False, None, [(0, None, True, ('p', 'ty_int')), (0, None, True, ('a', 8, ('p', 'ty_char')))]),
                   ('u', False, None, [(0, None, True, ('p', 'ty_short')), (0, None, True, ('a', 5, ('p', 'ty_char')))]),
                   ('ptr', 2), ('p', 'ty_ldouble'), ('a', 2, ('p', 'ty_long'))):
            A.append((('T', ta), None, True, buf))
        A.append((('L', [16, 4]), None, True, ('p', 'ty_char')))
        A.append((('L', [2, ('T', ('a', 3, ('p', 'ty_long'))), 0]), None, True, ('p', 'ty_short')))
        for base, ws in (('ty_char', (1, 5, 8)), ('ty_ushort', (9, 16)), ('ty_int', (1, 17, 31, 32)), ('ty_ulong', (33, 63)), ('ty_bool', (1,))):
            for w in ws:
                A.append((0, w, True, ('p', base)))
        for base, w in (('ty_int', 3), ('ty_long', 0), ('ty_int', 0), ('ty_char', 0), ('ty_short', 11)):
            A.append((0, w, False, ('p', base)))
        ALPHABET = A
    return ALPHABET

def ok_aggregate(t):
    """aggregate must have a named member somewhere (else gcc's behaviour is an extension of no interest)"""
    return any(m[2] for m in t[3])

def gen_cases(ctx):
    rng = ctx.rng
    cases = []   # (tag, tree)
    # 1. corpus of past failures / repaired defects
    cdir = os.path.join(VERIF, 'corpus', 'C08')
    if os.path.isdir(cdir):
        for fn in sorted(os.listdir(cdir)):
            if not fn.endswith('.types'):
                continue
            for line in open(os.path.join(cdir, fn)):
                line = line.split('#')[0].strip()
                if line:
                    cases.append(('corpus', parse(line.split())))
    for wid, w in KNOWN_WITNESS.items():
        cases.append(('known-witness', parse(w.split())))
    # 2. scalars, derived types
    for ty in OBSERVE:
        cases.append(('scalar', ('p', ty)))
        cases.append(('derived', ('a', rng.choice([1, 2, 3, 7]), ('p', ty))))
        cases.append(('derived', ('a', 2, ('a', 3, ('p', ty)))))
    for fl in range(6):
        cases.append(('derived', ('ptr', fl)))
        cases.append(('derived', ('a', 3, ('ptr', fl))))
    cases.append(('scalar', ('e',)))
    # 3. every bit-field base type x width, alone, after a char, and before a char, in struct and union
    for base in BITFIELD_BASES:
        maxw = 1 if base == 'ty_bool' else PRIM_SIZE[base] * 8
        widths = range(1, maxw + 1) if ctx.thorough or maxw <= 16 else sorted(set([1, 2, 7, 8, 9, 15, 16, 17, 31, 32, 33, 63, 64, maxw - 1, maxw]) & set(range(1, maxw + 1)))
        for w in widths:
            bf = (0, w, True, ('p', base))
            ch = (0, None, True, ('p', 'ty_char'))
            cases.append(('bitfield-width', ('s', False, None, [bf])))
            cases.append(('bitfield-width', ('s', False, None, [ch, bf, ch])))
            cases.append(('bitfield-width', ('u', False, None, [bf, ch])))
            cases.append(('bitfield-width', ('s', False, None, [(0, 3, True, ('p', 'ty_uchar')), bf, (0, w, False, ('p', base)), ch])))
        cases.append(('bitfield-zero', ('s', False, None, [(0, None, True, ('p', 'ty_char')), (0, 0, False, ('p', base)), (0, None, True, ('p', 'ty_char'))])))
        cases.append(('bitfield-zero', ('s', False, None, [(0, 1, True, ('p', 'ty_uchar')), (0, 0, False, ('p', base)), (0, 1, True, ('p', 'ty_uchar'))])))
        cases.append(('bitfield-zero', ('u', False, None, [(0, 0, False, ('p', base)), (0, None, True, ('p', 'ty_char'))])))
    # 4. exhaustive short member sequences over the alphabet
    A = member_alphabet()
    L = 2
    for n in range(1, L + 1):
        for seq in itertools.product(A, repeat=n):
            for kind in 'su':
                t = (kind, False, None, list(seq))
                if ok_aggregate(t):
                    cases.append(('exh', t))
    n3 = 1500 if not ctx.thorough else 20000
    for _ in range(n3):
        seq = [rng.choice(A) for _ in range(3 if rng.random() < 0.7 else 4)]
        kind = 's' if rng.random() < 0.8 else 'u'
        packed = rng.random() < 0.15
        al = rng.choice([None, None, None, 2, 8, 16, 0])
        t = (kind, packed, al, seq)
        if ok_aggregate(t):
            cases.append(('exh3', t))
    # 5. random nested declarations (member sequences to length 8, depth 3, attribute combinations)
    nrand = 2000 if not ctx.thorough else 30000
    for _ in range(nrand):
        depth = rng.choice([0, 1, 1, 2, 2, 3])
        cases.append(('random', gen_aggregate(rng, depth, rng.randrange(1, 9))))
    return cases

# -------------------------------------------------------------------------------------------- specifiers

def decl_probe(ctx, seqs, tag):
    """one translation unit: typedef <seq> V<i>; prints size, align, signedness, floatness (void: accepted only)"""
    src = ['int printf(const char *, ...);']
    body = []
    for i, s in enumerate(seqs):
        src.append(f'typedef {" ".join(s)} V{i};')
        if [k for k in s if k not in ('const', 'volatile')] == ['void']:
            body.append(f'  printf("V {i} void\\n");')
        else:
            body.append(f'  printf("V {i} %ld %ld %d %d\\n", (long)sizeof(V{i}), (long)_Alignof(V{i}), (V{i})-1 > (V{i})0, (V{i})0.5 != (V{i})0);')
    src.append('int main(void) {')
    src += body
    src.append('  return 0; }')
    return '\n'.join(src) + '\n'

def compile_only(ctx, src, tag, which):
    path = os.path.join(ctx.scratch, f'{tag}.c')
    with open(path, 'w') as f:
        f.write(src)
    if which == 'c':
        cmd = [ctx.cc, '-S', '-o', '/dev/null', path]
    else:
        cmd = ['gcc', '-std=c11', '-w', '-fsyntax-only', path]
    rc, o, e = sh(cmd, timeout=60)
    return rc, e

def specifier_leg(ctx, corr):
    rng = ctx.rng
    # all permutations of every valid multiset
    valid_perms = []
    for ms, ty in VALID:
        for p in sorted(set(itertools.permutations(ms))):
            valid_perms.append(list(p))
    # qualifiers interleaved (skipped by declspec without touching the counter)
    extra = []
    for _ in range(60 if not ctx.thorough else 600):
        p = list(rng.choice(valid_perms))
        for _ in range(rng.randrange(1, 3)):
            p.insert(rng.randrange(len(p) + 1), rng.choice(['const', 'volatile']))
        extra.append(p)
    allv = valid_perms + extra
    strip = lambda s: [k for k in s if k not in ('const', 'volatile')]
    text = ''.join(' '.join(strip(s)) + '\n' for s in allv)
    model = ctx.driver('declspec', text).splitlines()
    spec = ctx.driver('specdecl', text).splitlines()
    src = decl_probe(ctx, allv, 'vp')
    res = {}
    for which in 'cg':
        path = os.path.join(ctx.scratch, 'vp.c')
        open(path, 'w').write(src)
        exe = os.path.join(ctx.scratch, 'vp.' + which)
        cmd = [ctx.cc, '-o', exe, path] if which == 'c' else ['gcc', '-std=c11', '-w', '-o', exe, path]
        rc, o, e = sh(cmd, timeout=120)
        out = {}
        if rc == 0:
            rc2, o2, e2 = sh([exe], timeout=60)
            for l in o2.splitlines():
                w = l.split(None, 2)
                out[int(w[1])] = w[2]
        else:
            out = None
            if which == 'c':
                # find the permutation chibicc rejects
                for i, s in enumerate(allv):
                    r, err = compile_only(ctx, f'typedef {" ".join(s)} V;\n', 'vp1', 'c')
                    if r != 0:
                        corr.violations.append({'what': 'valid type-specifier sequence rejected', 'input': ' '.join(s) + ' x;',
                                                'expected': 'accepted (C11 6.7.2p2)', 'got': err.strip()[-200:]})
                        return
            else:
                raise RuntimeError('gcc rejects the valid-permutation probe: ' + e[-300:])
        res[which] = out
    for i, s in enumerate(allv):
        corr.evaluations += 1
        corr.count('specifier-valid-perm')
        if len(strip(s)) >= 2:
            corr.nontrivial.add('spec:' + ' '.join(s))
        want_m = expect_obs(model[i])
        want_s = expect_obs(spec[i])
        got_c, got_g = res['c'].get(i), res['g'].get(i)
        if got_c != want_m:
            corr.disagreements.append({'kind': 'declspec', 'input': ' '.join(s), 'model': model[i], 'impl': got_c})
        if got_g != want_s:
            corr.disagreements.append({'kind': 'spec-vs-gcc declspec', 'input': ' '.join(s), 'spec': spec[i], 'gcc': got_g})
        if got_c != got_g:
            corr.violations.append({'what': 'type named by a valid specifier sequence differs from gcc (size, align, unsigned, floating)',
                                    'input': f'typedef {" ".join(s)} V;', 'expected': got_g, 'got': got_c})
    corr.sample({'specifier permutation': ' '.join(allv[-1]), 'chibicc': res['c'].get(len(allv) - 1), 'gcc': res['g'].get(len(allv) - 1)})
    # invalid sequences: all sequences of length <= n over the ten keywords that are not a valid permutation, plus random longer ones
    validset = {tuple(p) for p in valid_perms}
    inv = []
    maxlen = 2 if not ctx.thorough else 4
    for n in range(2, maxlen + 1):
        for s in itertools.product(KEYWORDS, repeat=n):
            if s not in validset:
                inv.append(list(s))
    for _ in range(300 if not ctx.thorough else 3000):
        n = rng.randrange(3, 8)
        if rng.random() < 0.6:
            # a valid permutation with one keyword inserted / doubled: the interesting neighbours
            s = list(rng.choice(valid_perms))
            for _ in range(rng.randrange(1, 3)):
                s.insert(rng.randrange(len(s) + 1), rng.choice(KEYWORDS))
        else:
            s = [rng.choice(KEYWORDS) for _ in range(n)]
        if tuple(s) not in validset:
            inv.append(s)
    text = ''.join(' '.join(s) + '\n' for s in inv)
    model = ctx.driver('declspec', text).splitlines()
    spec = ctx.driver('specdecl', text).splitlines()
    def one(i):
        s = inv[i]
        src = f'typedef {" ".join(s)} V;\nint main(void) {{ return 0; }}\n'
        rc, err = compile_only(ctx, src, f'inv{i}', 'c')
        return rc, err
    with ThreadPoolExecutor(max_workers=NPROC) as ex:
        results = list(ex.map(one, range(len(inv))))
    # gcc on a sample (it is slow to start): all of length 2, random others
    for i, s in enumerate(inv):
        corr.evaluations += 1
        rc, err = results[i]
        m = model[i]
        dup_sign = s.count('signed') > 1 or s.count('unsigned') > 1
        if spec[i] != 'diag':
            corr.disagreements.append({'kind': 'spec table', 'input': ' '.join(s), 'spec': spec[i], 'note': 'generator says invalid'})
            continue
        if m == 'diag':
            corr.count('specifier-invalid')
            corr.nontrivial.add('inv:' + ' '.join(s))
            if rc == 0:
                corr.disagreements.append({'kind': 'declspec', 'input': ' '.join(s), 'model': 'diag', 'impl': 'accepted'})
                corr.violations.append({'what': 'invalid type-specifier sequence accepted without a diagnostic', 'input': f'typedef {" ".join(s)} V;',
                                        'expected': 'diagnostic, non-zero exit', 'got': 'exit 0'})
            elif 'invalid type' not in err:
                corr.disagreements.append({'kind': 'declspec', 'input': ' '.join(s), 'model': 'diag invalid type', 'impl': f'rc={rc} {err.strip()[-160:]}'})
        else:
            # the model accepts although C11 does not list the multiset: only repeated signed/unsigned (counter |= ...) may do that
            corr.count('specifier-latitude-dup-sign' if dup_sign else 'specifier-accepted-invalid')
            if not dup_sign:
                corr.violations.append({'what': 'invalid type-specifier multiset accepted (model and C11 table differ outside the stated latitude)',
                                        'input': f'typedef {" ".join(s)} V;', 'expected': 'diagnostic', 'got': m})
            if rc != 0:
                corr.disagreements.append({'kind': 'declspec', 'input': ' '.join(s), 'model': m, 'impl': f'rejected: {err.strip()[-160:]}'})
    # gcc must reject what the spec rejects (validates the table): sample
    sample = inv[:100] + [inv[rng.randrange(len(inv))] for _ in range(60 if not ctx.thorough else 400)]
    sample = [list(x) for x in dict.fromkeys(tuple(x) for x in sample)]     # one file per sequence (threads)
    def oneg(s):
        return compile_only(ctx, f'typedef {" ".join(s)} V;\n', 'invg' + hashlib.sha1(' '.join(s).encode()).hexdigest()[:12], 'g')[0]
    with ThreadPoolExecutor(max_workers=NPROC) as ex:
        rgs = list(ex.map(oneg, sample))
    for s, rg in zip(sample, rgs):
        corr.count('specifier-invalid-gcc-checked')
        if rg == 0:
            corr.disagreements.append({'kind': 'spec-vs-gcc declspec', 'input': ' '.join(s), 'spec': 'diag', 'gcc': 'accepted'})
    corr.sample({'invalid specifier sequence': ' '.join(inv[len(inv) // 2]), 'chibicc': results[len(inv) // 2][1].strip()[-80:]})

def expect_obs(answer):
    """driver answer -> what the probe prints for that type"""
    if not answer.startswith('ok '):
        return None
    ty = answer.split()[1]
    if ty == 'ty_void':
        return 'void'
    s, a, u, f = OBSERVE[ty]
    if ty == 'ty_bool':
        return '1 1 1 1'      # (_Bool)-1 is 1 > 0; (_Bool)0.5 is 1 != 0
    return f'{s} {a} {u} {f}'

# -------------------------------------------------------------------------------------------- stddef.h, huge objects

def stddef_leg(ctx, corr):
    src = '#include <stddef.h>\nint printf(const char *, ...);\nint main(void) {\n'
    for t in ('size_t', 'ptrdiff_t', 'wchar_t', 'max_align_t'):
        src += f'  printf("{t} %ld %ld\\n", (long)sizeof({t}), (long)_Alignof({t}));\n'
    src += '  printf("size_t-unsigned %d\\n", (size_t)-1 > 0);\n  printf("ptrdiff_t-signed %d\\n", (ptrdiff_t)-1 < 0);\n'
    src += '  struct S { char a; int b; long double c; };\n  printf("offsetof %ld %ld\\n", (long)offsetof(struct S, b), (long)offsetof(struct S, c));\n'
    src += '  return 0; }\n'
    okc, oc = run_program(ctx, src, 'stddef', 'c')
    okg, og = run_program(ctx, src, 'stddef', 'g')
    corr.evaluations += 1
    corr.count('stddef')
    if not okg:
        raise RuntimeError('gcc failed on the stddef probe: ' + str(og))
    if not okc or oc != og:
        bad = next((f'{a} (gcc: {b})' for a, b in zip(oc, og) if a != b), str(oc)) if okc else oc
        corr.violations.append({'what': 'include/stddef.h type differs from the psABI (gcc 12)', 'input': '<stddef.h> size_t ptrdiff_t wchar_t max_align_t offsetof',
                                'expected': og, 'got': bad})

def alignas_vars_leg(ctx, corr):
    """one or several _Alignas(type-name) / _Alignas(n) on file-scope, file-scope static, block-scope static and automatic
    objects: declspec's attr->align (MAX over the specifiers) reaches var->align, the .align directive and the frame layout.
    model (`drv_c08 var`): the address the snapshot's program prints must be a multiple of the model's alignment;
    spec (`drv_c08 specvar`) must equal gcc's _Alignof(object); chibicc must place the object at a multiple of it."""
    rng = ctx.rng
    n = 40 if not ctx.thorough else 400
    pre, glob, loc, body, queries, shown = [], [], [], [], [], []
    types = [('p', 'ty_char'), ('a', 3, ('p', 'ty_uchar')), ('p', 'ty_short'), ('p', 'ty_int'), ('a', 5, ('p', 'ty_char'))]
    k = 0
    for i in range(n):
        vt = rng.choice(types)
        specs = []
        for _ in range(rng.choice([1, 1, 2, 3])):
            if rng.random() < 0.6:
                ta = gen_alignas_operand(rng, 1)
                if regions_of(ta):
                    continue
                specs.append(('T', ta))
            else:
                specs.append(rng.choice([0, 1, 2, 4, 8, 16, 32]))
        if not specs:
            continue
        eff = max(nat_align(y[1]) if isinstance(y, tuple) else y for y in specs)
        if eff and eff < nat_align(vt):
            specs.append(rng.choice([a for a in (4, 8, 16, 32) if a >= nat_align(vt)]))
            eff = max(eff, specs[-1])
        namer = Namer(f'v{k}')
        sp = ' '.join(render_spec(x, rng, namer) for x in specs)
        pre += namer.pre
        # automatic objects: only fundamental alignments (<= 16 = _Alignof(max_align_t)); support for extended alignments is
        # implementation-defined per storage duration (C11 6.2.8p3) and chibicc keeps %rsp 16-aligned only
        big = eff > 16
        def decl(prefix, name):
            d = render(vt, name, rng, namer, {})
            return f'{prefix}{sp} {d};'
        glob.append(f'char gp{k}; {decl("", f"g{k}")} {decl("static ", f"sg{k}")}')
        loc.append(f'  char lp{k}; {decl("" if not big else "static ", f"l{k}")} static char sp{k}; {decl("static ", f"sl{k}")}')
        body.append(f'  printf("A {k} %ld %ld %ld %ld %ld\\n", (long)_Alignof(g{k}), (long)((unsigned long)&g{k} % 64), (long)((unsigned long)&sg{k} % 64), '
                    f'(long)((unsigned long)&l{k} % 64), (long)((unsigned long)&sl{k} % 64));')
        queries.append(f'{len(specs)} ' + ser_specs(specs) + ' ' + ser(vt))
        shown.append(' '.join(namer.pre) + f' {glob[-1]} /* in main: */ {loc[-1].strip()}')
        k += 1
    if not k:
        return
    src = 'int printf(const char *, ...);\n' + '\n'.join(pre + glob) + '\nint main(void) {\n' + '\n'.join(loc + body) + '\n  return 0; }\n'
    model = ctx.driver('var', '\n'.join(queries) + '\n').splitlines()
    spec = ctx.driver('specvar', '\n'.join(queries) + '\n').splitlines()
    okg, og = run_program(ctx, src, 'avars', 'g')
    if not okg:
        corr.count('skipped_gcc_rejects')
        ctx.notes.append('gcc rejects the _Alignas variable probe: ' + str(og)[-300:])
        return
    # chibicc's _Alignof(expression) is the alignment of the type, not of the object; print 0 there
    okc, oc = run_program(ctx, src.replace('(long)_Alignof(g', '0L * (long)sizeof(g'), 'avars', 'c')
    corr.evaluations += k
    corr.count('alignas-variable', k)
    if not okc:
        corr.violations.append({'what': 'chibicc does not translate _Alignas on objects that gcc accepts', 'input': src[:1500],
                                'expected': 'program compiles and runs', 'got': oc})
        return
    for i in range(k):
        gl, cl = og[i].split(), oc[i].split()
        ms_, ss_ = model[i].split(), spec[i].split()
        ga = int(gl[2])
        corr.nontrivial.add('var:' + queries[i])
        if ss_[0] != 'ok' or int(ss_[1]) != ga:
            corr.disagreements.append({'kind': 'alignas spec vs gcc', 'input': shown[i].strip(), 'spec': spec[i], 'gcc _Alignof(object)': ga})
            continue
        if any(int(x) % ga for x in gl[3:]):
            corr.disagreements.append({'kind': 'probe', 'what': 'gcc itself does not align the objects of the _Alignas probe', 'gcc': og[i]})
            continue
        if ms_[0] != 'ok' or any(int(x) % min(int(ms_[1]), 64) for x in cl[3:]):
            corr.disagreements.append({'kind': 'alignas model vs chibicc', 'input': shown[i], 'model': model[i], 'impl addresses mod 64': cl[3:]})
        if any(int(x) % ga for x in cl[3:]):
            which = [nm for nm, x in zip(('file scope', 'file-scope static', 'automatic' , 'block-scope static'), cl[3:]) if int(x) % ga]
            corr.violations.append({'what': 'an object declared with _Alignas is not placed at a multiple of the requested alignment (' + ', '.join(which) + ')',
                                    'input': shown[i].strip(), 'expected': f'address % {ga} == 0', 'got': 'addresses mod 64: ' + ' '.join(cl[3:])})
            if sum(1 for v in corr.violations if v['what'].startswith('an object declared')) >= 3:
                break
    corr.sample({'_Alignas object': shown[0], 'model': model[0], 'gcc': og[0]})

def huge_leg(ctx, corr):
    """aggregates of 256 MiB or more: struct_decl counts bits in an int (known finding; outside the Int model)"""
    src = '#include <stddef.h>\nint printf(const char *, ...);\n'
    src += 'struct H1 { char a[1<<28]; char b; };\nstruct H2 { char a[1<<27]; char b[1<<27]; int c; };\nstruct H3 { char a[(1<<28) - 16]; int b; char c; };\n'
    src += 'int main(void) {\n'
    src += '  printf("H1 %ld %ld %ld\\n", (long)sizeof(struct H1), (long)_Alignof(struct H1), (long)offsetof(struct H1, b));\n'
    src += '  printf("H2 %ld %ld %ld\\n", (long)sizeof(struct H2), (long)_Alignof(struct H2), (long)offsetof(struct H2, c));\n'
    src += '  printf("H3 %ld %ld %ld\\n", (long)sizeof(struct H3), (long)_Alignof(struct H3), (long)offsetof(struct H3, c));\n'
    src += '  return 0; }\n'
    okg, og = run_program(ctx, src, 'huge', 'g')
    okc, oc = run_program(ctx, src, 'huge', 'c')
    corr.evaluations += 1
    corr.count('huge-struct')
    if not okg:
        raise RuntimeError('gcc failed on the huge-struct probe: ' + str(og))
    if not okc or oc != og:
        # H3 (just below 2^31 bits) must agree; H1/H2 are the listed witness and its neighbour
        bad = [a for a, b in zip(oc, og) if a != b] if okc else [str(oc)]
        v = {'what': 'sizeof/offsetof of an aggregate of 256 MiB or more differs from gcc (int overflow of the bit counter)',
             'input': 'struct { char a[1<<28]; char b; }', 'expected': og, 'got': oc, 'known_id': HUGE_ID}
        if okc and any(l.startswith('H3') for l in bad):
            del v['known_id']
            v['what'] = 'sizeof/offsetof of an aggregate below 256 MiB differs from gcc'
        elif okc and any(l.startswith('H1') for l in bad):
            corr.known_hits.append(HUGE_ID)
        corr.violations.append(v)

# -------------------------------------------------------------------------------------------- outcome classes (edge of the language)

ALIGN_EDGE = sorted(set(
    [0] + [1 << k for k in range(0, 29)] +
    [-1, -2, -3, -4, -8, -16, -(1 << 28), -(1 << 31), -(1 << 31) - 1, -(1 << 32), -(1 << 63)] +
    [3, 5, 6, 7, 9, 10, 12, 15, 17, 24, 48, 96, 100, 1000, 1023, 1025, 4095, 4097, (1 << 28) - 1, (1 << 28) + 1, (1 << 28) + (1 << 27),
     1 << 29, 1 << 30, (1 << 31) - 1, 1 << 31, (1 << 31) + 1, (1 << 32) - 1, 1 << 32, (1 << 32) + 1, (1 << 32) + 2, (1 << 32) + 8,
     (1 << 32) + (1 << 28), 1 << 33, 1 << 40, 1 << 62, (1 << 63) - 1]))
NONINT_BF_TYPES = [('p', 'ty_float'), ('p', 'ty_double'), ('p', 'ty_ldouble'), ('p', 'ty_void'), ('ptr', 0), ('ptr', 1),
                   ('a', 2, ('p', 'ty_int')), ('a', 0, ('p', 'ty_int')), ('a', 1, ('p', 'ty_char')),
                   ('s', False, None, []), ('s', False, None, [(0, None, True, ('p', 'ty_int'))]),
                   ('u', False, None, []), ('u', False, None, [(0, None, True, ('p', 'ty_char'))]),
                   ('s', True, None, [(0, None, True, ('p', 'ty_short'))])]
CH = (0, None, True, ('p', 'ty_char'))

def gen_outcome_cases(ctx):
    """(tag, tree): declarations on both sides of the two constraints, alone and nested"""
    rng = ctx.rng
    cases = []
    edge = list(ALIGN_EDGE)
    if ctx.thorough:
        edge = sorted(set(edge) | set(range(-64, 4100)))
    else:
        edge = sorted(set(edge) | set(range(-9, 70)))
    # 1. aligned(n) on struct / union / packed / empty, every edge value
    for n in edge:
        cases.append(('aligned-edge', ('s', False, n, [CH])))
        cases.append(('aligned-edge', ('u', False, n, [CH, (0, None, True, ('p', 'ty_int'))])))
    for n in ALIGN_EDGE:
        cases.append(('aligned-edge', ('s', True, n, [CH, (0, None, True, ('p', 'ty_long'))])))
        cases.append(('aligned-edge-empty', ('s', False, n, [])))
        cases.append(('aligned-edge-empty', ('u', False, n, [])))
    # 2. _Alignas(n) on a char member (never below the natural alignment), alone and next to a second specifier
    for n in edge:
        cases.append(('alignas-edge', ('s', False, None, [CH, (n, None, True, ('p', 'ty_char'))] if n else [CH, (('L', [0]), None, True, ('p', 'ty_char'))])))
    for n in ALIGN_EDGE:
        cases.append(('alignas-edge', ('u', False, None, [(('L', [4, n]), None, True, ('p', 'ty_char'))])))
        cases.append(('alignas-edge', ('s', True, None, [CH, (('L', [n, 2]), None, True, ('p', 'ty_char'))])))
    # 3. bit-fields of every non-integer type; enum and integer types for contrast
    for bt in NONINT_BF_TYPES + [('e',), ('p', 'ty_bool'), ('p', 'ty_uchar'), ('p', 'ty_long')]:
        wmax = 1 if bt == ('p', 'ty_bool') else 8
        for (w, named) in ((1, True), (wmax, True), (0, False), (1, False)):
            if not named and bt[0] in ('a', 'ptr'):
                continue        # an abstract array/pointer declarator is a syntax error in gcc, not the constraint under test
            cases.append(('bitfield-type', ('s', False, None, [(0, w, named, bt), CH])))
            cases.append(('bitfield-type', ('s', False, None, [CH, (0, w, named, bt), CH])))
            cases.append(('bitfield-type', ('u', False, None, [(0, w, named, bt), CH])))
            cases.append(('bitfield-type', ('s', True, 8, [CH, (0, w, named, bt)])))
    for w in range(1, 33):
        cases.append(('bitfield-enum', ('s', False, None, [CH, (0, w, True, ('e',)), (0, 3, True, ('p', 'ty_uint')), CH])))
    # 3b. aggregates and arrays of 256 MiB or more: the int arithmetic of struct_decl / array_of wraps (known finding); the int32 model
    #     (drv_c08 layout32) must print what the binary prints
    big = lambda n: (0, None, True, ('a', n, ('p', 'ty_char')))
    I = (0, None, True, ('p', 'ty_int'))
    for t in [('s', False, None, [big(1 << 28), CH]), ('s', False, None, [big(1 << 27), big(1 << 27), I]),
              ('s', False, None, [big((1 << 28) - 16), I, CH]), ('s', False, None, [big(1 << 28), (0, 3, True, ('p', 'ty_int')), CH]),
              ('s', False, None, [big((1 << 28) - 1), (0, 17, True, ('p', 'ty_int')), (0, 0, False, ('p', 'ty_long')), (0, None, True, ('p', 'ty_short'))]),
              ('s', True, None, [big((1 << 28) - 1), (0, None, True, ('p', 'ty_long')), CH]),
              ('s', False, 4096, [CH, big((1 << 28) - 4096), I]),
              ('u', False, None, [big(1 << 28), (0, None, True, ('p', 'ty_long'))]), ('u', False, 64, [big((1 << 29) + 3), CH]),
              ('a', 1 << 20, ('a', 1 << 12, ('p', 'ty_char'))), ('a', 1 << 16, ('a', 1 << 15, ('p', 'ty_char'))),
              ('s', False, None, [CH, (0, None, True, ('a', 3, ('s', False, None, [big(1 << 27), I])))]),
              ('s', False, None, [CH, (0, None, True, ('s', False, None, [big(1 << 28), CH])), CH])]:
        cases.append(('huge', t))
    # 4. the same constructs nested: member, array element, anonymous member, _Alignas(type-name) operand, two at once
    seeds = [t for g, t in cases if g in ('aligned-edge', 'alignas-edge', 'bitfield-type')]
    nnest = 400 if not ctx.thorough else 4000
    for _ in range(nnest):
        inner = clone(rng.choice(seeds))
        x = rng.random()
        if x < 0.25:
            t = ('s', rng.random() < 0.2, None, [CH, (0, None, True, inner), CH])
        elif x < 0.45:
            t = ('u', False, rng.choice([None, 8]), [(0, None, True, ('a', rng.choice([1, 3]), inner)), CH])
        elif x < 0.60:
            t = ('s', False, None, [CH, (0, None, False, inner)])
        elif x < 0.80:
            t = ('s', False, None, [CH, (('T', inner), None, True, ('a', 3, ('p', 'ty_char')))])
        else:
            other = clone(rng.choice(seeds))
            t = ('s', False, rng.choice(ALIGN_EDGE), [(0, None, True, inner), (0, None, True, other)])
        if has_flex(t):
            continue
        cases.append(('nested-edge', t))
    # 5. ordinary random declarations with one construct pushed to / over the edge
    nmut = 300 if not ctx.thorough else 3000
    for _ in range(nmut):
        t = clone(gen_aggregate(rng, rng.choice([0, 1, 2]), rng.randrange(1, 6)))
        aggs = aggregates(t, [])
        a = rng.choice(aggs)
        idx = None
        y = rng.random()
        if y < 0.5:
            new = (a[0], a[1], rng.choice(ALIGN_EDGE), a[3])
        else:
            j = rng.randrange(len(a[3]))
            aa, w, nm, mt = a[3][j]
            if y < 0.8:
                bt = rng.choice(NONINT_BF_TYPES + [('e',)])
                if bt[0] in ('a', 'ptr'):
                    nm = True
                ms = a[3][:j] + [(0, rng.choice([0, 1, 3]) if not nm else rng.choice([1, 3]), nm, bt)] + a[3][j + 1:]
            else:
                ms = a[3][:j] + [(rng.choice([x for x in ALIGN_EDGE if x]), None, True, ('p', 'ty_char'))] + a[3][j + 1:]
            new = (a[0], a[1], a[2], ms)
        t = replace_node(t, a, new)
        if not any(m[2] for m in t[3]) and t[3]:
            t = (t[0], t[1], t[2], t[3] + [CH])
        cases.append(('mutated-edge', t))
    return cases

def replace_node(t, old, new):
    """copy of tree t with the aggregate node `old` (by identity) replaced"""
    if t is old:
        return new
    k = t[0]
    if k == 'a':
        return ('a', t[1], replace_node(t[2], old, new))
    if k == 'f':
        return ('f', replace_node(t[1], old, new))
    if k in 'su':
        return (k, t[1], t[2], [(aa, w, nm, replace_node(mt, old, new)) for (aa, w, nm, mt) in t[3]])
    return t

def cc1_class(ctx, path):
    """outcome class of the snapshot's cc1 on one translation unit (run directly: a signal is visible as such)"""
    rc, o, e = sh([ctx.cc, '-cc1', '-cc1-input', path, '-cc1-output', path + '.s', path], timeout=60)
    try:
        os.unlink(path + '.s')
    except OSError:
        pass
    if rc == 0:
        return 'layout', ''
    if rc < 0 or rc >= 128:
        return f'signal {-rc if rc < 0 else rc - 128}', e.strip()[-200:]
    located = re.search(r'^[^\n:]+:\d+: ', e, re.M) is not None
    if 'alignment must be a power of two no larger than 2^28' in e and located:
        return 'diag align', e.strip()[-200:]
    if 'bit-field has non-integer type' in e and located:
        return 'diag bitfield', e.strip()[-200:]
    if 'field has incomplete type' in e and located:
        return 'diag incomplete', e.strip()[-200:]
    return 'diag other' if located else f'exit {rc} without a located diagnostic', e.strip()[-200:]

GCC_SAME_RULE = re.compile(r'requested alignment|has invalid type|declared void')

def gcc_class(ctx, path):
    rc, o, e = sh(['gcc', '-std=c11', '-w', '-fsyntax-only', path], timeout=60)
    if rc == 0:
        return 'layout', ''
    first = next((l for l in e.splitlines() if 'error' in l), e.strip()[-200:])
    return ('diag' if GCC_SAME_RULE.search(e) else 'diag other'), first[-200:]

def atomic_bitfield_probe(ctx, corr):
    """struct_members' second guard (`mem->ty->is_atomic`): the model has no _Atomic types, so this site is watched directly:
    an _Atomic-qualified bit-field is a constraint violation for gcc ("bit-field has atomic type") and must be a located
    diagnostic in chibicc; an _Atomic member that is not a bit-field is accepted by both"""
    rng = ctx.rng
    srcs = []
    for base in ('int', 'unsigned', '_Bool', 'char', 'short', 'long', 'unsigned long', 'signed char'):
        w = 1 if base == '_Bool' else rng.choice([1, 3, 7])
        srcs += [(f'struct S {{ _Atomic {base} x : {w}; char c; }};', True), (f'union U {{ char c; {base} _Atomic x : {w}; }};', True),
                 (f'struct S {{ char c; _Atomic({base}) : 0; char d; }};', True),
                 (f'typedef _Atomic {base} A; struct S {{ char c; A x : {w}; }};', True),
                 (f'struct __attribute__((packed)) S {{ char c; _Atomic {base} x : {w}; }};', True),
                 (f'struct S {{ char c; _Atomic {base} x; }};', False), (f'struct S {{ {base} x : {w}; _Atomic {base} y; }};', False)]
    paths = []
    for i, (src, _) in enumerate(srcs):
        path = os.path.join(ctx.scratch, f'atb{i}.c')
        with open(path, 'w') as f:
            f.write(src + '\n')
        paths.append(path)
    with ThreadPoolExecutor(max_workers=NPROC) as ex:
        rc_ = list(ex.map(lambda pth: sh([ctx.cc, '-cc1', '-cc1-input', pth, '-cc1-output', pth + '.s', pth], timeout=60), paths))
        rg_ = list(ex.map(lambda pth: sh(['gcc', '-std=c11', '-w', '-fsyntax-only', pth], timeout=60), paths))
    for (src, bad), (rc, o, e), (rg, og, eg) in zip(srcs, rc_, rg_):
        corr.evaluations += 1
        corr.count('atomic-bitfield-probe')
        if (rg != 0) != bad or (bad and 'atomic type' not in eg):
            corr.disagreements.append({'kind': 'atomic bit-field probe: gcc does not behave as assumed', 'input': src, 'gcc rc': rg, 'gcc': eg.strip()[-200:]})
            continue
        located = re.search(r'^[^\n:]+:\d+: ', e, re.M) is not None
        ok = (rc == 1 and located and 'bit-field has atomic type' in e) if bad else rc == 0
        if not ok:
            corr.violations.append({'what': 'an _Atomic-qualified bit-field is not answered with the located diagnostic' if bad else
                                            'a declaration with an _Atomic member that gcc accepts is rejected',
                                    'input': src, 'expected': 'located diagnostic (gcc: bit-field has atomic type)' if bad else 'accepted',
                                    'got': f'rc={rc} ' + e.strip()[-200:]})
            return

def has_huge_node(ctx, t):
    """does some aggregate of the tree (operands of _Alignas included) have sizeof >= 2^28 according to the specification"""
    nodes = all_aggregates(t, [])
    out = ctx.driver('speclayout', ''.join(ser(a) + '\n' for a in nodes)).splitlines()
    return any(l.startswith('ok ') and int(l.split()[1]) >= MAX_ALIGN for l in out)

def outcome_leg(ctx, corr):
    rng = ctx.rng
    atomic_bitfield_probe(ctx, corr)
    cases = gen_outcome_cases(ctx)
    trees = [t for _, t in cases]
    text = ''.join(ser(t) + '\n' for t in trees)
    model = ctx.driver('layout', text).splitlines()
    spec = ctx.driver('speclayout', text).splitlines()
    model32 = ctx.driver('layout32', text).splitlines()
    if len(model) != len(trees) or len(spec) != len(trees) or len(model32) != len(trees):
        raise RuntimeError('drv_c08 layout: answer count differs from query count (outcome leg)')
    decls = []
    for i, t in enumerate(trees):
        namer = Namer(f'o{i}')
        kinds = error_kinds(t)
        namer.force_pre = bool(kinds)
        d = render(clone(t), 'T', rng, namer, {})
        src = '\n'.join(namer.pre + [f'typedef {d};']) + '\n'
        path = os.path.join(ctx.scratch, f'oc{i}.c')
        with open(path, 'w') as f:
            f.write(src)
        decls.append((path, src.strip().replace('\n', ' ')))
    with ThreadPoolExecutor(max_workers=NPROC) as ex:
        rc_ = list(ex.map(lambda pd: cc1_class(ctx, pd[0]), decls))
        rg_ = list(ex.map(lambda pd: gcc_class(ctx, pd[0]), decls))
    accepted = []
    nviol = 0
    for i, t in enumerate(trees):
        corr.evaluations += 1
        key = ser(t)
        kinds = error_kinds(t)
        m = model[i].split('|')[0].split()
        mclass = 'layout' if m[0] == 'ok' else ' '.join(m[:2]) if m[0] == 'diag' else 'signal 8' if m[:2] == ['fail', 'divzero'] else model[i]
        sclass = 'layout' if spec[i].startswith('ok') else 'diag' if spec[i].startswith('diag') else spec[i]
        (cclass, cerr), (gclass, gerr) = rc_[i], rg_[i]
        decl = decls[i][1]
        corr.count('outcome:' + cclass)
        corr.count('gen:' + cases[i][0])
        corr.nontrivial.add('oc:' + hashlib.sha1(key.encode()).hexdigest())
        # python's own reading of the two constraints against the specification (three opinions on the class)
        if (sclass == 'diag') != bool(kinds):
            corr.disagreements.append({'kind': 'outcome class: Spec.specAccepted vs the generator', 'case': key, 'spec': spec[i], 'generator': sorted(kinds)})
            continue
        # model <-> chibicc  (which diagnostic: only when the declaration violates one constraint only; else the class)
        same = (mclass == cclass) if len(kinds) <= 1 else (mclass.split()[0] == cclass.split()[0])
        m32 = model32[i].split('|')[0].split()
        m32class = 'layout' if m32[0] == 'ok' else ' '.join(m32[:2])
        if mclass != m32class and not has_huge_node(ctx, t):
            corr.disagreements.append({'kind': 'outcome class Int model vs int32 model below 256 MiB', 'case': key, 'model': model[i], 'int32 model': model32[i]})
        if not same and mclass == 'layout' and has_huge_node(ctx, t):
            # the Int model does not follow the int overflow of 256 MiB objects (known finding); the int32 model (wrap-around) must
            corr.count('tie-huge:int32-model-compared')
            if m32class != cclass:
                corr.disagreements.append({'kind': 'outcome class int32 model (wrap-around) vs chibicc', 'case': key, 'decl': decl,
                                           'model': model32[i], 'impl': cclass, 'stderr': cerr})
        elif not same:
            corr.disagreements.append({'kind': 'outcome class model vs chibicc', 'case': key, 'decl': decl, 'model': model[i], 'impl': cclass, 'stderr': cerr})
        # spec <-> gcc
        if gclass == 'diag other' and sclass == 'layout':
            corr.count('skipped_gcc_rejects')       # rejected for a reason outside the two constraints: latitude
            continue
        if (sclass == 'layout') != (gclass == 'layout'):
            corr.disagreements.append({'kind': 'outcome class spec vs gcc', 'case': key, 'decl': decl, 'spec': spec[i], 'gcc': gclass, 'gcc says': gerr})
            continue
        # chibicc <-> gcc
        if (cclass == 'layout') != (gclass == 'layout') or cclass.startswith('signal') or cclass.startswith('exit'):
            if gclass == 'layout' and cclass.startswith('diag') and has_huge_node(ctx, t):
                # some aggregate of the declaration has 256 MiB or more: its int size overflowed ("field has incomplete type" for a negative size)
                corr.count('known-region-mismatch:' + HUGE_ID)
                if not any(v.get('known_id') == HUGE_ID and v.get('leg') == 'outcome' for v in corr.violations):
                    corr.violations.append({'what': 'a declaration with an aggregate of 256 MiB or more is rejected', 'input': decl, 'case': key,
                                            'expected': 'layout as by gcc', 'got': cclass + ' ' + cerr, 'known_id': HUGE_ID, 'leg': 'outcome'})
                continue
            nviol += 1
            if nviol <= 3:
                what = ('cc1 is killed by a signal while laying out a declaration' if cclass.startswith('signal') else
                        'a declaration gcc rejects (alignment / bit-field type constraint) is accepted without a diagnostic' if cclass == 'layout' else
                        'a declaration gcc accepts is rejected' if gclass == 'layout' else 'rejected without a located diagnostic')
                corr.violations.append({'what': what, 'input': decl, 'case': key,
                                        'expected': 'layout as by gcc' if gclass == 'layout' else 'located diagnostic (gcc: ' + gerr + ')',
                                        'got': cclass + (' ' + cerr if cerr else '')})
            else:
                corr.count('further-violations-not-listed')
            continue
        if cclass == 'layout':
            accepted.append(t)
    corr.sample({'outcome-class case': decls[len(decls) // 3][1], 'chibicc': rc_[len(decls) // 3][0], 'gcc': rg_[len(decls) // 3][0],
                 'model': model[len(decls) // 3]})
    # the accepted ones: numbers (sizeof/_Alignof/offsetof; no object is defined, so alignments and sizes up to 2^28 are fine)
    problems = []
    acc = [t for t in dict((ser(t), t) for t in accepted).values() if t[0] not in 'su' or not t[3] or ok_aggregate(t)]
    B = 200
    for bi in range(0, len(acc), B):
        problems += check_batch(ctx, corr, acc[bi:bi + B], f'ocb{bi}', 'outcome-accepted', light=True)
    report(ctx, corr, problems, shrink_ok=False)

# -------------------------------------------------------------------------------------------- entry points

def report(ctx, corr, problems, shrink_ok=True, exempt=()):
    seen_known = set()
    for p in problems:
        t = p['case']
        s = ser(t)
        if p['kind'] == 'tie':
            corr.disagreements.append({'kind': 'layout model vs chibicc', 'case': s, 'decl': p['decl'], 'what': p['what'], 'impl': p['impl'], 'model': p['model']})
        elif p['kind'] == 'spec':
            corr.disagreements.append({'kind': 'layout spec vs gcc', 'case': s, 'decl': p['decl'], 'what': p['what'], 'gcc': p['gcc'], 'spec': p['spec']})
        else:
            regs = sorted(regions_of(t) | ({HUGE_ID} if p.get('huge') else set())) if s not in exempt else []   # repaired defects kept in the corpus are plain violations if they come back
            v = {'what': p['what'], 'input': p['decl'], 'case': s, 'expected': p['expected'], 'got': p['got']}
            if regs:
                # inside a known-finding region: one entry for the listed witness, one for the first other declaration of the region;
                # the rest is only counted (the framework drops entries whose known_id is listed in known_findings.json)
                v['known_id'] = regs[0]
                v['regions'] = regs
                corr.count('known-region-mismatch:' + regs[0])
                wid = next((w for w in KNOWN_WITNESS if KNOWN_WITNESS[w] == s), None)
                if wid:
                    if wid in seen_known:
                        continue
                    seen_known.add(wid)
                    corr.known_hits.append(wid)
                    v['known_id'] = wid
                else:
                    if ('other', regs[0]) in seen_known:
                        continue
                    seen_known.add(('other', regs[0]))
            elif shrink_ok and len(corr.violations) < 3:
                small = shrink(ctx, t)
                if small is not t:
                    q = [x for x in check_batch(ctx, Corr(), [small], 'shr', 'shrink') if x['kind'] == 'violation']
                    if q:
                        v = {'what': q[0]['what'], 'input': q[0]['decl'], 'case': ser(small), 'expected': q[0]['expected'],
                             'got': q[0]['got'], 'shrunk_from': s}
            if not v.get('known_id') and sum(1 for x in corr.violations if not x.get('known_id')) >= 5:
                corr.count('further-violations-not-listed')
                continue
            corr.violations.append(v)

def still_fails(ctx, t):
    q = check_batch(ctx, Corr(), [t], 'shr', 'shrink')
    return any(x['kind'] == 'violation' for x in q) and not regions_of(t)

def shrink(ctx, t):
    """greedy: delete members / attributes / replace nested aggregates by scalars while chibicc and gcc still differ"""
    def variants(t):
        if t[0] not in 'su':
            return
        k, packed, al, ms = t
        for j in range(len(ms)):
            if len(ms) > 1:
                yield (k, packed, al, ms[:j] + ms[j + 1:])
        if packed:
            yield (k, False, al, ms)
        if al is not None:
            yield (k, packed, None, ms)
        for j, (aa, w, nm, mt) in enumerate(ms):
            if aa:
                yield (k, packed, al, ms[:j] + [(0, w, nm, mt)] + ms[j + 1:])
            if isinstance(aa, tuple) and aa[0] == 'T' and aa[1][0] in 'su':
                for v in variants(aa[1]):
                    yield (k, packed, al, ms[:j] + [(('T', v), w, nm, mt)] + ms[j + 1:])
            if isinstance(aa, tuple) and aa[0] == 'L':
                for q in range(len(aa[1])):
                    yield (k, packed, al, ms[:j] + [(('L', aa[1][:q] + aa[1][q + 1:]), w, nm, mt)] + ms[j + 1:])
            if mt[0] in 'su':
                for v in variants(mt):
                    yield (k, packed, al, ms[:j] + [(aa, w, nm, v)] + ms[j + 1:])
                yield (k, packed, al, ms[:j] + [(aa, w, True, ('p', 'ty_char'))] + ms[j + 1:])
            if mt[0] == 'a':
                yield (k, packed, al, ms[:j] + [(aa, w, nm, mt[2])] + ms[j + 1:])
    cur = t
    budget = 60
    changed = True
    while changed and budget > 0:
        changed = False
        for v in variants(cur):
            budget -= 1
            if budget <= 0:
                break
            if ok_aggregate(v) and still_fails(ctx, v):
                cur = v
                changed = True
                break
    return cur

def correspond(ctx, corr):
    corr.rule = ('(1) every permutation of every C11 6.7.2p2 specifier multiset (+ interleaved qualifiers) and a stream of invalid keyword sequences '
                 '(all of length <= 2, thorough <= 4, plus random neighbours of valid ones) through chibicc, gcc, the declspec model and the C11 table; '
                 '(2) declarations of scalars, arrays, pointers, every bit-field base type x width (alone, between chars, in a union, next to unnamed '
                 'fields), zero-width fields, all member sequences of length <= 2 over a 37-letter member alphabet (incl. _Alignas(type-name) with array/struct/union/pointer/scalar operands) in struct and union, random sequences '
                 'of length 3-4 with packed/aligned(n), random nested declarations (<= 8 members, depth <= 3, anonymous members, _Alignas, flexible '
                 'last member): each compiled by the snapshot chibicc and by gcc 12 into a program that prints sizeof, _Alignof, offsetof of every '
                 'reachable named member and the set bits after assigning all-ones to each bit-field of a zeroed object; the numbers are compared '
                 'with Model/Layout (tie), Spec/LayoutSpec vs gcc (spec validation) and chibicc vs gcc (the property). '
                 'non-trivial = aggregate with >= 2 members or a bit-field/_Alignas/attribute, or a specifier sequence of >= 2 keywords, or a rejected sequence; '
                 'distinct by canonical type description. '
                 '(3) outcome classes: aligned(n) / _Alignas(n) over an edge set of n (0, 2^0..2^28, negatives, non-powers, up to 2^63-1; every n in '
                 '-9..69, thorough -64..4099), bit-fields of every non-integer kind of type and of enum/integer types, the same nested / inside _Alignas '
                 'operands / in random declarations, 13 declarations of 256 MiB or more, _Atomic bit-fields: each compiled alone by cc1 (signals visible) '
                 'and gcc -fsyntax-only; class compared model vs chibicc, spec vs gcc, chibicc vs gcc; accepted ones compared number by number; '
                 'Int model = int32 model (wrap) = int32 model (strict) below 256 MiB, int32 model (wrap) = chibicc above.')
    _REG_CTX[0] = ctx
    specifier_leg(ctx, corr)
    stddef_leg(ctx, corr)
    huge_leg(ctx, corr)
    alignas_vars_leg(ctx, corr)
    outcome_leg(ctx, corr)
    cases = gen_cases(ctx)
    B = 150
    problems = []
    batches = []
    for i in range(0, len(cases), B):
        batches.append(cases[i:i + B])
    preps = [prepare_batch(ctx, [t for _, t in batch], f'b{bi}') for bi, batch in enumerate(batches)]
    with ThreadPoolExecutor(max_workers=max(2, NPROC // 2)) as ex:
        runs = list(ex.map(lambda pr: execute_batch(ctx, pr), preps))
    for bi, batch in enumerate(batches):
        trees = [t for _, t in batch]
        ps = check_batch(ctx, corr, trees, f'b{bi}', 'layout-case', pre=(preps[bi], runs[bi]))
        for g, _ in batch:
            corr.count('gen:' + g)
        problems += ps
        if sum(1 for p in ps if p['kind'] != 'violation' or not regions_of(p['case'])) > 20:
            break
    corr.distribution['layout-case'] = corr.distribution.get('layout-case', 0)
    report(ctx, corr, problems, exempt={ser(t) for g, t in cases if g == 'corpus'})
    # keep the evidence small: collapse known-region mismatches
    inreg = [v for v in corr.violations if v.get('known_id')]
    corr.extra['known_region_mismatches'] = len(inreg)
    if cases:
        t = cases[-1][1]
        corr.sample({'declaration': ser(t)})
    corr.extra['exhaustive_subspace'] = ('all permutations of all valid specifier multisets; all invalid keyword sequences of length <= '
                                         f'{2 if not ctx.thorough else 4}; all member sequences of length <= 2 over the alphabet; every bit-field base x width '
                                         + ('(all widths)' if ctx.thorough else '(all widths <= 16, boundary widths above)'))

def search_without_model(ctx):
    """the Lean side does not build (e.g. a regenerated constant broke a lemma the driver needs): chibicc against gcc alone.
    (1) outcome classes over the edge set (expectation: gcc); (2) sizeof/_Alignof/offsetof/bit images of random declarations,
    known-finding regions decided by the syntactic over-approximation"""
    rng = ctx.rng
    cases = gen_outcome_cases(ctx)
    decls = []
    for i, (g, t) in enumerate(cases):
        namer = Namer(f's{i}')
        namer.force_pre = bool(error_kinds(t))
        d = render(clone(t), 'T', rng, namer, {})
        path = os.path.join(ctx.scratch, f'so{i}.c')
        with open(path, 'w') as f:
            f.write('\n'.join(namer.pre + [f'typedef {d};']) + '\n')
        decls.append((path, ' '.join(namer.pre + [f'typedef {d};'])))
    with ThreadPoolExecutor(max_workers=NPROC) as ex:
        rc_ = list(ex.map(lambda pd: cc1_class(ctx, pd[0]), decls))
        rg_ = list(ex.map(lambda pd: gcc_class(ctx, pd[0]), decls))
    for (g, t), (path, decl), (cclass, cerr), (gclass, gerr) in zip(cases, decls, rc_, rg_):
        if g == 'huge' or gclass == 'diag other':
            continue
        if cclass.startswith('signal') or cclass.startswith('exit') or (cclass == 'layout') != (gclass == 'layout'):
            if gclass == 'layout' and cclass == 'diag incomplete':
                continue        # wrapped size of a 256 MiB aggregate (known finding)
            return {'what': 'outcome class differs from gcc (cc1 run directly on the declaration alone)', 'input': decl, 'case': ser(t),
                    'expected': gclass + ' ' + gerr, 'got': cclass + ' ' + cerr}
    for rnd in range(10):
        trees = [gen_aggregate(rng, rng.choice([0, 1, 2, 3]), rng.randrange(1, 9)) for _ in range(150)]
        src, info = make_program(trees, rng)
        okg, outg = run_program(ctx, src, f'swm{rnd}', 'g')
        if not okg:
            continue
        okc, outc = run_program(ctx, src, f'swm{rnd}', 'c')
        if not okc:
            continue
        rcx, rgx = collect(outc), collect(outg)
        for i, t in enumerate(trees):
            d = first_diff(rcx.get(i), rgx.get(i))
            if d and not regions_syntactic(t):
                return {'what': f'{d[0]} differs from the psABI (gcc 12)', 'input': info[i][1], 'case': ser(t), 'expected': d[2], 'got': d[1]}
    return None

def search(ctx, broken, corr):
    """proof or tie broke and the standard run saw no violation: a longer random stream, chibicc vs gcc only"""
    rng = ctx.rng
    _REG_CTX[0] = ctx
    try:
        ctx.driver('regions', 'e\n')
    except Exception:
        return search_without_model(ctx)
    for rnd in range(20):
        cases = [gen_aggregate(rng, rng.choice([0, 1, 2, 3]), rng.randrange(1, 9)) for _ in range(200)]
        ps = check_batch(ctx, Corr(), cases, f'srch{rnd}', 'search')
        for p in ps:
            if p['kind'] == 'violation' and not regions_of(p['case']):
                small = shrink(ctx, p['case'])
                q = [x for x in check_batch(ctx, Corr(), [small], 'srs', 'search') if x['kind'] == 'violation'] or [p]
                return {'what': q[0]['what'], 'input': q[0]['decl'], 'case': ser(q[0]['case']),
                        'expected': q[0]['expected'], 'got': q[0]['got']}
    return None

def replay(ctx, corr, path):
    _REG_CTX[0] = ctx
    payload = json.load(open(path))
    case = payload.get('case')
    if case:
        t = parse(case.split())
        # outcome class first (a declaration alone, cc1 run directly): signal / accepted although gcc rejects / rejected although gcc accepts
        namer = Namer('r')
        namer.force_pre = bool(error_kinds(t))
        d = render(clone(t), 'T', ctx.rng, namer, {})
        path = os.path.join(ctx.scratch, 'replay_oc.c')
        with open(path, 'w') as f:
            f.write('\n'.join(namer.pre + [f'typedef {d};']) + '\n')
        (cclass, cerr), (gclass, gerr) = cc1_class(ctx, path), gcc_class(ctx, path)
        corr.evaluations += 1
        print(f'replay: outcome class chibicc={cclass} gcc={gclass}')
        if (cclass == 'layout') != (gclass == 'layout') or cclass.startswith('signal') or cclass.startswith('exit'):
            if not (gclass == 'layout' and cclass.startswith('diag') and has_huge_node(ctx, t)):
                corr.violations.append({'what': 'outcome class differs from gcc', 'input': f'typedef {d};', 'case': case,
                                        'expected': gclass + ' ' + gerr, 'got': cclass + ' ' + cerr})
            return
        if gclass != 'layout':
            return
        sl = ctx.driver('speclayout', ser(t) + '\n').split()
        # big objects: sizeof/_Alignof/offsetof only (the full probe defines an object of the type and walks its bits)
        light = sl[0] == 'ok' and (int(sl[1]) > (1 << 20) or int(sl[2]) > 64)
        ps = check_batch(ctx, corr, [t], 'replay', 'replay', light=light)
        report(ctx, corr, ps, shrink_ok=False)
        print('replay:', '; '.join(f"{p['kind']}: {p['what']}" for p in ps) or 'declaration now laid out as by gcc')
        return
    inp = payload.get('input', '')
    if inp.startswith('typedef ') or inp.startswith('<stddef.h>'):
        if inp.startswith('<stddef.h>'):
            stddef_leg(ctx, corr)
        else:
            rc, err = compile_only(ctx, inp + '\nint main(void) { return 0; }\n', 'replay', 'c')
            rg, eg = compile_only(ctx, inp + '\n', 'replay', 'g')
            corr.evaluations = 1
            print(f'replay: chibicc rc={rc} gcc rc={rg}')
            if (rc == 0) != (rg == 0):
                corr.violations.append({'what': 'acceptance differs from gcc', 'input': inp, 'expected': f'gcc rc={rg}', 'got': f'rc={rc} {err.strip()[-200:]}'})
        return
    corr.extra['replay'] = 'replay file carries no declaration'

MANIFEST = {
    'level_text': 'Lean 4 theorems over a model of parse.c declspec / struct_decl / union_decl / struct_members and type.c whose tables '
                  '(counter enum, keyword ladder, switch (counter), primitive Type literals, align_to/align_down) are regenerated from /repo '
                  'on every run. Proved for ALL inputs: (C08_specifiers) every permutation of a keyword sequence is decoded alike and every '
                  'C11 6.7.2p2 multiset gets its psABI type; (C08_specifiers_reject_partial) every other non-empty sequence without a repeated '
                  'signed/unsigned is rejected, so the 2-bit counters never wrap into a valid code; (C08_prims) scalar sizes/alignments = psABI '
                  'figure 3.1; (C08_derived) arrays n*elem, pointers 8/8; (C08_layout_partial, C08_layout_unpacked) for every member list with '
                  'arbitrary member sizes/alignments, bit-fields of any width incl. zero-width and unnamed, _Alignas, aligned(n), struct_decl and '
                  'union_decl return exactly the offsets, bit offsets, size and alignment of an independently written psABI 3.1.2 allocation '
                  'rule and never divide by zero; (C08_types_partial) the same for whole nested type descriptions (anonymous members, arrays, '
                  'pointers, flexible last member, any depth); (C08_allocation_rule, C08_struct_invariants) the rule means what the psABI says: '
                  'least aligned offset, bit-field inside one storage unit, members ordered and disjoint, size the least multiple of the alignment '
                  'covering the members; (C08_aligned_exact, C08_aligned_zero, C08_aligned_rejected, C08_alignas) aligned(n) and _Alignas(n) for '
                  'EVERY integer n: 0 requests nothing, 2^0..2^28 request themselves, everything else is the located diagnostic (guards regenerated '
                  'from parse.c, int64 two\'s complement bit test proved to be the power-of-two test); (C08_bitfield_type) bit-fields of exactly the '
                  'integer/enumerated types are admitted, every other declared type is the located diagnostic; (C08_outcome_class) a description '
                  'gets a layout iff the specification (gcc\'s constraints) accepts it, else one of the two diagnostics; (C08_no_divByZero) no type '
                  'description at all reaches a zero divisor; (C08_align_bound) every alignment is <= 2^28, so the int products mem->align * 8 of '
                  'struct_decl cannot wrap to 0; (C08_layout_int_partial, C08_types_int_partial) struct_decl / union_decl / array_of redone with every '
                  'C int operation explicit (Model/Layout32: strict = signed overflow is an outcome, wrap = two\'s complement) give the same '
                  'psABI layouts for everything below 256 MiB, in both modes, so the unbounded-Int idealisation is exact there. PARTIAL: layout theorems exclude three narrow regions inside __attribute__((packed)) that are known '
                  'findings (packed struct in which a bit-field really straddles a storage unit where gcc puts it; packed aggregate with member '
                  '_Alignas > 1; packed union with a named bit-field narrower in bytes than its type), and '
                  'aggregates of 256 MiB or more (int overflow, known finding); full statements are kept and refuted by kernel-checked witnesses. '
                  'Tie on every run: the model is executed against programs compiled by the snapshot compiler (sizeof/_Alignof/offsetof and the '
                  'bits each bit-field reads and writes) on thousands of generated declarations; the specification is validated against gcc 12 on '
                  'the same declarations; chibicc is compared with gcc directly. Declarations at and beyond the edge (aligned/_Alignas 0, negative, '
                  'non-powers of two, 2^28, >= 2^32; bit-fields of floating/pointer/array/struct/union/void type, enum bit-fields) are compiled one '
                  'by one with cc1 run directly: the outcome class layout / which diagnostic / signal is compared model vs chibicc, spec vs gcc, '
                  'chibicc vs gcc. The known-finding regions the check uses are the Lean predicates themselves (drv_c08 regions). '
                  'Declarations of 256 MiB or more (known finding) are compared with the wrap-around int32 model: it reproduces the numbers '
                  '(negative sizeof/offsetof, sizeof 0 for a 4 GiB array) and the "field has incomplete type" diagnostics of the real compiler.',
    'level_note': 'Trusted: Lean kernel (propext, Classical.choice, Quot.sound; audited each run); tools/extract/declspec.py (regex over exact '
                  'shapes, fails on any other); the hand model of the loops (tied by differential execution, which is testing); Spec/LayoutSpec.lean '
                  '(my reading of C11 6.7.2p2 and psABI 3.1.2, validated against gcc 12 each run); C int as unbounded Int. Not modelled: the '
                  'parser around declspec/declarator (qualifiers, typedef names, _Atomic, typeof, enum sizes beyond int), struct tags/redefinition, '
                  'member attributes other than _Alignas; those are exercised only through the compiled programs. Rejection of repeated '
                  'signed/unsigned and of the empty specifier list is NOT proved (chibicc accepts them; treated as latitude).',
    'technique': 'Lean 4: whole-table decide over the regenerated declspec switch lifted by induction over permutations (finite-automaton argument); '
                 'induction over member lists with a running bit-cursor / (size, alignment) invariant against an independent allocation-rule '
                 'specification; mutual structural induction over type descriptions; translator-regenerated tables; differential execution '
                 'chibicc / gcc 12 / model / spec',
    'design_ref': 'DESIGN.md section 6, C08',
}
