"""Generator of declaration / lvalue / update cases for the `_Atomic` propagation leg of C16 (not a plugin).

A case is a parse tree (S-expression, grammar in lean/ChibiVerif/Driver/C16QualCmd.lean).  The Lean driver prints it as C
text and predicts types and the update path from the model; this module only builds well-formed trees, guided by its own
small C type calculator (so that the lvalue it builds is, most of the time, a valid one of scalar type)."""

PRIMS = ['bool', 'char', 'uchar', 'short', 'ushort', 'int', 'uint', 'long', 'ulong', 'float', 'double', 'ldouble']
INT_PRIMS = ['char', 'uchar', 'short', 'ushort', 'int', 'uint', 'long', 'ulong']
INT_OPS = ['add', 'sub', 'mul', 'div', 'mod', 'and', 'or', 'xor', 'shl', 'shr', 'preinc', 'predec', 'postinc', 'postdec']
FLO_OPS = ['add', 'sub', 'mul', 'div', 'preinc', 'predec', 'postinc', 'postdec']
PTR_OPS = ['add', 'sub', 'preinc', 'predec', 'postinc', 'postdec']
BOOL_OPS = ['and', 'or', 'xor', 'add', 'mul', 'preinc', 'postinc', 'postdec']

# python-side types: ('num', prim, atomic) ('enum', atomic) ('void',) ('ptr', T, atomic) ('arr', T, n) ('fn', T) ('agg', isUnion, tag, atomic)
# declarators: 'n' | ['p', D, Q...] | ['a', D, N] | ['f', D] | ['g', D];  Q = a type qualifier after the `*` (C11 6.7.6.1): the
# pointer is atomic iff `_Atomic` is among them

RESTRICTS = ['restrict', '__restrict', '__restrict__']


def gen_quals(r, pointee, p_any=0.35):
    """type-qualifier-list after a `*`: any order, any multiplicity.  `restrict` only on pointers to object types (6.7.3p2) and
    rarely together with `_Atomic` (clang-14 rejects that combination, gcc accepts it: such a case is still compared between
    chibicc and the model, but the specification cannot be validated on it); `const` rarely (an update of a const object is a
    constraint violation that chibicc does not diagnose - outside C16 - and clang rejects)"""
    if r.random() >= p_any:
        return []
    qs = []
    atomic = r.random() < 0.65
    if atomic:
        qs.append('_Atomic')
        if r.random() < 0.12:
            qs.append('_Atomic')
    if r.random() < 0.35:
        qs.append('volatile')
    if r.random() < 0.07:
        qs.append('const')
    is_obj = pointee is None or pointee[0] != 'fn'
    if is_obj and r.random() < (0.03 if atomic else 0.45):
        qs.append(r.choice(RESTRICTS))
        if r.random() < 0.2:
            qs.append(r.choice(RESTRICTS))
    r.shuffle(qs)
    return qs


def sx(x):
    if isinstance(x, (list, tuple)):
        return '(' + ' '.join(sx(y) for y in x) + ')'
    return str(x)


def qualify(t):
    k = t[0]
    if k == 'num':
        return ('num', t[1], True)
    if k == 'enum':
        return ('enum', True)
    if k == 'ptr':
        return ('ptr', t[1], True)
    if k == 'agg':
        return ('agg', t[1], t[2], True)
    return t     # array / function / void: a constraint violation; the calculator just carries on


def apply_declr(d, t):
    if d == 'n':
        return t
    if d[0] == 'p':
        return apply_declr(d[1], ('ptr', t, '_Atomic' in d[2:]))
    if d[0] == 'a':
        return apply_declr(d[1], ('arr', t, d[2]))
    if d[0] == 'f':
        return apply_declr(d[1], ('fn', t))
    return apply_declr(d[1], t)


def is_atomic(t):
    return t[0] in ('num', 'enum', 'ptr', 'agg') and t[-1] is True


class Gen:
    def __init__(self, rng):
        self.rng = rng
        self.typedefs = {}      # name -> type
        self.tags = {}          # tag -> (isUnion, [(name, type, bf)])
        self.vars = []          # (name, type, storage)
        self.decls = []
        self.n = 0

    def fresh(self, p):
        self.n += 1
        return f'{p}{self.n}'

    # ---- types
    def gen_spec(self, depth, want_atomic_bias=0.35):
        """returns (ds sexp, type)"""
        r = self.rng
        kw = 1 if r.random() < want_atomic_bias else 0
        c = r.random()
        if c < 0.45 or depth <= 0:
            p = r.choice(PRIMS if r.random() < 0.8 else ['int', 'long', 'uchar'])
            spec, t = p, ('num', p, False)
        elif c < 0.50:
            spec, t = 'enum', ('enum', False)
        elif c < 0.65 and self.typedefs:
            n = r.choice(sorted(self.typedefs))
            spec, t = ['tdef', n], self.typedefs[n]
        elif c < 0.78 and self.tags:
            tag = r.choice(sorted(self.tags))
            u = self.tags[tag][0]
            spec, t = ['union' if u else 'struct', tag], ('agg', u, tag, False)
        elif c < 0.84:
            ds, t0 = self.gen_spec(depth - 1)
            d = self.gen_declr(depth - 1, abstract=True, base=t0)
            spec, t = ['typeofT', ds, d], apply_declr(d, t0)
        elif c < 0.92 and self.vars:
            e, t = self.gen_expr(stop_scalar=0.5, allow_rvalue=True)
            if e is None:
                spec, t = 'int', ('num', 'int', False)
            else:
                spec = ['typeofE', e]
        elif c < 0.97:
            ds, t0 = self.gen_spec(depth - 1, want_atomic_bias=0.05)
            d = self.gen_declr(depth - 1, abstract=True, base=t0, no_array_top=True, plain_top=True)
            spec, t = ['atomicOf', ds, d], qualify(apply_declr(d, t0))
            kw = kw if r.random() < 0.1 else 0
        else:
            spec, t = 'void', ('void',)
            kw = 0
        if kw:
            t = qualify(t)
        return [kw, spec], t

    def gen_declr(self, depth, abstract=False, base=None, no_array_top=False, plain_top=False):
        """random declarator; keeps the resulting type a valid object type (no array of void / functions)"""
        r = self.rng
        d = 'n'
        t = base
        steps = r.choice([0, 0, 0, 1, 1, 2, 3]) if depth > 0 else r.choice([0, 0, 1])
        # build from the base type outwards: each step wraps the type and is the OUTERMOST declarator node so far
        ops = []
        for _ in range(steps):
            k = r.random()
            if t is not None and t[0] == 'void':
                k = 0.0
            if k < 0.6:
                qs = gen_quals(r, t)
                ops.append(('p', qs)); t = ('ptr', t, '_Atomic' in qs) if t is not None else None
            else:
                n = r.choice([1, 2, 3, 5])
                ops.append(('a', n)); t = ('arr', t, n) if t is not None else None
        if no_array_top and ops and ops[-1][0] == 'a':
            ops.append(('p', []))
        if plain_top and ops and ops[-1][0] == 'p' and r.random() < 0.9:
            ops[-1] = ('p', [])     # `_Atomic(T)`: T shall not be a qualified type (6.7.2.4p3); the violation is generated rarely
        # ops[0] applies first to the base type, i.e. it is the outermost (applied first by `apply`)
        for op in reversed(ops):
            pass
        # `apply (p D) T = apply D (ptr T)`: the node applied first is the root.  Build so that ops are applied in order.
        def build(i):
            if i == len(ops):
                return 'n'
            inner = build(i + 1)
            if ops[i][0] == 'p':
                return ['p', inner] + ops[i][1]
            return ['a', inner, ops[i][1]]
        d = build(0)
        if r.random() < 0.08 and d != 'n' and not abstract:
            d = ['g', d]
        return d

    # ---- expressions
    def gen_expr(self, stop_scalar=0.7, allow_rvalue=False, want=None):
        """walk from a variable to an lvalue; returns (expr sexp, type) or (None, None)"""
        r = self.rng
        cands = [v for v in self.vars]
        if not cands:
            return None, None
        r.shuffle(cands)
        for name, t, sto in cands:
            e = ['v', name]
            lv = True
            for _ in range(8):
                k = t[0]
                if k == 'fn':
                    e, t = ['call', e], self.unq(t[1])
                    lv = False
                    if t[0] in ('num', 'enum', 'agg', 'void'):
                        break       # an rvalue of non-pointer type: not an lvalue
                    continue
                if k in ('num', 'enum'):
                    break
                if k == 'ptr':
                    if t[1][0] == 'void':
                        break
                    if t[1][0] == 'fn' and lv and is_atomic(t) and r.random() < 0.6 and (want is None or want(t)):
                        break       # the (atomic) function pointer itself is updated
                    if t[1][0] == 'fn':
                        e, t = ['call', e], self.unq(t[1][1])
                        lv = False
                        if t[0] != 'ptr':
                            break
                        continue
                    if lv and r.random() < stop_scalar and (want is None or want(t)):
                        break
                    c = r.random()
                    if t[1][0] == 'agg' and c < 0.5 and not is_atomic(t[1]):
                        ms = self.tags[t[1][2]][1]
                        if not ms:
                            break
                        m = r.choice(ms)
                        e, t = ['arrow', e, m[0]], m[1]
                        self.last_bf = m[2]
                    elif c < 0.75:
                        e, t = ['deref', e], t[1]
                    elif c < 0.9:
                        e, t = ['idx', e, r.choice([0, 1, 2])], t[1]
                    else:
                        e, t = ['deref', ['add', e, r.choice([0, 1])]], t[1]
                    lv = True
                    continue
                if k == 'arr':
                    if t[1][0] == 'void':
                        break
                    c = r.random()
                    if c < 0.7:
                        e, t = ['idx', e, r.randrange(max(1, t[2]))], t[1]
                    elif c < 0.85:
                        e, t = ['deref', e], t[1]
                    else:
                        e, t = ['deref', ['add', e, 0]], t[1]
                    continue
                if k == 'agg':
                    ms = self.tags[t[2]][1]
                    if is_atomic(t) or not ms:
                        break
                    m = r.choice(ms)
                    e, t = ['mem', e, m[0]], m[1]
                    self.last_bf = m[2]
                    continue
                break
            # decorations that leave the designated object unchanged
            if lv and (t[0] not in ('arr', 'fn', 'void') and e[0] not in ('call', 'v') or e[0] == 'v'):
                c = r.random()
                bf = getattr(self, 'last_bf', False) and e[0] in ('mem', 'arrow')
                if c < 0.08:
                    e = ['par', e]
                elif c < 0.14 and t[0] != 'arr' and not bf and e[0] != 'call':
                    e = ['deref', ['addr', e]]
                elif c < 0.18 and t[0] not in ('arr', 'agg') and not bf and e[0] != 'call':
                    # *(T *)&e with T the same type spelled through typeof
                    e = ['deref', ['cast', [0, ['typeofE', e]], ['p', 'n'], ['addr', e]]]
            if (lv and (t[0] in ('num', 'enum', 'ptr') or (t[0] == 'agg' and is_atomic(t)))) or allow_rvalue:
                if want is None or want(t):
                    return e, t
        return None, None

    def unq(self, t):
        k = t[0]
        if k == 'num':
            return ('num', t[1], False)
        if k == 'enum':
            return ('enum', False)
        if k == 'ptr':
            return ('ptr', t[1], False)
        if k == 'agg':
            return ('agg', t[1], t[2], False)
        return t

    # ---- declarations
    def add_agg(self):
        r = self.rng
        u = r.random() < 0.25
        tag = self.fresh('U' if u else 'S')
        ms, members = [], []
        for _ in range(r.choice([1, 2, 2, 3, 4])):
            ds, t0 = self.gen_spec(1)
            d = self.gen_declr(1, base=t0)
            t = apply_declr(d, t0)
            if t[0] in ('void', 'fn') or (t[0] == 'arr' and self.has_void_elem(t)):
                continue
            name = self.fresh('m')
            bf = 0
            if t[0] == 'num' and t[1] in INT_PRIMS + ['bool'] and d == 'n' and r.random() < 0.2:
                bf = 1 if (not is_atomic(t) or r.random() < 0.15) else 0
            ms.append([name, ds, d, bf]); members.append((name, t, bool(bf)))
        if not ms:
            ms.append([self.fresh('m'), [0, 'int'], 'n', 0]); members.append((ms[0][0], ('num', 'int', False), False))
        self.tags[tag] = (u, members)
        self.decls.append(['union' if u else 'struct', tag] + ms)

    def has_void_elem(self, t):
        while t[0] == 'arr':
            t = t[1]
        return t[0] in ('void', 'fn')

    def add_typedef(self):
        ds, t0 = self.gen_spec(2)
        d = self.gen_declr(2, base=t0)
        t = apply_declr(d, t0)
        if self.has_void_elem(t) and t[0] == 'arr':
            return
        name = self.fresh('T')
        self.typedefs[name] = t
        self.decls.append(['typedef', name, ds, d])

    def add_var(self, sto):
        saved = self.vars
        if sto == 'param':
            # chibicc does not see a parameter in the declarations of the later parameters (C does): not generated
            self.vars = [v for v in self.vars if v[2] != 'param']
        try:
            ds, t0 = self.gen_spec(2)
            d = self.gen_declr(2, base=t0)
        finally:
            self.vars = saved
        t = apply_declr(d, t0)
        if t[0] in ('void', 'fn') or (t[0] == 'arr' and self.has_void_elem(t)):
            return
        if t[0] == 'agg' and not self.tags[t[2]][1]:
            return
        name = self.fresh('x')
        tt = t
        if sto == 'param':
            if t[0] == 'arr':
                tt = ('ptr', t[1], False)
            if t[0] == 'agg':
                return      # keep parameters scalar (struct parameters are C06's business)
        self.vars.append((name, tt, sto))
        self.decls.append(['var', sto, name, ds, d])

    def add_func(self):
        """`T *g(void);` or `T (*g)(void)`: something returning a pointer"""
        r = self.rng
        ds, t0 = self.gen_spec(1)
        name = self.fresh('g')
        c = r.random()
        if t0[0] == 'void' or c < 0.2:
            # T (*Q... g)(void): a pointer to a function, itself possibly atomic (`void (*_Atomic fp)(void)`)
            if t0[0] in ('arr', 'fn'):
                return
            qs = gen_quals(r, ('fn', t0), p_any=0.8)
            d = ['f', ['p', 'n'] + qs]
            t = ('ptr', ('fn', t0), '_Atomic' in qs)
        elif c < 0.65:
            qr = gen_quals(r, t0)
            d = ['p', ['f', 'n']] + qr             # T *Q... g(void)
            t = ('fn', ('ptr', t0, '_Atomic' in qr))
        else:
            qr, qs = gen_quals(r, t0), gen_quals(r, ('fn', t0), p_any=0.6)
            d = ['p', ['f', ['p', 'n'] + qs]] + qr   # T *Q... (*Q... g)(void)
            t = ('ptr', ('fn', ('ptr', t0, '_Atomic' in qr)), '_Atomic' in qs)
        self.vars.append((name, t, 'global'))
        self.decls.append(['var', 'global', name, ds, d])

    def case(self):
        r = self.rng
        for _ in range(r.choice([0, 1, 1, 2])):
            self.add_agg()
        for _ in range(r.choice([0, 1, 2, 3])):
            self.add_typedef()
        if r.random() < 0.3:
            self.add_agg()
        for _ in range(r.choice([1, 2, 3])):
            self.add_var(r.choice(['global', 'global', 'static', 'extern', 'tls']))
        if r.random() < 0.3:
            self.add_func()
        for _ in range(r.choice([0, 0, 1, 2])):
            self.add_var('param')
        for _ in range(r.choice([0, 1, 1, 2])):
            self.add_var(r.choice(['local', 'local', 'local', 'slocal']))
        if not self.vars:
            self.add_var('global')
        if not self.vars:
            self.decls.append(['var', 'global', 'x0', [1, 'int'], 'n']); self.vars.append(('x0', ('num', 'int', True), 'global'))
        self.last_bf = False
        # prefer an atomic target two times out of three
        e, t = (None, None)
        if r.random() < 0.67:
            e, t = self.gen_expr(want=is_atomic)
        if e is None:
            e, t = self.gen_expr()
        if e is None:
            name, t, _ = self.vars[0]
            e = ['v', name]
        k = t[0]
        if k == 'num' and t[1] in INT_PRIMS:
            op = r.choice(INT_OPS)
        elif k == 'num' and t[1] == 'bool':
            op = r.choice(BOOL_OPS)
        elif k == 'num':
            op = r.choice(FLO_OPS)
        elif k == 'enum':
            op = r.choice(['add', 'or', 'preinc', 'postinc'])
        elif k == 'ptr':
            op = r.choice(PTR_OPS) if t[1][0] not in ('void', 'fn') else 'add'
        else:
            op = r.choice(['add', 'mul', 'postinc'])
        return sx(['case', ['decls'] + self.decls, ['upd', op, e]]), t


def gen_case(rng):
    g = Gen(rng)
    text, t = g.case()
    names = [v[0] for v in g.vars if v[2] != 'slocal']
    return text, names, t


# hand-written forms: the 42 declaration forms of the first version of the check, as trees, plus the shapes found while
# building the model (typedef of an array with _Atomic, _Atomic(T) of a pointer, atomic bit-field, atomic struct, &array ...)
FIXED = [
    '(case (decls (var global p (0 (atomicOf (0 int) (p n))) n)) (upd postinc (v p)))',
    '(case (decls (typedef ai (1 int) n) (var global x (0 (tdef ai)) n)) (upd postinc (v x)))',
    '(case (decls (typedef it (0 int) n) (var global x (1 (tdef it)) n)) (upd postinc (v x)))',
    '(case (decls (typedef ai (1 int) n) (typedef ai2 (0 (tdef ai)) n) (var global x (0 (tdef ai2)) n)) (upd sub (v x)))',
    '(case (decls (var global a (1 int) n) (var global b (0 (typeofE (v a))) n)) (upd postinc (v b)))',
    '(case (decls (var global a (1 int) (a n 3))) (upd postinc (idx (v a) 1)))',
    '(case (decls (var global a (1 int) (a (a n 2) 3)) (var param i (0 int) n)) (upd xor (idx (idx (v a) 1) 2)))',
    '(case (decls (var global a (1 int) n) (var local p (1 int) (p n))) (upd preinc (deref (v p))))',
    '(case (decls (var global a (1 int) n) (var local p (0 (typeofE (addr (v a)))) n)) (upd preinc (deref (v p))))',
    '(case (decls (var global a (1 int) n) (var local p (0 (typeofE (v a))) (p n))) (upd sub (idx (v p) 0)))',
    '(case (decls (var global gp (1 int) (p n))) (upd postinc (deref (cast (1 int) (p n) (v gp)))))',
    '(case (decls (struct S (x (1 int) n 0)) (var global s (0 (struct S)) n)) (upd postinc (mem (v s) x)))',
    '(case (decls (struct S (x (1 int) n 0)) (var global s (0 (struct S)) n) (var local p (0 (struct S)) (p n))) (upd or (arrow (v p) x)))',
    '(case (decls (struct S (pad (0 int) n 0) (x (1 short) n 0)) (var global s (0 (struct S)) (a n 4))) (upd shl (mem (idx (v s) 2) x)))',
    '(case (decls (struct I (n (1 long) n 0)) (struct O (c (0 char) n 0) (in (0 (struct I)) n 0)) (var global o (0 (struct O)) n)) (upd add (mem (mem (v o) in) n)))',
    '(case (decls (struct S (x (1 int) n 0)) (var global s (0 (struct S)) n)) (upd postinc (deref (addr (mem (v s) x)))))',
    '(case (decls (union U (x (1 int) n 0) (y (0 long) n 0)) (var global u (0 (union U)) n)) (upd postinc (mem (v u) x)))',
    '(case (decls (var global b (1 bool) n)) (upd xor (v b)))',
    '(case (decls (var global e (1 enum) n)) (upd add (v e)))',
    '(case (decls (var param x (1 int) n)) (upd postinc (v x)))',
    '(case (decls (var param x (1 int) (p n))) (upd postdec (idx (v x) 1)))',
    '(case (decls (var global x (1 int) n)) (upd add (par (v x))))',
    '(case (decls (var global x (1 int) n) (var local p (1 int) (p n))) (upd add (deref (add (v p) 0))))',
    '(case (decls (var slocal l (1 int) n)) (upd postinc (v l)))',
    '(case (decls (var global x (0 (atomicOf (1 int) n)) n)) (upd postinc (v x)))',
    '(case (decls (var global pp (1 int) (p (p n)))) (upd postinc (deref (deref (v pp)))))',
    '(case (decls (var global x (1 ulong) n)) (upd mod (v x)))',
    '(case (decls (var global fl (1 float) n)) (upd postinc (v fl)))',
    '(case (decls (var global d (1 double) n)) (upd mul (v d)))',
    '(case (decls (var extern x (1 int) n)) (upd postinc (v x)))',
    '(case (decls (var tls x (1 int) n)) (upd postinc (v x)))',
    '(case (decls (var param x (1 int) (a n 2))) (upd postinc (idx (v x) 1)))',
    '(case (decls (var param x (1 int) (a (a n 2) 3))) (upd add (idx (idx (v x) 1) 2)))',
    '(case (decls (struct S (m (0 (typeofT (1 ulong) n)) n 0)) (var local s (0 (struct S)) n)) (upd div (mem (v s) m)))',
    # found while building the model
    '(case (decls (typedef arr3 (0 int) (a n 3)) (var global a (1 (tdef arr3)) n)) (upd preinc (idx (v a) 1)))',
    '(case (decls (struct S (y (0 int) n 1) (x (1 int) n 1)) (var global s (0 (struct S)) n)) (upd add (mem (v s) x)))',
    '(case (decls (typedef ai (1 int) n) (struct S (x (0 (tdef ai)) n 1)) (var global s (0 (struct S)) n)) (upd add (mem (v s) x)))',
    '(case (decls (struct T (a (0 int) n 0)) (var global s (1 (struct T)) n)) (upd add (v s)))',
    '(case (decls (struct T (a (0 long) n 0) (b (0 long) n 0)) (var global s (1 (struct T)) n)) (upd mul (v s)))',
    '(case (decls (var global x (1 ldouble) n)) (upd postinc (v x)))',
    '(case (decls (var global a (1 int) (a n 3)) (var local p (0 (typeofE (addr (v a)))) n)) (upd postinc (deref (v p))))',
    '(case (decls (var global g (1 int) (p (f n)))) (upd sub (deref (call (v g)))))',
    '(case (decls (var global g (1 long) (p (f (p n))))) (upd postinc (idx (call (v g)) 1)))',
    '(case (decls (struct N (next (0 (struct N)) (p n) 0) (v (1 int) n 0)) (var global h (0 (struct N)) (p n))) (upd postinc (arrow (arrow (v h) next) v)))',
    '(case (decls (var global x (0 float) n)) (upd postinc (v x)))',
    '(case (decls (var global x (0 bool) n)) (upd postdec (v x)))',
    '(case (decls (struct S (b (0 bool) n 1)) (var global s (0 (struct S)) n)) (upd postinc (mem (v s) b)))',
    '(case (decls (struct S (x (0 int) n 0)) (var global s (0 (struct S)) n)) (upd add (mem (v s) x)))',
    '(case (decls (var global x (0 int) n)) (upd add (v x)))',
    '(case (decls (var global p (0 (typeofT (1 int) (p n))) n)) (upd and (deref (v p))))',
    '(case (decls (var global p (0 (atomicOf (0 (atomicOf (0 int) n)) (p n))) n)) (upd add (deref (v p))))',
    '(case (decls (var global a (0 (typeofT (1 short) (a n 2))) (a n 2))) (upd shr (idx (idx (v a) 1) 1)))',
    # `_Atomic` in the qualifier list of a pointer declarator (/repo 1c76c1e): the POINTER is atomic, at every level
    '(case (decls (var global p (0 int) (p n _Atomic))) (upd postinc (v p)))',
    '(case (decls (var global p (0 int) (p n _Atomic))) (upd add (v p)))',
    '(case (decls (var global p (0 int) (p n _Atomic))) (upd predec (v p)))',
    '(case (decls (var global p (0 int) (p n _Atomic))) (upd add (deref (v p))))',                       # the pointee is plain
    '(case (decls (var global p (0 int) (p n _Atomic))) (upd postinc (idx (v p) 1)))',
    '(case (decls (var global p (1 int) (p n _Atomic))) (upd xor (deref (v p))))',                       # both atomic
    '(case (decls (var global q (0 int) (p (p n) _Atomic))) (upd postinc (deref (v q))))',               # int *_Atomic *q
    '(case (decls (var global q (0 int) (p (p n) _Atomic))) (upd postinc (v q)))',                       # q itself is plain
    '(case (decls (var global q (0 int) (p (p n) _Atomic))) (upd sub (deref (deref (v q)))))',
    '(case (decls (var global q (0 int) (p (p n _Atomic)))) (upd sub (v q)))',                           # int **_Atomic q
    '(case (decls (var global q (0 long) (p (p (p n _Atomic)) _Atomic))) (upd preinc (idx (v q) 0)))',   # plain middle level
    '(case (decls (var global a (0 int) (p (a n 3) _Atomic))) (upd add (idx (v a) 2)))',                 # int *_Atomic a[3]
    '(case (decls (var global a (0 char) (p (a (a n 2) 3) volatile _Atomic))) (upd postdec (idx (idx (v a) 1) 2)))',
    '(case (decls (var global a (0 int) (a (g (p n _Atomic)) 3))) (upd postinc (v a)))',                 # int (*_Atomic a)[3]
    '(case (decls (var global a (0 int) (a (g (p n _Atomic)) 3))) (upd or (idx (deref (v a)) 1)))',
    '(case (decls (struct S (c (0 char) n 0) (m (0 int) (p n _Atomic) 0)) (var global s (0 (struct S)) n)) (upd postinc (mem (v s) m)))',
    '(case (decls (struct S (c (0 char) n 0) (m (0 int) (p n _Atomic) 0)) (var global s (0 (struct S)) n) (var local q (0 (struct S)) (p n))) (upd sub (arrow (v q) m)))',
    '(case (decls (struct S (c (0 char) n 0) (m (0 int) (p n _Atomic) 0)) (var global s (0 (struct S)) n)) (upd mul (deref (mem (v s) m))))',
    '(case (decls (struct N (next (0 (struct N)) (p n _Atomic) 0) (v (0 int) n 0)) (var global h (0 (struct N)) (p n))) (upd postinc (arrow (v h) next)))',
    '(case (decls (struct N (next (0 (struct N)) (p n _Atomic) 0) (v (0 int) n 0)) (var global h (0 (struct N)) (p n))) (upd postinc (arrow (arrow (v h) next) v)))',
    '(case (decls (union U (m (0 short) (p n _Atomic) 0) (y (0 long) n 0)) (var global u (0 (union U)) n)) (upd preinc (mem (v u) m)))',
    '(case (decls (typedef ap (0 int) (p n _Atomic)) (var global x (0 (tdef ap)) n)) (upd postinc (v x)))',
    '(case (decls (typedef ap (0 int) (p n _Atomic)) (var global x (0 (tdef ap)) (a n 2))) (upd add (idx (v x) 1)))',
    '(case (decls (typedef ap (0 int) (p n _Atomic)) (var global x (0 (tdef ap)) (p n))) (upd predec (deref (v x))))',
    '(case (decls (typedef ip (0 int) (p n)) (var global x (0 (tdef ip)) (p n _Atomic))) (upd add (v x)))',
    '(case (decls (var param p (0 int) (p n _Atomic))) (upd postinc (v p)))',
    '(case (decls (var param p (0 int) (p (a n 2) _Atomic))) (upd postinc (idx (v p) 1)))',              # int *_Atomic p[2] -> pointer to atomic pointer
    '(case (decls (var param p (0 int) (p (a n 2) _Atomic))) (upd postinc (v p)))',
    '(case (decls (var global fp (0 void) (f (p n _Atomic)))) (upd add (v fp)))',                        # void (*_Atomic fp)(void)
    '(case (decls (var global fp (0 int) (p (f (p n _Atomic))))) (upd add (v fp)))',                     # int *(*_Atomic fp)(void)
    '(case (decls (var global fp (0 int) (p (f (p n _Atomic))))) (upd sub (deref (call (v fp)))))',
    '(case (decls (var global g (0 int) (p (f n) _Atomic))) (upd postinc (deref (call (v g)))))',        # int *_Atomic g(void): an rvalue
    '(case (decls (var local p (0 int) (p n _Atomic))) (upd postdec (v p)))',
    '(case (decls (var slocal p (0 int) (p n _Atomic))) (upd postinc (v p)))',
    '(case (decls (var tls p (0 int) (p n _Atomic))) (upd preinc (v p)))',
    '(case (decls (var extern p (0 double) (p n _Atomic))) (upd sub (v p)))',
    '(case (decls (var global p (0 void) (p n _Atomic))) (upd add (v p)))',                              # void *_Atomic
    '(case (decls (var global p (0 (struct Z)) (p n _Atomic))) (upd postinc (v p)))'.replace('(0 (struct Z))', '(0 int)'),
    # the whole qualifier list: order and multiplicity
    '(case (decls (var global p (0 int) (p n const volatile restrict __restrict __restrict__))) (upd postinc (v p)))',
    '(case (decls (var global p (0 int) (p n volatile _Atomic))) (upd postinc (v p)))',
    '(case (decls (var global p (0 int) (p n _Atomic volatile))) (upd postinc (v p)))',
    '(case (decls (var global p (0 int) (p n _Atomic _Atomic))) (upd postinc (v p)))',
    '(case (decls (var global p (0 int) (p n restrict _Atomic __restrict__ volatile _Atomic __restrict))) (upd add (v p)))',
    '(case (decls (var global p (0 int) (p n const _Atomic))) (upd add (v p)))',
    '(case (decls (var global p (0 int) (p (g n) _Atomic))) (upd postinc (v p)))',                       # int *_Atomic (p)
    '(case (decls (var global p (0 int) (p (g n) _Atomic volatile))) (upd postinc (v p)))',
    # type names: typeof, casts, _Atomic( )
    '(case (decls (var global p (0 (typeofT (0 int) (p n _Atomic))) n)) (upd postinc (v p)))',
    '(case (decls (var global p (0 int) (p n _Atomic)) (var global r (0 (typeofE (v p))) n)) (upd postinc (v r)))',
    '(case (decls (var global p (0 int) (p n _Atomic)) (var global r (0 (typeofE (addr (v p)))) n)) (upd postinc (deref (v r))))',
    '(case (decls (var global p (0 int) (p n))) (upd postinc (deref (cast (0 int) (p (p n) _Atomic) (addr (v p))))))',
    '(case (decls (var global p (0 int) (p n))) (upd postinc (deref (addr (cast (0 int) (p n _Atomic) (v p))))))'.replace('(deref (addr (cast (0 int) (p n _Atomic) (v p))))', '(deref (cast (0 int) (p (p n _Atomic)) (addr (v p))))'),
    '(case (decls (var global p (0 (atomicOf (0 int) (p n _Atomic))) n)) (upd postinc (v p)))',          # _Atomic(int *_Atomic): constraint violation
    '(case (decls (var global p (0 (atomicOf (0 int) (p (p n) _Atomic))) n)) (upd postinc (deref (v p))))',
]
