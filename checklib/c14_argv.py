"""C14, argv level: generators and the two correspondence legs that tie Model/C14Args.lean + Model/C14Compose.lean to main.c.

(1) parse leg (in-process): tools/harness/c14_args_harness.c #includes the snapshot's main.c, runs parse_args on generated
    argument lists (every option of the regenerated ladder x joined / separate / missing / empty / odd arguments x several
    inputs) under ASan/UBSan and prints every option variable; `drv_c14 parse` prints the model's.  A crash of parse_args
    is a VIOLATION (NULL read through), any other difference a disagreement.
(2) argv leg (processes): structured command lines (modes, -o forms, -x, -M family, -D/-U/-I/-include, linker options, -Wl,
    several inputs of different kinds, faults) run on the REAL driver under the C14 shims; exit status, event trace, files
    created/changed (with the dependency files and their TEXT), and the full command line of every child are compared with
    `drv_c14 argv` / `drv_c14 deptext`.
All randomness from the rng handed in."""
import os, re, json, glob, itertools, subprocess, threading
from concurrent.futures import ThreadPoolExecutor

US = '\x1f'


def enc(s):
    out = []
    for b in s.encode('utf-8', 'surrogateescape'):
        c = chr(b)
        if b < 128 and (c.isalnum() or c in '_./#+-'):
            out.append(c)
        else:
            out.append('%%%02X' % b)
    return ''.join(out)


def dec(s):
    return re.sub(r'%([0-9A-F]{2})', lambda m: chr(int(m.group(1), 16)), s)


# ---------------------------------------------------------------------------------------------- the regenerated tables

def read_tables(lean_dir):
    g = open(os.path.join(lean_dir, 'ChibiVerif/Gen/C14ArgsGen.lean')).read()

    def strs(body):
        return [json.loads('"' + x + '"') for x in re.findall(r'"((?:\\.|[^"\\])*)"', body)]
    fl = re.search(r'def flagVars .*?:= \[(.*?)\]\n', g).group(1)
    flags = re.findall(r'\("(\w+)", (?:true|false)\)', fl)
    svars = strs(re.search(r'def strVars .*?:= \[(.*?)\]\n', g).group(1))
    avars = [a for a in strs(re.search(r'def arrVars .*?:= \[(.*?)\]\n', g).group(1)) if a not in ('define', 'undef_macro')]
    take = strs(re.search(r'def takeArgList .*?:= \[(.*?)\]\n', g).group(1))
    lad = re.search(r'def ladder : List Arm := \[\n(.*?)\n\]\n', g, re.S).group(1)
    arms = []
    for line in lad.split('\n'):
        m = re.match(r'\s*⟨\[(.*?)\], \[(.*)\]⟩,?$', line)
        if not m:
            raise RuntimeError('cannot read ladder line: ' + line)
        tests = [(k, json.loads('"' + s + '"')) for k, s in re.findall(r'\.(eq|pre) "((?:\\.|[^"\\])*)"', m.group(1))]
        arms.append({'tests': tests, 'next': '.next' in m.group(2), 'body': m.group(2)})
    return {'flags': flags, 'strs': svars, 'arrs': avars, 'take': take, 'arms': arms}


# ---------------------------------------------------------------------------------------------- (1) parse leg

FILE_WORDS = ['a.c', 'b.c', 'x.s', 'y.o', 'lib.a', 'lib.so', 'noext', 'dir/v.w.c', 'q.xyz', '-', '', 'a b.c', 'é.c']
ARG_WORDS = ['x.o', 'out', 'A=1', 'A', 'B=', 'c', 'assembler', 'none', 'cpp', 'inc', 'h.h', 'a b', 'a$b #c', 'a\\ b', '', '-',
             '-o', '-D', '-c', '-cc1', 'dir', '-rpath', 'd.d', 't1 t2', '=', 'x=y=z', '$', '#', ' ']


def gen_words(rng, T, maxlen=9):
    """one argument list"""
    n = rng.choice([0, 1, 1, 2, 2, 3, 3, 4, 5, 6, 7, maxlen])
    words = []
    if rng.random() < 0.6:
        words.append(rng.choice(FILE_WORDS[:8]))
    while len(words) < n:
        r = rng.random()
        if r < 0.22:
            words.append(rng.choice(FILE_WORDS))
            continue
        arm = rng.choice(T['arms'])
        kind, s = rng.choice(arm['tests'])
        if s in ('-hashmap-test', '--help') and rng.random() < 0.8:
            continue
        if kind == 'eq':
            words.append(s)
            if arm['next'] and rng.random() < 0.85:
                words.append(rng.choice(ARG_WORDS + FILE_WORDS))
        else:
            words.append(s + rng.choice(['', 'x', 'foo', '=1', ',a,b', ',', ',,a', '2', ' sp', 'A=1', 'c', 'none', 'assembler']))
        if rng.random() < 0.06:
            words.append(rng.choice(['-zz', '--', '-f', '-foo', '-Wl', '-M1', '-MMDx', '-ccc', '-cc1x', '--help', '-fpicx']))
    rng.shuffle(words) if rng.random() < 0.15 else None
    # options that miss their argument at the END of the list (what f14f730 / 3aee6b1 are about)
    if rng.random() < 0.15:
        arm = rng.choice([a for a in T['arms'] if a['next']])
        words.append(rng.choice([s for k, s in arm['tests'] if k == 'eq']))
    if rng.random() < 0.04:
        words.append(rng.choice(T['take']))
    return [w for w in words if '\n' not in w and '\t' not in w and US not in w]


def boundary_words(T):
    """every exact option alone, at the end after a file, followed by each other option that takes an argument; every prefix bare"""
    out = [[], ['a.c']]
    exact = [s for a in T['arms'] for k, s in a['tests'] if k == 'eq']
    pre = [s for a in T['arms'] for k, s in a['tests'] if k == 'pre']
    taking = [s for a in T['arms'] if a['next'] for k, s in a['tests'] if k == 'eq']
    for s in exact + pre + T['take']:
        out += [[s], ['a.c', s], [s, 'a.c'], ['a.c', s, 'b.c']]
    for s in taking:
        for t in taking + ['-c', '-cc1']:
            out += [['a.c', s, t], ['a.c', s, t, 'x']]
    for p in pre:
        out += [['a.c', p + 'x'], ['a.c', p + ',a,,b'], ['a.c', p + '=']]
    return out


def norm_parse_line(line):
    """canonical comparison form of a `parse` line: the model records the OPERAND of define(), the harness what define_macro got"""
    line = line.strip()
    if not line.startswith('ok '):
        return line
    toks = line.split(' ')
    out = []
    for t in toks:
        if t.startswith('define=['):
            items = [x for x in t[len('define=['):-1].split(',') if x]
            fixed = []
            for it in items:
                if it.startswith('S'):
                    v = dec(it[1:])
                    if '=' not in v:
                        v += '=1'
                    fixed.append('S' + enc(v))
                else:
                    fixed.append(it)
            t = 'define=[' + ','.join(fixed) + ']'
        out.append(t)
    return ' '.join(sorted(out[1:]))


class ArgsHarness:
    def __init__(self, ctx, T, sh, VERIF):
        self.dir = os.path.join(ctx.scratch, 'c14args')
        os.makedirs(self.dir, exist_ok=True)
        hdr = ('#define C14_FLAGS ' + ' '.join(f'X({v})' for v in T['flags']) + '\n#define C14_STRS ' +
               ' '.join(f'X({v})' for v in T['strs']) + '\n#define C14_ARRS ' + ' '.join(f'X({v})' for v in T['arrs']) + '\n')
        open(os.path.join(self.dir, 'c14_vars.h'), 'w').write(hdr)
        snap = ctx.snapshot if getattr(ctx, 'snapshot', None) else os.path.dirname(ctx.cc)
        snap = os.path.dirname(ctx.cc)
        objs = [os.path.join(snap, os.path.basename(c)[:-2] + '.o') for c in sorted(glob.glob(os.path.join(snap, '*.c')))
                if os.path.basename(c) != 'main.c']
        missing = [o for o in objs if not os.path.exists(o)]
        if missing:
            raise RuntimeError('snapshot objects missing: ' + ' '.join(missing))
        self.exe = os.path.join(self.dir, 'c14_args_harness')
        rc, o, e = sh(['gcc', '-O1', '-g', '-fsanitize=address,undefined', '-fno-sanitize-recover=all', '-w', '-I' + snap, '-I' + self.dir,
                       os.path.join(VERIF, 'tools/harness/c14_args_harness.c')] + objs +
                      ['-Wl,--wrap=define_macro', '-Wl,--wrap=undef_macro', '-o', self.exe], timeout=300)
        if rc != 0:
            raise RuntimeError('c14_args_harness does not compile against the snapshot: ' + e[-1500:])
        self.sh = sh

    def run(self, cases):
        text = ''.join(US.join(c) + '\n' for c in cases)
        env = dict(os.environ, ASAN_OPTIONS='detect_leaks=0')
        rc, o, e = self.sh([self.exe], input=text, timeout=1800, env=env, cwd=self.dir)
        lines = o.split('\n')
        if lines and lines[-1] == '':
            lines.pop()
        return lines, e


# ---------------------------------------------------------------------------------------------- (2) argv leg

def find_lib_paths():
    """what main.c find_libpath / find_gcc_libpath compute on this machine"""
    if os.path.exists('/usr/lib/x86_64-linux-gnu/crti.o'):
        lib = '/usr/lib/x86_64-linux-gnu'
    elif os.path.exists('/usr/lib64/crti.o'):
        lib = '/usr/lib64'
    else:
        lib = None
    gcc = None
    for pat in ('/usr/lib/gcc/x86_64-linux-gnu/*/crtbegin.o', '/usr/lib/gcc/x86_64-pc-linux-gnu/*/crtbegin.o',
                '/usr/lib/gcc/x86_64-redhat-linux/*/crtbegin.o'):
        g = sorted(glob.glob(pat))
        if g:
            gcc = os.path.dirname(g[-1])
            break
    return lib, gcc


KIND_EXT = {'c': 'c', 's': 's', 'o': 'o', 'x': 'xyz'}


def gen_spec(rng, thorough):
    """a structured command: what the user means; `words(spec)` spells it"""
    modes = rng.choice([[], [], ['-c'], ['-c'], ['-S'], ['-E'], ['-M'], ['-S', '-c'], ['-c', '-S'], ['-E', '-c'], ['-M', '-c'], ['-E', '-M'],
                        ['-M', '-S']])
    nin = rng.choice([1, 1, 1, 2, 2, 3])
    x = rng.choice([None, None, None, None, 'c', 'assembler', 'none', 'c'])
    kinds = []
    for _ in range(nin):
        kinds.append(rng.choice(['c', 'c', 'c', 's', 'o', 'x'] if x in ('c', 'assembler') else
                                ['c', 'c', 'c', 's', 'o'] + (['x'] if rng.random() < 0.08 else [])))
    if '-E' in modes:
        kinds = ['c' if k in ('s', 'o') else k for k in kinds]      # -E reads every file as C
    if x == 'c':
        kinds = ['c' if k != 'x' else 'x' for k in kinds]           # every file is read as C: give them C text (extension free)
    if x == 'assembler':
        kinds = ['s' if k != 'x' else 'x' for k in kinds]
    inputs = []
    for pos, k in enumerate(kinds):
        name = f'u{pos}.{KIND_EXT[k]}'
        if pos == 0 and rng.random() < 0.25:
            name = 'sub/v.w.' + KIND_EXT[k]
        inputs.append({'name': name, 'kind': k, 'pos': pos})
    spec = {'modes': modes, 'x': x, 'inputs': inputs, 'out': None, 'libs': [], 'ldopts': [], 'misc': [], 'deps': {}}
    m_link = not any(m in modes for m in ('-c', '-S', '-E'))
    if rng.random() < (0.5 if (nin == 1 or m_link) else 0.12):
        spec['out'] = rng.choice(['out.bin', 'out.o', 'o u t', 'out.d', 'dir.d/out.x']) if rng.random() < 0.85 else 'nodir/out'
        spec['out_form'] = rng.choice(['sep', 'sep', 'joined'])
    spec['x_form'] = rng.choice(['sep', 'joined'])
    for _ in range(rng.choice([0, 0, 1, 2]) if (m_link or rng.random() < 0.3) else 0):
        spec['libs'].append(rng.choice(['-lm', '-lc', '-Wl,-z,now', '-Wl,--as-needed', '-Wl,', '-Wl,,-z,,now,', '-lpthread']))
    for _ in range(rng.choice([0, 0, 0, 1, 2])):
        spec['ldopts'].append(rng.choice([['-L', 'ldir'], ['-Lldir2'], ['-Xlinker', '-z'], ['-s'], ['-static'], ['-shared'],
                                          ['-Xlinker', 'now'], ['-L', '']]))
    for _ in range(rng.choice([0, 0, 1, 2, 3])):
        spec['misc'].append(rng.choice([['-DA=1'], ['-D', 'B'], ['-UA'], ['-U', 'B'], ['-I', 'inc'], ['-Iinc2'], ['-include', 'c14_inc.h'],
                                        ['-idirafter', 'after'], ['-O2'], ['-Wall'], ['-g'], ['-std=c11'], ['-fpic'], ['-fPIC'],
                                        ['-fcommon'], ['-fno-common'], ['-w'], ['-m64'], ['-###'], ['-cc1-input', 'zz'], ['-I', '-D']]))
    d = spec['deps']
    if '-M' not in modes and rng.random() < 0.35:
        d['MD'] = rng.choice(['-MD', '-MD', '-MMD'])
    if ('-M' in modes or d.get('MD')) and rng.random() < 0.4:
        d['MF'] = rng.choice(['deps.mk', 'deps.mk', 'sub2/x.d', 'nodir/x.d', '-'])
    if ('-M' in modes or d.get('MD')):
        if rng.random() < 0.4:
            d['MP'] = True
        for _ in range(rng.choice([0, 0, 1, 2])):
            d.setdefault('MT', []).append(rng.choice([['-MT', 'tgt'], ['-MQ', 'a b$c#'], ['-MT', 'x y'], ['-MQ', 'q\\ r']]))
    return spec


def words(spec, rng):
    opts = []
    for m in spec['modes']:
        opts.append([m])
    if spec['out'] is not None:
        opts.append(['-o', spec['out']] if spec['out_form'] == 'sep' else ['-o' + spec['out']])
    if spec['x']:
        opts.append(['-x', spec['x']] if spec['x_form'] == 'sep' else ['-x' + spec['x']])
    opts += spec['ldopts'] + spec['misc']
    d = spec['deps']
    if d.get('MD'):
        opts.append([d['MD']])
    if d.get('MF') is not None:
        opts.append(['-MF', d['MF']])
    if d.get('MP'):
        opts.append(['-MP'])
    opts += d.get('MT', [])
    rng.shuffle(opts)
    # inputs and -l/-Wl, keep their relative order; options are dropped in between
    pos_items = [[i['name']] for i in spec['inputs']]
    libs = [[l] for l in spec['libs']]
    seq = pos_items[:]
    for l in libs:
        seq.insert(rng.randrange(len(seq) + 1), l)
    for o in opts:
        seq.insert(rng.randrange(len(seq) + 1), o)
    return [w for item in seq for w in item]


def effective_kind(spec, inp):
    """independent reading of main.c: which front end the driver sends an input through"""
    if '-E' in spec['modes']:
        return 'c'
    if spec['x'] == 'c':
        return 'c'
    if spec['x'] == 'assembler':
        return 's'
    return inp['kind']


def stem(name):
    b = os.path.basename(name.rstrip('/')) if name.rstrip('/') else name
    return b[:b.rindex('.')] if '.' in b else b


def dep_path(spec, inp):
    d = spec['deps']
    if not ('-M' in spec['modes'] or d.get('MD')):
        return None
    if d.get('MF') is not None:
        return None if d['MF'] == '-' else d['MF']
    if d.get('MD'):
        return stem(spec['out'] if spec['out'] is not None else inp['name']) + '.d'
    return None if spec['out'] in (None, '-') else spec['out']


def n_input_paths(spec):
    return len(spec['inputs']) + len(spec['libs'])


def expected(spec):
    """independent oracle (gcc's rules as the property states them): ('fail', why) or ('ok', {path: class})"""
    modes = spec['modes']
    m = 'E' if '-E' in modes else 'S' if '-S' in modes else 'c' if '-c' in modes else 'link'
    deps_only = '-M' in modes
    if n_input_paths(spec) > 1 and spec['out'] is not None and m != 'link':
        return ('fail', 'multi-o')
    paths = [spec['out'] or ''] + [spec['deps'].get('MF') or '']
    if any(p.startswith('nodir/') or p.startswith('/dev/') for p in paths):
        return ('unknown', 'nodir')      # some child may be unable to write, depending on the mode: no expectation
    dps = {dep_path(spec, i) for i in spec['inputs']} - {None}
    if spec['out'] in dps or 'a.out' in dps or any(stem(i['name']) + e in dps for i in spec['inputs'] for e in ('.s', '.o')):
        return ('unknown', 'the user named one file for two outputs')
    outs = {}
    for inp in spec['inputs']:
        k = effective_kind(spec, inp)
        if k == 'x':
            return ('fail', 'unknown-ext')
        if k == 'c':
            dp = dep_path(spec, inp)
            if dp is not None:
                outs[dp] = 'deps'
        if deps_only:
            continue
        if m == 'E' and k == 'c' and spec['out'] not in (None, '-'):
            outs[spec['out']] = 'pp'
        elif m == 'S' and k == 'c':
            outs[spec['out'] if spec['out'] is not None else stem(inp['name']) + '.s'] = 'asm'
        elif m == 'c' and k in ('c', 's'):
            outs[spec['out'] if spec['out'] is not None else stem(inp['name']) + '.o'] = 'obj'
    if m == 'link' and not deps_only:
        linkable = [i for i in spec['inputs']] + [l for l in spec['libs'] if not (l.startswith('-Wl,') and not [t for t in l[4:].split(',') if t])]
        if linkable:
            outs[spec['out'] if spec['out'] is not None else 'a.out'] = 'exe'
    return ('ok', outs)


GOOD_C = 'int c14_u%d_f(void) { return %d; }\n'
INC_C = '#include "c14_h.h"\n#include <stddef.h>\nint c14_u%d_f(void) { return (int)sizeof(size_t) + c14_h; }\n'


def materialize(H, wd, spec):
    """inputs by EFFECTIVE kind, the headers the sources include, output directories, sentinels on every expected output"""
    files = {}
    use_inc = bool('-M' in spec['modes'] or spec['deps'].get('MD'))
    for inp in spec['inputs']:
        p = os.path.join(wd, inp['name'])
        os.makedirs(os.path.dirname(p), exist_ok=True)
        k = effective_kind(spec, inp)
        tag = inp['pos'] + 1
        if k in ('c', 'x'):
            src = (INC_C % tag) if use_inc else (GOOD_C % (tag, tag))
            if inp['pos'] == 0:
                src += 'int main(void) { return 0; }\n'
            if inp.get('bad') == 'syntax':
                src += 'int c14_bad(void) { return 1 +; }\n'          # passes the preprocessor, fails in parse()
            elif inp.get('bad') == 'codegen':
                src += 'int c14_bad(void) { 1 = 2; return 0; }\n'      # fails in codegen()
            data = src.encode()
            hdr = os.path.join(os.path.dirname(p), 'c14_h.h')
            if not os.path.exists(hdr):
                open(hdr, 'w').write('enum { c14_h = 1 };\n')
        elif k == 's':
            data = H.pool[(inp['pos'], 's')]
        else:
            data = H.pool[(inp['pos'], 'o')]
        open(p, 'wb').write(data)
        files[inp['name']] = tag
    open(os.path.join(wd, 'c14_inc.h'), 'w').write('enum { c14_inc = 2 };\n')
    for dname in ('dir.d', 'sub2', 'inc', 'inc2', 'after', 'ldir', 'ldir2'):
        os.makedirs(os.path.join(wd, dname), exist_ok=True)
    kind, outs = expected(spec)
    sent = []
    if kind == 'ok':
        sent = list(outs)
    for extra in ('a.out',):
        if extra not in sent:
            sent.append(extra)
    j = 0
    for p in sent:
        path = os.path.join(wd, p)
        if os.path.isabs(p) or os.path.exists(path) or not os.path.isdir(os.path.dirname(path) or wd):
            continue
        if j % 2 == 0 or p == 'a.out':         # half of the expected outputs exist before (must be overwritten), half do not
            open(path, 'wb').write(b'SENTINEL c14_u%d_\n' % (11 + j))
            files[p] = 11 + j
        j += 1
    old = 1000000000
    for root, ds, fs in os.walk(wd):
        for fn in fs:
            os.utime(os.path.join(root, fn), (old, old))
    return files


def classify(H, wd, rel, pre, post, name_tags):
    """class and origin tags of a file after the run"""
    data = open(os.path.join(wd, rel), 'rb').read()
    if rel in pre and pre[rel] == post[rel]:
        return 'orig', H.markers(data)
    if data == b'JUNK':
        return 'junk', []
    if len(data) == 0:
        return 'empty', []
    if data[:4] == b'\x7fELF':
        et = int.from_bytes(data[16:18], 'little')
        return ('obj' if et == 1 else 'exe' if et in (2, 3) else 'elf?'), H.markers(data)
    m = re.match(rb'[^\n]*: \\\n  ', data)
    if m:
        # a make rule: the origin tags are those of the prerequisites that are inputs of the run
        names = re.findall(rb'\\\n  ([^\n]*?)(?= \\\n|\n)', data.split(b'\n\n')[0] + b'\n')
        tags = sorted({name_tags[n.decode(errors='replace')] for n in names if n.decode(errors='replace') in name_tags})
        return 'deps', tags
    if b'.globl' in data or b'.file 1' in data or b'.text' in data:
        return 'asm', H.markers(data)
    return 'pp', H.markers(data)


def canon_real(H, case, obs, libpaths):
    """canonical line of a real run in the format of `drv_c14 argv`, and the observed outcomes of the children"""
    pid = str(obs['pid'])
    temps = {}

    def nm(p):
        return temps.get(p, p)
    se = obs['stderr']
    trace, cmds, created = [], [], []
    children = []          # [prog, k, status-string, output path]
    counts = {'cc1': 0, 'as': 0, 'ld': 0}
    last = None
    for w in obs['log']:
        wp, wpp, kind = w[0], w[1], w[2]
        if kind == 'mkstemp' and wp == pid:
            if w[3] == 'FAIL':
                trace.append('mkstemp-failed')
            else:
                temps[w[3]] = f'tmp#{len(temps)}'
                created.append(w[3])
                trace.append(f'mkstemp {enc(temps[w[3]])}')
        elif kind == 'unlink' and wp == pid:
            trace.append(f'unlink {enc(nm(w[3]))}')
        elif kind == 'wait' and wp == pid:
            st = int(w[4])
            sig = st & 0x7f
            s = f'sig:{sig}' if sig else f'exit:{(st >> 8) & 0xff}'
            prog = last[0] if last else '?'
            trace.append(f'wait {prog} {s}')
            if last:
                children.append([prog, counts[prog] - 1, s, last[1]])
        elif kind == 'execvp' and wpp == pid:
            argv = w[3:]
            base = os.path.basename(argv[0]) if argv else ''
            if base == 'as':
                inp = argv[2] if len(argv) > 2 else '?'
                out = argv[4] if len(argv) > 4 else '?'
                trace.append(f'spawn as in={enc(nm(inp))} out={enc(nm(out))}')
                cmds.append(' '.join(enc(nm(a)) for a in argv))
                counts['as'] += 1
                last = ('as', out)
            elif base == 'ld':
                out = argv[2] if len(argv) > 2 and argv[1] == '-o' else '?'
                trace.append(f"spawn ld out={enc(nm(out))}")
                cmds.append(' '.join(enc(nm(a)) for a in argv))
                counts['ld'] += 1
                last = ('ld', out)
            else:
                # the driver re-executes argv[0] for cc1
                # only the words run_cc1 appended count: they come after the driver's own words
                tail = argv[1 + len(case['argv']):]
                inp = tail[2] if len(tail) > 2 and tail[1] == '-cc1-input' else '?'
                out = tail[4] if len(tail) > 4 and tail[3] == '-cc1-output' else None
                trace.append(f"spawn cc1 in={enc(nm(inp))} out={enc(nm(out)) if out is not None else '-'}")
                cmds.append(' '.join(['CC'] + [enc(nm(a)) for a in argv[1:]]))
                counts['cc1'] += 1
                # what a failing cc1 may have left: its -cc1-output, or (-E) the -o file
                last = ('cc1', out if out is not None else case.get('cc1_o'))
    errs = []
    if 'chibicc [ -o <path> ] <file>' in se and obs['rc'] != 0:
        errs.append('error usage')
    if "cannot specify '-o'" in se:
        errs.append('error multi-o')
    if 'unknown file extension' in se:
        errs.append('error unknown-ext')
    if 'no input files' in se:
        errs.append('error no-input')
    if 'unknown argument for -x' in se:
        errs.append('error unknown-x')
    elif 'unknown argument:' in se:
        errs.append('error unknown-arg')
    if errs:
        i = len(trace)
        while i > 0 and trace[i - 1].startswith('unlink '):
            i -= 1
        trace[i:i] = errs[:1]
    trace.append(f"exit {obs['rc']}")
    name_tags = {}
    for n, t in obs['files0'].items():
        name_tags[n] = t
        d = os.path.dirname(n)
    files = []
    for rel in sorted(obs['post']):
        cls, mk = classify(H, obs['wd'], rel, obs['pre'], obs['post'], name_tags)
        if os.path.basename(rel) in ('c14_h.h', 'c14_inc.h'):
            continue
        files.append(f"{enc(rel)}={cls}[{','.join(map(str, mk))}]")
    obs['temps'] = created
    obs['leftover'] = [t for t in created if os.path.lexists(t)]
    for t in obs['leftover']:
        try:
            os.unlink(t)
        except OSError:
            pass
    obs['trace'] = trace
    obs['children'] = children
    obs['cmds'] = cmds
    obs['line'] = f"status={obs['rc']} trace={'|'.join(trace)} files={';'.join(files)} cmds={'|'.join(cmds)}"
    obs['changed'] = sorted(r for r in obs['post'] if obs['pre'].get(r) != obs['post'][r]) + \
        sorted(r for r in obs['pre'] if r not in obs['post'])
    return obs


def observed_faults(H, case, obs):
    """the environment's part of the run, read off the real run: which child ended how, and what a failing one left at its output"""
    out = []
    for prog, k, s, opath in obs['children']:
        if s == 'exit:0':
            continue
        how, num = s.split(':')
        leaves = 'n'
        if opath is not None and opath not in obs['temps'] and not os.path.isabs(opath):
            pre, post = obs['pre'], obs['post']
            if opath in post:
                if pre.get(opath) == post[opath]:
                    leaves = 'n'
                else:
                    data = open(os.path.join(obs['wd'], opath), 'rb').read()
                    leaves = 'w' if data == b'JUNK' else 'c'
            else:
                leaves = 'r' if opath in pre else 'n'
        out.append(f"{prog}:{k}:{'exit' if how == 'exit' else 'sig'}:{num}:{leaves}")
    return out


def model_input(case, obs, libpaths, faults):
    fl = US.join(f'{p}:{t}' for p, t in sorted(obs['files0'].items()))
    mk = case.get('mkfail')
    return '\t'.join(['argv=' + US.join(case['argv']), 'files=' + fl, 'faults=' + (','.join(faults) if faults else '-'),
                      'mkfail=' + ('-' if mk is None else str(mk)), 'lib=' + (libpaths[0] or ''), 'gcclib=' + (libpaths[1] or '')])
