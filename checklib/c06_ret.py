"""C06 - return-value conversion (parse.c `return e;`, codegen.c ND_RETURN / epilogue / the normalisation after `call`, C11 6.8.6.4p3,
psABI 3.2.3 "Returning of Values"): generators and legs.  Used by checklib/C06.py.

Legs (DESIGN 3.3):
  model <-> code   run_tie:  for every (return type, type of the returned expression) pair over the scalar types, pointers,
                   enumerations, arrays and a set of structs/unions (the all-float structs of 12 and 16 bytes among them) the complete
                   text of the body of `T f(void) { return g; }` and of `T f(void) { return h(); }` printed by `chibicc -S` must equal
                   `drv_c06 ret rettext` (Model/C06Ret over the translated return arm of parse.c, ND_RETURN, the switch after `call`).
                   run_dump: the 64 bits of %rax (the low quadword of %xmm0, %st(0)) a chibicc-compiled callee returns with must be
                   what `C06_return_extension` says (`drv_c06 ret retimage`: low 32 bits = the converted value extended; _Bool 0/1).
  spec <-> gcc     run_exec: the value a gcc-compiled caller receives from a gcc-compiled callee must be `Spec.IntSpec.convert`
                   (`drv_c06 args conv`) for every integer pair; run_dump: gcc / clang callees satisfy the psABI minimum (low
                   sizeof bytes), and how many of them extend to 32 bits is recorded; run_stub: gcc / clang callers cope with a callee
                   that leaves garbage above the returned type (assembly stubs) - what "ABI-conforming caller" means.
  code vs spec     run_exec: (return type x expression type x boundary values x expression form: parameter, global, member,
                   dereference x direct call / through a function pointer) with the callee compiled by chibicc / gcc -O0 / gcc -O2 /
                   clang -O2 and the caller by chibicc / gcc -O0 / gcc -O2 / clang: the caller records the value stored, the value used
                   directly (`(long)f(a)`), for _Bool also `!r`, `r ? 7 : 9`, the raw byte, `r + r + r`; everything must equal the
                   gcc -> gcc reference.  run_stub: a chibicc-compiled caller must read only the low sizeof bytes (the bits above are
                   garbage in the stubs).  run_guard: `T f(T *p) { return *p; }` for every struct / union shape of 1..16 bytes with *p in
                   the last bytes of a page followed by an unmapped page: copy_struct_reg must not read outside the object
                   (C06_struct_return_bytes); gcc / clang callees validate the probe.
"""
import os, struct, re
from .framework import *
from . import c06_gen as G
from . import c06_args as A
from .c06_args import (T, BOOL, CHAR, SCHAR, UCHAR, SHORT, USHORT, INT, UINT, LONG, ULONG, ENUM, PTR, FLT, DBL, LDBL, INTS, ARITH,
                       SCALARS, PRE, rng_of, values_for, c_lit, fp_value, defined_conversion, conv_py, rec_param, parse_log)

# ---------------------------------------------------------------- leg: text tie

def float_structs():
    """the all-float return types of /repo 7826748 and their neighbours"""
    S = G.struct_of
    F, D = G.FLT, G.DBL
    return [S(F, F, F), S(F, F, D), S(D, F), S(G.arr(F, 3)), S(F, F, F, F), S(D, D), S(F), S(D), S(F, S(F, F)), S(G.LONG, F), S(F, G.LONG),
            G.union_of(G.arr(F, 3), F)]


def tie_cases(ctx):
    rng = ctx.rng
    S = G.struct_of
    cases = []
    pairs = [(t, e) for t in SCALARS for e in SCALARS if (t.kind == 'ptr') == (e.kind == 'ptr')]
    for t, e in pairs:
        cases.append(dict(form='var', ret=t, expr=e))
    rng.shuffle(pairs)
    for t, e in pairs[:len(pairs) if ctx.thorough else 70]:
        cases.append(dict(form='call', ret=t, expr=e))
    # every narrow return type through a call (the normalisation after `call`, then the cast to the outer type)
    for e in (BOOL, CHAR, SCHAR, UCHAR, SHORT, USHORT):
        for t in (LONG, INT, BOOL, DBL):
            cases.append(dict(form='call', ret=t, expr=e))
    cases.append(dict(form='var', ret=PTR, expr=('arr', 3)))            # an array decays, the cast to the pointer type prints nothing
    aggs = float_structs() + [S(G.LONG, G.DBL), S(G.INT), S(G.arr(G.CHAR, 3)), S(G.LONG, G.LONG), G.union_of(G.LONG, G.DBL),
                              S(G.LONG, G.LONG, G.LONG), S(G.DBL, G.DBL, G.FLT), S(G.arr(G.CHAR, 17)), S(), S(G.CHAR, G.SHORT, G.INT, G.CHAR)]
    for ag in aggs:
        cases.append(dict(form='var', ret=ag, expr=ag))
        if ag.size <= 16:
            cases.append(dict(form='call', ret=ag, expr=ag))
    return cases


def case_short(c):
    r, e = A.ty_short(c['ret']), A.ty_short(c['expr'])
    return f"{r} f(void) {{ return {'g' if c['form'] == 'var' else 'h()'}; }}  with {'g' if c['form'] == 'var' else 'h()'} of type {e}"


def tie_source(cases, k0=0):
    aggs = []
    for c in cases:
        for t in (c['ret'], c['expr']):
            if not isinstance(t, (T, tuple)):
                G.agg_types_of(t, aggs)
    defs = []
    for t in aggs:
        kw = 'union' if t.isunion else 'struct'
        body = ' '.join((f'_Alignas({al}) ' if al else '') + mt.cdecl(n) + ';' for n, mt, _, al in t.members)
        defs.append(f"{kw} {t.tag} {{ {body} }};")
    out = [PRE] + defs
    for i, c in enumerate(cases):
        k = k0 + i
        r = A.ty_decl(c['ret'], '').strip()
        if c['form'] == 'var':
            out.append('extern ' + A.ty_decl(c['expr'], f'g{k}') + ';')
            out.append(f'{r} r{k}(void) {{ return g{k}; }}')
        else:
            out.append(A.ty_decl(c['expr'], '').strip() + f' h{k}(void);')
            out.append(f'{r} r{k}(void) {{ return h{k}(); }}')
    return '\n'.join(out) + '\n'


def tie_request(c, k):
    return f"rettext {c['form']} r{k} {A.ty_tok(c['ret'])} | {A.ty_tok(c['expr'])}"


def normalise_body(lines, k, nprologue):
    out = []
    for l in lines[nprologue:]:
        if re.fullmatch(rf'  (?:lea g{k}\(%rip\)|mov g{k}@GOTPCREL\(%rip\)), %rax', l):
            out.append('@g')
        elif re.fullmatch(rf'  (?:lea h{k}\(%rip\)|mov h{k}@GOTPCREL\(%rip\)), %rax', l):
            out.append('@f')
        else:
            out.append(l)
    return out


def run_tie(ctx, corr):
    d = os.path.join(ctx.scratch, 'rettie')
    os.makedirs(d, exist_ok=True)
    cases = tie_cases(ctx)
    ans = ctx.driver('ret', ''.join(tie_request(c, k) + '\n' for k, c in enumerate(cases))).split('\n')
    B = 60
    for i in range(0, len(cases), B):
        batch = cases[i:i + B]
        open(os.path.join(d, 'tie.c'), 'w').write(tie_source(batch, i))
        rc, o, e = sh([ctx.cc, '-S', '-o', 'tie.s', 'tie.c'], cwd=d, timeout=120)
        if rc != 0:
            corr.disagreements.append({'kind': 'ret-tie', 'what': 'cc1 rejects the generated return statements', 'impl': e[-300:], 'model': 'compiles'})
            continue
        fns = A.functions_of(open(os.path.join(d, 'tie.s')).read())
        for j, c in enumerate(batch):
            k = i + j
            a = ans[k] if k < len(ans) else ''
            corr.evaluations += 1
            corr.count('ret-tie:' + c['form'])
            corr.nontrivial.add('rettie:' + case_short(c))
            if a.startswith('error:') or a.startswith('bad'):
                corr.disagreements.append({'kind': 'ret-tie', 'case': case_short(c), 'model': a, 'impl': 'compiles'})
                continue
            text, _, casts = a.partition(' # ')
            exp = text.split('|') if text else []
            large = (not isinstance(c['ret'], (T, tuple))) and c['ret'].size > 16
            lines = fns.get(f'r{k}', [])
            # the prologue: push, mov, sub, alloca bottom; a function returning more than 16 bytes stores the hidden pointer
            if large and (len(lines) < 5 or lines[4] != '  mov %rdi, -16(%rbp)'):
                corr.disagreements.append({'kind': 'ret-tie', 'case': case_short(c), 'line': 4, 'model': '  mov %rdi, -16(%rbp)',
                                           'impl': lines[4] if len(lines) > 4 else '<end>'})
                continue
            got = normalise_body(lines, k, 5 if large else 4)
            if got != exp:
                jx = next((x for x in range(min(len(got), len(exp))) if got[x] != exp[x]), min(len(got), len(exp)))
                corr.disagreements.append({'kind': 'ret-tie', 'case': case_short(c), 'request': tie_request(c, k), 'line': jx, 'casts': casts,
                                           'model': exp[jx] if jx < len(exp) else '<end>', 'impl': got[jx] if jx < len(got) else '<end>'})
                if len(corr.disagreements) > 5:
                    return


# ---------------------------------------------------------------- leg: execution

FORMS = ['param', 'global', 'member', 'deref']
VIAS = ['direct', 'fptr']

UTIL = A.UTIL
CALLEE_PRE = 'void *memcpy(void *, const void *, unsigned long);\n' + PRE + 'extern int gtarget;\n'
CALLER_PRE = ('void begin(int k); void rec(int id, unsigned long v);\nvoid *memcpy(void *, const void *, unsigned long);\n' + PRE + 'int gtarget;\n')


def tname(t):
    return t.c.replace(' ', '_').replace('*', 'p')


class RetCase:
    """one call of `T q(A a)` whose body returns an expression of type A holding the argument's value"""
    def __init__(self, t, a, v, form, via):
        self.t, self.a, self.v, self.form, self.via = t, a, v, form, via

    def key(self):
        return f'{self.t.c}<-{self.a.c}={self.v}/{self.form}/{self.via}'

    def callee(self):
        return f'q_{tname(self.t)}_{self.a.tok}_{tname(self.a)}_{self.form}'

    def callee_def(self):
        n, t, a = self.callee(), self.t, self.a
        head = f'{t.decl(n + "(" + a.decl("a") + ")")}'
        if self.form == 'param':
            return f'{head} {{ return a; }}'
        if self.form == 'global':
            return f'{a.decl("gv_" + n)};\n{head} {{ gv_{n} = a; return gv_{n}; }}'
        if self.form == 'member':
            return f'{head} {{ struct {{ char pad; {a.decl("m")}; }} s_; s_.m = a; return s_.m; }}'
        if self.form == 'deref':
            return f'{head} {{ {a.decl("*q_")} = &a; return *q_; }}'
        raise KeyError(self.form)

    def proto(self):
        n = self.callee()
        return f'{self.t.decl(n + "(" + self.a.decl("") + ")")};'

    def fptr(self):
        n = self.callee()
        return f'{self.t.decl("(*fp_" + n + ")(" + self.a.decl("") + ")")} = {n};'

    def call(self):
        return ('fp_' if self.via == 'fptr' else '') + self.callee() + '(a_)'

    def body(self):
        """the caller's statements: the value stored, then used directly"""
        t = self.t
        st = f'{self.a.decl("a_")} = {c_lit(self.a, self.v)}; {t.decl("r_")} = {self.call()}; {rec_param(t, "r_")}'
        if t.kind == 'int':
            if t.ity == 'bool':
                st += (f' rec(10, (unsigned long)(int){self.call()}); rec(11, {self.call()} ? 7UL : 9UL); rec(12, (unsigned long)!{self.call()});'
                       f' rec(13, (unsigned long)({self.call()} + 1));')
            else:
                st += f' rec(10, (unsigned long)(long){self.call()}); rec(13, (unsigned long)({self.call()} + 1L));'
        elif t.kind == 'fp':
            st += f' rec(10, (unsigned long)({self.call()} < 1.5));'
        return st

    def snippet(self):
        return f'{self.callee_def()}   /* callee */   {self.body()}   /* caller */'


def exec_cases(ctx):
    rng = ctx.rng
    out = []
    # the battery that must always be there: _Bool and the narrow types from wider / other expression types, non-trivial values
    for a in [CHAR, SCHAR, UCHAR, SHORT, INT, LONG, USHORT, ULONG]:
        vs = values_for(a, rng, 4 if not ctx.thorough else 9,
                        must=[2, 128 if (a.signed is False or a.size > 1) else -128, 256 if rng_of(a)[1] >= 256 else -1, 0])
        for v in vs:
            out.append(RetCase(BOOL, a, v, rng.choice(FORMS), rng.choice(VIAS)))
    for a in [FLT, DBL, LDBL]:
        for v in ['0.0', '-0.0', '0.5', '(0.0/0.0)', '1e-40', '256.75']:
            out.append(RetCase(BOOL, a, v, rng.choice(FORMS), rng.choice(VIAS)))
    for t in [CHAR, SCHAR, UCHAR, SHORT, USHORT]:
        for a in [INT, LONG, UINT, ULONG]:
            for v in values_for(a, rng, 3 if not ctx.thorough else 8, must=[0x80, 0x8000, 0xffff, -129]):
                out.append(RetCase(t, a, v, rng.choice(FORMS), rng.choice(VIAS)))
    pairs = [(t, a) for t in SCALARS for a in SCALARS if (t.kind == 'ptr') == (a.kind == 'ptr') and t is not BOOL]
    nv = 10 if ctx.thorough else 2
    for t, a in pairs:
        forms = FORMS if ctx.thorough else [rng.choice(FORMS)]
        for form in forms:
            for v in values_for(a, rng, nv):
                if defined_conversion(a, v, t):
                    out.append(RetCase(t, a, v, form, rng.choice(VIAS)))
    return out


def exec_sources(cases):
    callees, protos, fptrs = {}, {}, {}
    for c in cases:
        n = c.callee()
        if n not in callees:
            callees[n] = c.callee_def()
            protos[n] = c.proto()
        if c.via == 'fptr' and n not in fptrs:
            fptrs[n] = c.fptr()
    callee = CALLEE_PRE + '\n'.join(callees.values()) + '\n'
    caller = [CALLER_PRE] + list(protos.values()) + list(fptrs.values())
    main = [UTIL]
    for i, c in enumerate(cases):
        caller.append(f'void call{i}(void) {{ begin({i}); {c.body()} }}')
        main.append(f'void call{i}(void);')
    main.append('int main(void) {')
    main += [f'  call{i}(); fflush(stdout);' for i in range(len(cases))]
    main.append('  printf("END\\n"); return 0; }')
    return {'rcallee.c': callee, 'rcaller.c': '\n'.join(caller) + '\n', 'rmain.c': '\n'.join(main) + '\n'}


CALLERS = A.CALLERS
CALLEES = A.CALLEES
COMBOS = A.COMBOS


def run_exec_batch(ctx, cases, d, combos=COMBOS):
    os.makedirs(d, exist_ok=True)
    for n, t in exec_sources(cases).items():
        open(os.path.join(d, n), 'w').write(t)
    sh(['gcc', '-w', '-O1', '-c', 'rmain.c', '-o', 'rmain.o'], cwd=d)
    objs = {}
    for role, table, src in (('caller', CALLERS, 'rcaller.c'), ('callee', CALLEES, 'rcallee.c')):
        for who in sorted({c[0 if role == 'caller' else 1] for c in combos}):
            cmd = [ctx.cc] if table[who] is None else table[who]
            rc, o, e = sh(cmd + ['-c', src, '-o', f'{role}_{who}.o'], cwd=d, timeout=600)
            objs[(role, who)] = (rc, e)
    out = {}
    for (a, b) in combos:
        bad = next((objs[k] for k in (('caller', a), ('callee', b)) if objs[k][0] != 0), None)
        if bad:
            out[(a, b)] = {'error': 'compile: ' + bad[1][-300:]}
            continue
        exe = f'x_{a}_{b}'
        rc, o, e = sh(['gcc', '-o', exe, 'rmain.o', f'caller_{a}.o', f'callee_{b}.o'], cwd=d, timeout=120)
        if rc != 0:
            out[(a, b)] = {'error': 'link: ' + e[-300:]}
            continue
        rc, o, e = sh(['./' + exe], cwd=d, timeout=120)
        log_ = parse_log(o)
        if rc != 0:
            log_['rc'] = rc
        out[(a, b)] = log_
    return out


def spec_expected(ctx, cases):
    req, idx = [], []
    for i, c in enumerate(cases):
        if c.a.kind == 'int' and c.t.kind == 'int':
            req.append(f'conv {c.a.ity} {c.t.ity} {c.v}')
            idx.append(i)
    ans = ctx.driver('args', ''.join(r + '\n' for r in req)).split('\n') if req else []
    return {i: int(a) for i, a in zip(idx, ans) if re.fullmatch(r'-?\d+', a or '')}


def run_exec(ctx, corr, cases=None, report_limit=8):
    d = os.path.join(ctx.scratch, 'retexec')
    cases = cases if cases is not None else exec_cases(ctx)
    res = run_exec_batch(ctx, cases, d)
    ref = res[COMBOS[0]]
    if 'error' in ref:
        raise RuntimeError('return-value reference does not build: ' + ref['error'])
    spec = spec_expected(ctx, cases)
    reported = 0
    for combo in COMBOS[1:]:
        r = res[combo]
        if 'error' in r:
            if 'chibicc' in combo:
                corr.violations.append({'what': f'return values: caller {combo[0]}, callee {combo[1]}: {r["error"]}', 'input': 'generated rcaller.c / rcallee.c',
                                        'expected': 'compiles and links', 'got': r['error'], 'mode': 'retexec'})
            else:
                corr.count('skipped_oracle_build')
    for i, c in enumerate(cases):
        want = ref.get(i)
        if want is None:
            corr.count('skipped_reference_crash')
            continue
        if i in spec:
            corr.evaluations += 1
            corr.count('retconv-spec-vs-gcc')
            v0 = int(want[0].split(' ')[1], 16)
            if v0 != spec[i] % (1 << 64):
                corr.disagreements.append({'kind': 'spec-vs-gcc return conversion', 'case': c.key(), 'spec': spec[i], 'gcc': want[0],
                                           'note': 'Spec.IntSpec.convert does not describe what gcc returns'})
        oracles_ok = all('error' in res[cb] or res[cb].get(i) == want for cb in COMBOS[1:3])
        if not oracles_ok:
            corr.count('skipped_oracles_disagree')
            corr.extra.setdefault('retexec_oracles_disagree', []).append(c.key())
            continue
        corr.nontrivial.add('retexec:' + c.key())
        corr.count('retexec' + (':bool' if c.t is BOOL else ':narrow' if c.t.kind == 'int' and c.t.size < 4 else ':fp' if c.t.kind == 'fp' else ''))
        for combo in COMBOS[3:]:
            r = res[combo]
            if 'error' in r:
                continue
            corr.evaluations += 1
            got = r.get(i)
            if got == want:
                continue
            if reported >= report_limit:
                corr.count('retexec-failures-not-listed')
                continue
            reported += 1
            jx = next((x for x in range(min(len(got or []), len(want))) if got[x] != want[x]), min(len(got or []), len(want)))
            corr.violations.append({
                'what': f'return-value conversion (C11 6.8.6.4p3, psABI): caller compiled by {combo[0]}, callee by {combo[1]}: the caller '
                        f'receives {"nothing (crash)" if got is None else "record " + got[jx] if jx < len(got) else "too few records"}, '
                        f'the reference (gcc -> gcc) record {want[jx] if jx < len(want) else "<end>"}',
                'input': c.snippet(), 'case': {'ret': c.t.c, 'expr': c.a.c, 'value': str(c.v), 'form': c.form, 'via': c.via},
                'combo': list(combo), 'expected': want, 'got': got, 'mode': 'retexec'})
    corr.extra['retexec_cases'] = len(cases)
    return res


def case_from_payload(p):
    byc = {t.c: t for t in SCALARS}
    cs = p['case']
    a = byc[cs['expr']]
    v = cs['value']
    if a.kind == 'int':
        v = int(v)
    return RetCase(byc[cs['ret']], a, v, cs['form'], cs['via'])


# ---------------------------------------------------------------- leg: what the return register holds (callee side)

RD_MAIN = r'''
#include <stdio.h>
struct RD { unsigned long k, rax, xmm0, st0[2]; } rd;
static void rd_print(void) { printf("R %lu %lx %lx %lx %lx\n", rd.k, rd.rax, rd.xmm0, rd.st0[0], rd.st0[1] & 0xffff); }
'''


def fp_isnan(t, bits):
    if t is FLT:
        return (bits & 0x7fffffff) > 0x7f800000
    if t is DBL:
        return (bits & 0x7fffffffffffffff) > 0x7ff0000000000000
    return (bits >> 64) & 0x7fff == 0x7fff and ((bits << 1) & ((1 << 64) - 1)) != 0


def dump_cases(ctx):
    rng = ctx.rng
    out = []
    for t in INTS + [ENUM]:
        for a in INTS:
            for v in values_for(a, rng, 8 if ctx.thorough else 2, must=[2] if t is BOOL else []):
                out.append((t, a, v))
    for a in (FLT, DBL, LDBL):
        for v in ('0.5', '-0.0', '2.0', '(0.0/0.0)'):
            out.append((BOOL, a, v))
        for t in (CHAR, SHORT, UINT, LONG):
            for v in ('-1.5', '100.0', '0.5'):
                if defined_conversion(a, v, t):
                    out.append((t, a, v))
    for t in (FLT, DBL, LDBL):
        for a in (INT, ULONG, UCHAR, FLT, DBL, LDBL):
            for v in values_for(a, rng, 3):
                if defined_conversion(a, v, t):
                    out.append((t, a, v))
    return out


def run_dump(ctx, corr):
    d = os.path.join(ctx.scratch, 'retregs')
    os.makedirs(d, exist_ok=True)
    cases = dump_cases(ctx)
    stubs, defs, main = ['  .text'], [PRE], [RD_MAIN]
    for k, (t, a, v) in enumerate(cases):
        defs.append(f'{a.decl(f"gv{k}")} = {c_lit(a, v)};')
        defs.append(f'{t.decl(f"d{k}(void)")} {{ return gv{k}; }}')
        st0 = '  fstpt rd+24(%rip)\n' if t is LDBL else ''
        stubs.append(f'  .globl callr{k}\ncallr{k}:\n  sub $8, %rsp\n  movq ${k}, rd(%rip)\n  movabs $0x5a5a5a5a5a5a5a5a, %rax\n  movq %rax, %xmm0\n'
                     f'  call d{k}\n  mov %rax, rd+8(%rip)\n  movq %xmm0, rd+16(%rip)\n{st0}  add $8, %rsp\n  ret\n')
        main.append(f'void callr{k}(void);')
    main.append('int main(void) {')
    main += [f'  rd.st0[0] = rd.st0[1] = 0; callr{k}(); rd_print(); fflush(stdout);' for k in range(len(cases))]
    main.append('  printf("END\\n"); return 0; }')
    stubs.append('  .section .note.GNU-stack,"",@progbits')
    open(os.path.join(d, 'rstub.s'), 'w').write('\n'.join(stubs) + '\n')
    open(os.path.join(d, 'rdmain.c'), 'w').write('\n'.join(main) + '\n')
    open(os.path.join(d, 'rdcallee.c'), 'w').write('\n'.join(defs) + '\n')
    sh(['gcc', '-w', '-c', 'rstub.s', '-o', 'rstub.o'], cwd=d)
    sh(['gcc', '-w', '-O1', '-c', 'rdmain.c', '-o', 'rdmain.o'], cwd=d)
    # the model's guarantee for the integer -> integer cases
    req = [f'retimage {a.ity} {t.ity} {v}' for (t, a, v) in cases if t.kind == 'int' and a.kind == 'int']
    ans = iter(ctx.driver('ret', ''.join(r + '\n' for r in req)).split('\n'))
    model = {}
    for k, (t, a, v) in enumerate(cases):
        if t.kind == 'int' and a.kind == 'int':
            w = next(ans).split(' ')
            model[k] = (int(w[0], 16), int(w[1], 16))
    ext32 = {'gcc': 0, 'gccO2': 0, 'clang': 0}
    total = {'gcc': 0, 'gccO2': 0, 'clang': 0}
    rows_by = {}
    for who, cmd in (('gcc', ['gcc', '-w', '-O0']), ('gccO2', ['gcc', '-w', '-O2']), ('clang', ['clang-14', '-w', '-O2']), ('chibicc', [ctx.cc])):
        rc, o, e = sh(cmd + ['-c', 'rdcallee.c', '-o', f'rdcallee_{who}.o'], cwd=d, timeout=300)
        if rc != 0:
            if who == 'chibicc':
                corr.violations.append({'what': 'chibicc rejects the return-register probe', 'input': 'rdcallee.c', 'expected': 'compiles', 'got': e[-300:], 'mode': 'retdump'})
            continue
        sh(['gcc', '-o', f'rd_{who}', 'rdmain.o', 'rstub.o', f'rdcallee_{who}.o'], cwd=d)
        rc, o, e = sh([f'./rd_{who}'], cwd=d, timeout=60)
        rows = {}
        for l in o.split('\n'):
            if l.startswith('R '):
                w = l.split(' ')
                rows[int(w[1])] = [int(x, 16) for x in w[2:]]
        rows_by[who] = rows
    ref = rows_by.get('gcc', {})
    for who, rows in rows_by.items():
        for k, (t, a, v) in enumerate(cases):
            w = rows.get(k)
            corr.evaluations += 1
            corr.count(f'retregs-{who}')
            what0 = f'{t.c} f(void) {{ return g; }} with {a.c} g = {v}'
            if w is None:
                if who == 'chibicc':
                    corr.violations.append({'what': f'return-register probe: call {k} crashed', 'input': what0, 'expected': 'runs', 'got': 'no record', 'mode': 'retdump'})
                continue
            rax, xmm0, st_lo, st_hi = w
            if t.kind == 'fp':
                # oracle: what the gcc -O0 callee returns (NaN: sign / payload unspecified)
                if who == 'gcc' or k not in ref:
                    continue
                r0 = ref[k]
                if t is FLT:
                    got, want = xmm0 & 0xffffffff, r0[1] & 0xffffffff
                elif t is DBL:
                    got, want = xmm0, r0[1]
                else:
                    got, want = (st_hi << 64) | st_lo, (r0[3] << 64) | r0[2]
                if fp_isnan(t, want):
                    want = 'nan'
                    got = 'nan' if fp_isnan(t, got) else got
                if got != want:
                    if who == 'chibicc':
                        corr.nontrivial.add(f'retregs:{t.c}<-{a.c}={v}')
                        corr.violations.append({'what': f'return value not converted to the return type: {what0}: the return register holds {got if isinstance(got, str) else hex(got)}',
                                                'input': what0, 'expected': want if isinstance(want, str) else hex(want), 'got': got if isinstance(got, str) else hex(got), 'mode': 'retdump'})
                    else:
                        corr.count('skipped_oracles_disagree')
                elif who == 'chibicc':
                    corr.nontrivial.add(f'retregs:{t.c}<-{a.c}={v}')
                continue
            # integer-class return type
            if a.kind == 'fp':
                f = fp_value(v)
                if t.ity == 'bool':
                    want = 0 if f == 0 else 1
                else:
                    if a is FLT:
                        f = struct.unpack('<f', struct.pack('<f', f))[0]
                    want = int(f)
            else:
                want = conv_py(t, v)
            low = rax & ((1 << (8 * t.size)) - 1)
            abi_ok = low == want % (1 << (8 * t.size))
            e32 = (rax & 0xffffffff) == want % (1 << 32) if t.size < 8 else rax == want % (1 << 64)
            what = f'{what0}: %rax = {rax:#018x} on return'
            if who != 'chibicc':
                total[who] += 1
                ext32[who] += 1 if e32 else 0
                if not abi_ok:
                    corr.disagreements.append({'kind': f'retregs spec-vs-{who}', 'what': what, 'expected_low_bytes': want % (1 << (8 * t.size)),
                                               'note': 'the expected conversion (or this harness) is wrong'})
                continue
            corr.nontrivial.add(f'retregs:{t.c}<-{a.c}={v}')
            if not abi_ok:
                nrep = sum(1 for v_ in corr.violations if v_.get('mode') == 'retdump')
                if nrep >= 6:
                    corr.count('retregs-failures-not-listed')
                    continue
                corr.violations.append({'what': 'return value not converted to the return type: ' + what, 'input': what0,
                                        'expected': f'low {t.size} byte(s) = {want % (1 << (8 * t.size)):#x}', 'got': f'{low:#x}', 'mode': 'retdump'})
            elif k in model and (rax & model[k][0]) != model[k][1]:
                corr.disagreements.append({'kind': 'retregs model-vs-code', 'what': what,
                                           'model': f'%rax & {model[k][0]:#x} = {model[k][1]:#x} (C06_return_extension)'})
            elif not e32 or (t is BOOL and rax not in (0, 1)):
                corr.disagreements.append({'kind': 'retregs model-vs-code', 'what': what,
                                           'model': 'low 32 bits are the converted value extended; _Bool: the whole register is 0 or 1'})
    corr.extra['callees_extending_narrow_return_values_to_32_bits'] = {w: f'{ext32[w]}/{total[w]}' for w in total}


# ---------------------------------------------------------------- leg: a callee that leaves garbage above the returned type (caller side)

GARBAGE = 0xdeadbeefcafe0000


def stub_cases(ctx):
    rng = ctx.rng
    out = []
    for t in [BOOL, CHAR, SCHAR, UCHAR, SHORT, USHORT, INT, UINT, ENUM]:
        lo, hi = rng_of(t)
        vs = sorted({v for v in A.INT_BOUNDS if lo <= v <= hi})
        if not ctx.thorough:
            must = [v for v in (lo, hi, -1, 1, 0x80, 0x8000) if lo <= v <= hi]
            rest = [v for v in vs if v not in must]
            rng.shuffle(rest)
            vs = must + rest[:2]
        for v in vs:
            out.append((t, v))
    return out


def stub_image(t, v, salt):
    bits = 8 * t.size
    low = v % (1 << bits)
    g = ((GARBAGE * (2 * salt + 3)) | (0xa5a5a5a5a5a5a5a5 << 1)) & ((1 << 64) - 1)
    return (g & ~((1 << bits) - 1)) | low


def run_stub(ctx, corr):
    d = os.path.join(ctx.scratch, 'retstub')
    os.makedirs(d, exist_ok=True)
    cases = stub_cases(ctx)
    stubs, caller, main = ['  .text'], [CALLER_PRE], [UTIL]
    for k, (t, v) in enumerate(cases):
        stubs.append(f'  .globl s{k}\ns{k}:\n  movabs ${stub_image(t, v, k):#x}, %rax\n  ret\n')
        caller.append(f'{t.decl(f"s{k}(void)")};')
        body = f'begin({k}); rec(0, (unsigned long)(long)s{k}()); {t.decl("r_")} = s{k}(); rec(1, (unsigned long)(long)r_); rec(2, (unsigned long)(s{k}() + 1L));'
        if t is BOOL:
            body += f' rec(3, s{k}() ? 7UL : 9UL); rec(4, (unsigned long)!s{k}());'
        else:
            body += f' rec(3, (unsigned long)(s{k}() == {c_lit(t, v)}));'
        caller.append(f'void call{k}(void) {{ {body} }}')
        main.append(f'void call{k}(void);')
    main.append('int main(void) {')
    main += [f'  call{k}(); fflush(stdout);' for k in range(len(cases))]
    main.append('  printf("END\\n"); return 0; }')
    stubs.append('  .section .note.GNU-stack,"",@progbits')
    open(os.path.join(d, 'sstub.s'), 'w').write('\n'.join(stubs) + '\n')
    open(os.path.join(d, 'scaller.c'), 'w').write('\n'.join(caller) + '\n')
    open(os.path.join(d, 'smain.c'), 'w').write('\n'.join(main) + '\n')
    sh(['gcc', '-w', '-c', 'sstub.s', '-o', 'sstub.o'], cwd=d)
    sh(['gcc', '-w', '-O1', '-c', 'smain.c', '-o', 'smain.o'], cwd=d)
    relies = {}
    for who, cmd in (('gcc', ['gcc', '-w', '-O0']), ('gccO2', ['gcc', '-w', '-O2']), ('clang', ['clang-14', '-w', '-O2']), ('chibicc', [ctx.cc])):
        rc, o, e = sh(cmd + ['-c', 'scaller.c', '-o', f'scaller_{who}.o'], cwd=d, timeout=300)
        if rc != 0:
            if who == 'chibicc':
                corr.violations.append({'what': 'chibicc rejects the return-stub probe', 'input': 'scaller.c', 'expected': 'compiles', 'got': e[-300:], 'mode': 'retstub'})
            continue
        sh(['gcc', '-o', f'st_{who}', 'smain.o', 'sstub.o', f'scaller_{who}.o'], cwd=d)
        rc, o, e = sh([f'./st_{who}'], cwd=d, timeout=60)
        got = parse_log(o)
        for k, (t, v) in enumerate(cases):
            corr.evaluations += 1
            corr.count(f'retstub-{who}')
            m64 = (1 << 64) - 1
            want = [f'0 {v & m64:x}', f'1 {v & m64:x}', f'2 {(v + 1) & m64:x}']
            want += [f'3 {7 if v else 9:x}', f'4 {0 if v else 1:x}'] if t is BOOL else ['3 1']
            g = got.get(k)
            if g == want:
                if who == 'chibicc':
                    corr.nontrivial.add(f'retstub:{t.c}={v}')
                continue
            img = stub_image(t, v, k)
            if who != 'chibicc':
                relies.setdefault(who, []).append(f'{t.c}={v}')
                continue
            nrep = sum(1 for v_ in corr.violations if v_.get('mode') == 'retstub')
            if nrep >= 6:
                corr.count('retstub-failures-not-listed')
                continue
            jx = next((x for x in range(min(len(g or []), len(want))) if g[x] != want[x]), min(len(g or []), len(want)))
            corr.violations.append({'what': f'a chibicc-compiled caller reads bits of %rax above the returned type: {t.c} s(void) returns with %rax = {img:#018x} '
                                            f'(value {v}); record {jx}: expected "{want[jx] if jx < len(want) else "<end>"}", got "{g[jx] if g and jx < len(g) else "<none>"}"',
                                    'input': f'{t.c} s(void);  /* assembly: movabs ${img:#x}, %rax; ret */  (long)s(), r = s(), s() + 1L' + (', s() ? 7 : 9, !s()' if t is BOOL else ', s() == v'),
                                    'expected': want, 'got': g, 'mode': 'retstub'})
    # gcc / clang callers that do not cope with garbage above the type would mean the psABI minimum is not what conforming callers rely on
    corr.extra['callers_relying_on_bits_above_the_returned_type'] = {w: relies.get(w, []) for w in ('gcc', 'gccO2', 'clang')}
    if any(relies.values()):
        corr.count('retstub-oracle-relies-on-upper-bits', sum(len(x) for x in relies.values()))


# ---------------------------------------------------------------- leg: struct return reads only the object (guard page)

GUARD_MAIN = r'''
#include <stdio.h>
#include <string.h>
#include <signal.h>
#include <setjmp.h>
#include <sys/mman.h>
static sigjmp_buf jb;
static void on_segv(int s) { siglongjmp(jb, 1); }
static char *page_end(void) {
  static char *end;
  if (!end) {
    char *base = mmap(0, 8192, PROT_READ | PROT_WRITE, MAP_PRIVATE | MAP_ANONYMOUS, -1, 0);
    if (base == MAP_FAILED || mprotect(base + 4096, 4096, PROT_NONE)) { printf("NOGUARD\n"); return 0; }
    end = base + 4096;
  }
  return end;
}
'''


def guard_types(ctx):
    S = G.struct_of
    ts = float_structs() + [S(G.arr(G.CHAR, n)) for n in range(1, 17)] + \
        [S(G.LONG, G.CHAR), S(G.INT, G.INT, G.INT), S(G.LONG, G.FLT), S(G.DBL, G.INT), S(G.arr(G.SHORT, 5)), S(G.LONG, G.arr(G.CHAR, 3)),
         G.union_of(G.arr(G.INT, 3), G.FLT), S(G.FLT, G.INT, G.FLT)]
    return [t for t in ts if 0 < t.size <= 16]


def run_guard(ctx, corr):
    """`T f(T *p) { return *p; }` with *p in the last sizeof(T) bytes of a page followed by an unmapped one: copy_struct_reg must
    not read beyond the object (C06_struct_return_bytes; /repo 7826748 repaired an 8-byte load of the last 4 bytes)"""
    d = os.path.join(ctx.scratch, 'retguard')
    os.makedirs(d, exist_ok=True)
    types = guard_types(ctx)
    aggs = []
    for t in types:
        G.agg_types_of(t, aggs)
    defs = []
    for t in aggs:
        kw = 'union' if t.isunion else 'struct'
        body = ' '.join((f'_Alignas({al}) ' if al else '') + mt.cdecl(n) + ';' for n, mt, _, al in t.members)
        defs.append(f"{kw} {t.tag} {{ {body} }};")
    callee = list(defs)
    main = [GUARD_MAIN] + defs
    body = ['int main(void) {', '  char *end = page_end(); if (!end) return 0;',
            '  struct sigaction sa; memset(&sa, 0, sizeof sa); sa.sa_handler = on_segv; sigaction(SIGSEGV, &sa, 0); sigaction(SIGBUS, &sa, 0);']
    for k, t in enumerate(types):
        cd = t.cdecl('').strip()
        callee.append(f'{cd} gd{k}({cd} *p) {{ return *p; }}')
        main.append(f'{cd} gd{k}({cd} *p);')
        cmp_ = ' || '.join(f'memcmp(&r.{path[1:]}, &p->{path[1:]}, sizeof r.{path[1:]})' for path, lt, off in G.leaves(t)) or '0'
        body.append(f'  {{ {cd} *p = ({cd} *)(end - sizeof({cd})); for (unsigned i = 0; i < sizeof({cd}); i++) ((unsigned char *)p)[i] = (unsigned char)(0x41 + 7 * i + {k});')
        body.append(f'    if (sigsetjmp(jb, 1) == 0) {{ {cd} r = gd{k}(p); printf("G {k} %d\\n", ({cmp_}) ? 1 : 0); }} else printf("G {k} fault\\n"); fflush(stdout); }}')
    body.append('  printf("END\\n"); return 0; }')
    open(os.path.join(d, 'gcallee.c'), 'w').write('\n'.join(callee) + '\n')
    open(os.path.join(d, 'gmain.c'), 'w').write('\n'.join(main + body) + '\n')
    rc, o, e = sh(['gcc', '-w', '-O1', '-c', 'gmain.c', '-o', 'gmain.o'], cwd=d)
    if rc != 0:
        raise RuntimeError('guard-page probe does not compile: ' + e[-300:])
    for who, cmd in (('gcc', ['gcc', '-w', '-O0']), ('clang', ['clang-14', '-w', '-O2']), ('chibicc', [ctx.cc])):
        rc, o, e = sh(cmd + ['-c', 'gcallee.c', '-o', f'gcallee_{who}.o'], cwd=d, timeout=300)
        if rc != 0:
            if who == 'chibicc':
                corr.violations.append({'what': 'chibicc rejects the guard-page probe', 'input': 'gcallee.c', 'expected': 'compiles', 'got': e[-300:], 'mode': 'retguard'})
            continue
        sh(['gcc', '-o', f'g_{who}', 'gmain.o', f'gcallee_{who}.o'], cwd=d)
        rc, o, e = sh([f'./g_{who}'], cwd=d, timeout=60)
        if 'NOGUARD' in o:
            corr.count('skipped_no_guard_page')
            return
        got = {}
        for l in o.split('\n'):
            w = l.split(' ')
            if w[0] == 'G' and len(w) == 3:
                got[int(w[1])] = w[2]
        for k, t in enumerate(types):
            corr.evaluations += 1
            corr.count(f'retguard-{who}')
            r = got.get(k)
            if r == '0':
                if who == 'chibicc':
                    corr.nontrivial.add('retguard:' + t.short())
                continue
            if who != 'chibicc':
                corr.disagreements.append({'kind': f'retguard probe invalid ({who})', 'type': t.short(), 'result': r})
                continue
            corr.violations.append({'what': f'returning {t.short()} by value: ' + ('the callee reads beyond the object (fault on the unmapped page that follows it)' if r == 'fault'
                                                                                   else 'the value does not arrive intact' if r == '1' else f'the probe stopped (exit status {rc})'),
                                    'input': f'{t.short()} f({t.short()} *p) {{ return *p; }}  with *p in the last {t.size} bytes of a page, the next page unmapped',
                                    'expected': 'every member arrives, no access outside the object', 'got': r or 'no record', 'mode': 'retguard'})
