"""C19 - preprocessed output is a faithful program (main.c print_tokens/need_space, tokenize.c tokenize)."""
import os, json, hashlib, itertools
from .framework import *

PROPERTY = 'C19'
GEN_MODULES = ['lexgen', 'pp']
LEAN_TARGETS = ['ChibiVerif.Props.C19', 'ChibiVerif.Findings.C19']
PROPS_FILES = ['ChibiVerif/Props/C19.lean']
NEEDS_HOOKS = False
TRUSTED_BASE = [
    'Lean 4.33.0 kernel; axioms admitted: propext, Classical.choice, Quot.sound (audited per theorem on every run)',
    'hand-written models lean/ChibiVerif/Model/Lex.lean (scanning loop of tokenize()) and Model/PrintTokens.lean (print_tokens); '
    'tied on every run by text equality: chibicc -E on macro-free inputs must print exactly printTokens(lex input), and must '
    'fail with the diagnostic the model predicts',
    'translator tools/extract/lexgen.py: punctuator table kw[] in order, pp-number continuation sets, is_ident1/2 ranges, '
    'is_word_char, ops[], every rule of need_space; it pins the text of the tokenize() branches, the literal readers and '
    'print_tokens and raises ExtractError when they change',
    '<ctype.h> in the C locale (Model/LexChar.lean); code points instead of UTF-8 bytes (well-formed UTF-8, no NUL assumed)',
    'python: generators, the -E / -S pipelines, a small C-standard tokenizer used to read gcc -E -P output (gcc 12 is the '
    'independent lexer)',
]
ASSUMPTIONS = [
    'no token is the lone backslash punctuator (a stray `\\` followed by a newline or by uXXXX is rewritten by the passes '
    'tokenize_file runs before tokenize; such a token never survives into a valid program)',
    'idempotence of a second -E pass is proved only up to print∘lex: the token list has no `#` at the beginning of a line and '
    'no identifier that is a macro at that point (the preprocessor proper is C09/C10\'s model); both are tested on the binary',
    'same-assembly (compile the -E text vs compile the source) is established by execution on test/*.c, chibicc\'s own sources '
    'and generated macro-heavy programs, not by proof (no parser model here)',
]

PREDEFINED = set('''_LP64 __C99_MACRO_WITH_VA_ARGS __ELF__ __LP64__ __SIZEOF_DOUBLE__ __SIZEOF_FLOAT__ __SIZEOF_INT__
__SIZEOF_LONG_DOUBLE__ __SIZEOF_LONG_LONG__ __SIZEOF_LONG__ __SIZEOF_POINTER__ __SIZEOF_PTRDIFF_T__ __SIZEOF_SHORT__
__SIZEOF_SIZE_T__ __SIZE_TYPE__ __STDC_HOSTED__ __STDC_NO_COMPLEX__ __STDC_UTF_16__ __STDC_UTF_32__ __STDC_VERSION__ __STDC__
__USER_LABEL_PREFIX__ __alignof__ __amd64 __amd64__ __chibicc__ __const__ __gnu_linux__ __inline__ __linux __linux__
__signed__ __typeof__ __unix __unix__ __volatile__ __x86_64 __x86_64__ linux unix __DATE__ __TIME__ __FILE__ __LINE__
__COUNTER__ __TIMESTAMP__ __BASE_FILE__ defined __VA_OPT__ __VA_ARGS__ __has_include'''.split())


def enc(s):
    return ' '.join(str(ord(c)) for c in s)


def dec(s):
    return ''.join(chr(int(x)) for x in s.replace(',', ' ').split())


def key(*parts):
    return hashlib.sha1('\x00'.join(parts).encode('utf-8', 'surrogatepass')).hexdigest()


# ------------------------------------------------------------------ the Lean model through drv_c19

class Model:
    def __init__(self, ctx):
        self.ctx = ctx

    def run(self, ops):
        if not ops:
            return []
        out = self.ctx.driver('lex', '\n'.join(ops) + '\n', timeout=1200).splitlines()
        if len(out) != len(ops):
            raise RuntimeError(f'drv_c19: {len(out)} answers for {len(ops)} operations')
        return out

    @staticmethod
    def parse_lex(line):
        """'ok K:b:s:cps|…' -> ('ok', [(kind, bol, sp, text)]) ; 'err name' -> ('err', name)"""
        if line.startswith('err '):
            return ('err', line[4:])
        assert line.startswith('ok'), line
        toks = []
        for t in line[3:].split('|'):
            if not t:
                continue
            k, b, s, cps = t.split(':')
            toks.append((k, b == '1', s == '1', dec(cps)))
        return ('ok', toks)

    def lex(self, texts):
        return [self.parse_lex(l) for l in self.run(['lex ' + enc(t) for t in texts])]

    def relex(self, texts):
        out = []
        for l in self.run(['relex ' + enc(t) for t in texts]):
            out.append(('err', l[4:]) if l.startswith('err ') else ('ok', dec(l[3:])))
        return out

    def print_tokens(self, toklists):
        """toklists: [[(bol, sp, text)]] -> printed texts"""
        ops = ['print ' + ' '.join(f'{int(b)}:{int(s)}:' + ','.join(str(ord(c)) for c in t) for b, s, t in tl) for tl in toklists]
        return [dec(l[3:]) for l in self.run(ops)]

    def selflex(self, texts):
        return [l == 'true' for l in self.run(['selflex ' + enc(t) for t in texts])]

    def run_pass(self, ops):
        if not ops:
            return []
        out = self.ctx.driver('pass', '\n'.join(ops) + '\n', timeout=1200).splitlines()
        if len(out) != len(ops):
            raise RuntimeError(f'drv_c19 pass: {len(out)} answers for {len(ops)} operations')
        return out

    def pass_text(self, items, fuel=1000000):
        """items: [(display name, text)] -> ('ok', -E text of the model) | ('err', 'lex …' | 'pp …')"""
        ops = [f'pass {fuel} ' + ','.join(str(ord(c)) for c in name) + ' ' + enc(text) for name, text in items]
        return [('ok', dec(l[3:])) if l.startswith('ok') else ('err', l[4:]) for l in self.run_pass(ops)]

    def region(self, texts):
        """hypotheses of C19_idempotent on the token list tokenize reads from each text: dict or None (lex error)"""
        out = []
        for l in self.run_pass(['region ' + enc(t) for t in texts]):
            out.append(None if l.startswith('err') else {k: int(v) for k, v in (w.split('=') for w in l.split())})
        return out


# ------------------------------------------------------------------ a small C-standard tokenizer (reads gcc's output)

def _ctok_re(ppnum_tail, digraphs):
    return re.compile(r'''
    (?P<ws>[ \t\n\r\f\v]+)
  | (?P<str>(?:u8|u|U|L)?"(?:\\.|[^"\\\n])*")
  | (?P<chr>(?:u8|u|U|L)?'(?:\\.|[^'\\\n])+')
  | (?P<num>\.?[0-9](?:[eEpP][+-]|''' + ppnum_tail + r''')*)
  | (?P<id>(?:[A-Za-z_$]|[^\x00-\x7f])(?:[A-Za-z0-9_$]|[^\x00-\x7f])*)
  | (?P<punct>''' + digraphs + r'''\.\.\.|<<=|>>=|->|\+\+|--|<<|>>|<=|>=|==|!=|&&|\|\||[-+*/%&|^]=|\#\#|[-\[\](){}.&*+~!/%<>^|?:;=,\#])
  | (?P<other>.)
''', re.X | re.S)


# C11 6.4 as gcc applies it: pp-numbers continue over identifier-nondigits ( _ $ extended characters ), digraphs are tokens
_CTOK_STD = _ctok_re(r'[0-9A-Za-z_.$]|[^\x00-\x7f]', r'%:%:|<:|:>|<%|%>|%:|')
# the same text read with chibicc's token grammar: pp-numbers continue over isalnum and '.', only; no digraphs
_CTOK_CHIBI = _ctok_re(r'[0-9A-Za-z.]', '')


def ctok(text, dialect='std'):
    """pp-token spellings"""
    rx = _CTOK_STD if dialect == 'std' else _CTOK_CHIBI
    return [m.group(0) for m in rx.finditer(text) if m.lastgroup != 'ws']


# ------------------------------------------------------------------ running the implementation

class Impl:
    def __init__(self, ctx):
        self.ctx = ctx
        self.n = 0
        self.dir = os.path.join(ctx.scratch, 'c19')
        os.makedirs(self.dir, exist_ok=True)

    def path(self, suffix):
        self.n += 1
        return os.path.join(self.dir, f't{self.n}{suffix}')

    def write(self, text, suffix='.c'):
        p = self.path(suffix)
        with open(p, 'w', encoding='utf-8', newline='') as f:
            f.write(text)
        return p

    def E(self, path, extra=()):
        """chibicc -E: (rc, output text, stderr)"""
        out = self.path('.i')
        rc, o, e = sh([self.ctx.cc, '-E', '-xc'] + list(extra) + [path, '-o', out], timeout=120, cwd=self.ctx.snapshot)
        txt = ''
        if rc == 0 and os.path.exists(out):
            txt = open(out, encoding='utf-8', errors='surrogateescape', newline='').read()
        return rc, txt, e

    def S(self, path, extra=()):
        out = self.path('.s')
        rc, o, e = sh([self.ctx.cc, '-S', '-xc'] + list(extra) + [path, '-o', out], timeout=300, cwd=self.ctx.snapshot)
        if rc != 0 or not os.path.exists(out):
            return rc or 1, '', e
        lines = [l for l in open(out, errors='replace').read().splitlines()
                 if not re.match(r'\s*\.(loc|file)\b', l)]
        return 0, '\n'.join(lines), e

    def gcc_text(self, text):
        """what gcc -E -P prints for `text` (gcc separates the tokens IT read wherever they would paste), or None"""
        p = self.write(text, '.gi')
        rc, o, e = sh(['gcc', '-E', '-P', '-undef', '-nostdinc', '-xc', '-std=gnu11', '-w', p], timeout=120)
        if rc != 0:
            return None
        # gcc spells extended characters of identifiers as universal character names when it prints them
        return re.sub(r'\\U([0-9a-fA-F]{8})|\\u([0-9a-fA-F]{4})', lambda m: chr(int(m.group(1) or m.group(2), 16)), o)


def gcc_judge(corr, gtext, split, expected_groups):
    """gcc as independent lexer.  gcc's reading must give the expected spellings; where it does not, the same gcc output read
    with chibicc's token grammar (pp-numbers do not continue over _ $ or extended characters; no digraphs) must — then the
    difference is one of token grammar, not of the printer, and is only counted.  Returns {group: got} of real mismatches."""
    std = split(ctok(gtext, 'std'))
    chi = None
    bad = {}
    for k, want in expected_groups.items():
        if std.get(k) == want:
            continue
        if chi is None:
            chi = split(ctok(gtext, 'chibi'))
        if chi.get(k) == want:
            corr.count('gcc-token-grammar-difference')
        else:
            bad[k] = std.get(k)
    return bad


def model_spellings(model, text):
    r = model.lex([text])[0]
    return None if r[0] == 'err' else [t[3] for t in r[1]]


def check_case(ctx, corr, model, impl, source, expect, extra=()):
    """the property on one input: -E output re-lexes (model and gcc) to `expect` (list of spellings, or None = only
    idempotence), and a second -E pass reproduces the first byte for byte.  Returns None or a violation dict."""
    p = impl.write(source)
    rc, out1, err = impl.E(p, extra)
    if rc != 0:
        return {'what': 'chibicc -E rejects the input', 'input': source, 'expected': expect, 'got': err[-300:], 'rejected': True}
    if expect is not None:
        got = model_spellings(model, out1)
        if got != expect:
            return {'what': '-E output does not re-lex (tokenize model) to the token sequence of the expansion',
                    'input': source, 'expected': expect, 'got': got, 'output': out1}
        gt = impl.gcc_text(out1)
        if gt is not None:
            bad = gcc_judge(corr, gt, lambda sp: {0: sp}, {0: expect})
            if bad:
                return {'what': '-E output does not re-lex (gcc as lexer) to the token sequence of the expansion',
                        'input': source, 'expected': expect, 'got': bad[0], 'output': out1}
    p2 = impl.write(out1, '.i.c')
    rc, out2, err = impl.E(p2)
    if rc != 0 or out2 != out1:
        return {'what': 'preprocessing the -E output again changes it', 'input': source, 'expected': out1,
                'got': out2 if rc == 0 else err[-300:]}
    return None


# ------------------------------------------------------------------ (b) adjacent tokens through macro juxtaposition

PUNCT_MULTI = ['<<=', '>>=', '...', '==', '!=', '<=', '>=', '->', '+=', '-=', '*=', '/=', '++', '--', '%=', '&=', '|=', '^=',
               '&&', '||', '<<', '>>', '##']
PUNCT_ONE = list('+-*/%&|^<>=!.:#()[]{},;?~@')
IDENTS = ['a', 'x', 'e', 'E', 'p', 'P', 'L', 'u', 'U', 'u8', 'u8x', '_', '$', '_1', 'eE', 'int', 'é', 'xé']
NUMS = ['1', '12', '1e', '1E', '0x1p', '1.', '.5', '1.e', '0x', '1u', '1e+', '1E-', '0x1p-', '1..', '1.5e+3', '0xe', '.5.', '1P']
STRS = ['"s"', 'u8"s"', 'u"s"', 'U"s"', 'L"s"', '""', '"a\\"b"', '"\\\\"', '"/*"', '"//"']
CHRS = ["'c'", "u'c'", "U'c'", "L'c'", "'\\''", "'\\\\'", "'ab'", "'\"'"]
ALPHABET = PUNCT_MULTI + PUNCT_ONE + IDENTS + NUMS + STRS + CHRS

MARKABLE = re.compile(r'[A-Za-z_][A-Za-z0-9_]*')

TRIPLES = [['.', '.', '.'], ['<', '<', '='], ['>', '>', '='], ['<', '<='], ['-', '-', '>'], ['+', '+', '+'], ['-', '>', '='],
           ['#', '#', '#'], ['1', '.', '5'], ['1e', '+', '5'], ['.', '.', '5'], ['.', '5', '.'], ['%', ':', '%', ':'],
           ['<', ':'], ['<', '%'], ['/', '/', 'x'], ['/', '*', 'x', '*', '/'], ['*', '/'], ['u8', '"s"', '"t"'], ['L', "'c'", 'L'],
           ['u', '8', '"s"'], ['1', 'e', '+', '1'], ['0x1', 'p', '-', '2'], ['a', '1.', 'e', '+', 'b'], ['-', '-', '1'], ['&', '&', '&'],
           ['|', '|='], ['=', '=='], ['!', '='], ['1.', 'x'], ['1e+', '5'], ['1e-', 'x'], ['.5.', 'e'], ['x', '1', 'x'],
           ['"a"', '"b"'], ["'a'", "'b'"], ['"a"', 'L', '"b"']]


def forms_for(tok, idx, position, last):
    """source renderings that put `tok` into the output juxtaposed with its neighbours:
       F  f_(tok)         function-like `#define f_(x) x`      not for ( ) ,
       T  Tn_()           `#define Tn_() tok`                    not for # ##
       O  On_             `#define On_ tok`                      only as the last element; not for ##"""
    fs = []
    if tok not in ('(', ')', ','):
        fs.append(('F', f'f_({tok})'))
    if tok not in ('#', '##'):
        fs.append(('T', f'T{idx}_()'))
    if last and position > 0 and tok != '##':
        fs.append(('O', f'O{idx}_'))
    return fs


class Juxta:
    """builds batches of lines `Zk_ <juxtaposed elements>`; expected output tokens of line k: [Zk_] + toks"""

    def __init__(self, ctx, model, impl, corr):
        self.ctx, self.model, self.impl, self.corr = ctx, model, impl, corr
        self.index = {}

    def tok_index(self, t):
        if t not in self.index:
            self.index[t] = len(self.index)
        return self.index[t]

    def header(self, toks):
        h = ['#define f_(x) x']
        for t in toks:
            i = self.tok_index(t)
            if t not in ('#', '##'):
                h.append(f'#define T{i}_() {t}')
            if t != '##':
                h.append(f'#define O{i}_ {t}')
        return h

    def render(self, toks, rng, prefer=None):
        """prefer: one form letter for all positions, or a string with one letter per position; a form that does not
        apply to a token falls back to one that does"""
        parts = []
        for pos, t in enumerate(toks):
            fs = forms_for(t, self.tok_index(t), pos, pos == len(toks) - 1)
            want = prefer[pos] if prefer and len(prefer) == len(toks) and len(prefer) > 1 else prefer
            if want:
                pf = [f for f in fs if f[0] == want]
                fs = pf or fs
            parts.append(rng.choice(fs)[1])
        return ''.join(parts)

    def run_batch(self, cases, tag):
        """cases: list of (toks, rendered line body).  Returns list of violation dicts (shrunk to single lines)."""
        used = []
        for toks, _ in cases:
            for t in toks:
                if t not in used:
                    used.append(t)
        header = self.header(used)
        lines = [f'Z{k}_ {body}' for k, (_, body) in enumerate(cases)]
        source = '\n'.join(header + lines) + '\n'
        p = self.impl.write(source)
        rc, out1, err = self.impl.E(p)
        if rc != 0:
            if len(cases) == 1:
                return [{'what': 'chibicc -E rejects the input', 'input': source, 'expected': cases[0][0], 'got': err[-300:], 'rejected': True}]
            mid = len(cases) // 2
            return self.run_batch(cases[:mid], tag) + self.run_batch(cases[mid:], tag)
        viol = []
        # model re-lex of the whole output, split at the sentinels
        def split(spell):
            groups, cur = {}, None
            for s in spell:
                m = re.fullmatch(r'Z(\d+)_', s)
                if m:
                    cur = int(m.group(1))
                    groups[cur] = []
                elif cur is not None:
                    groups[cur].append(s)
            return groups
        ms = model_spellings(self.model, out1)
        gt = self.impl.gcc_text(out1)
        mg = split(ms) if ms is not None else {}
        gbad = gcc_judge(self.corr, gt, split, {k: toks for k, (toks, _) in enumerate(cases)}) if gt is not None else {}
        # model of the printer on the known flags: sentinel at_bol, first element has_space, the rest glued
        want_lines = self.model.print_tokens(
            [[(True, False, f'Z{k}_')] + [(False, i == 0, t) for i, t in enumerate(toks)] for k, (toks, _) in enumerate(cases)])
        out_lines = out1.split('\n')
        p2 = self.impl.write(out1, '.i.c')
        rc2, out2, err2 = self.impl.E(p2)
        # third pass with marker macros: every plain identifier X of the batch is defined as [X]; where the REAL tokenizer
        # re-reads an identifier token from the -E text the marker appears, where it fused with a neighbour it does not
        marks = sorted({t for toks, _ in cases for t in toks if MARKABLE.fullmatch(t)})
        rc3, out3, err3 = self.impl.E(p2, extra=[f'-D{m}=[{m}]' for m in marks])
        m3 = split(model_spellings(self.model, out3) or []) if rc3 == 0 else {}
        for k, (toks, body) in enumerate(cases):
            self.corr.evaluations += 1
            self.corr.count(tag)
            single = '\n'.join(self.header(toks) + [f'Z{k}_ {body}']) + '\n'
            if mg.get(k) != toks:
                viol.append({'what': '-E output does not re-lex (tokenize model) to the token sequence of the expansion',
                             'input': single, 'expected': toks, 'got': mg.get(k), 'tokens': toks,
                             'output': out_lines[k] if k < len(out_lines) else None})
            elif k in gbad:
                viol.append({'what': '-E output does not re-lex (gcc as lexer) to the token sequence of the expansion',
                             'input': single, 'expected': toks, 'got': gbad[k], 'tokens': toks,
                             'output': out_lines[k] if k < len(out_lines) else None})
            want3 = [x for t in toks for x in (['[', t, ']'] if t in marks else [t])]
            if mg.get(k) == toks and m3.get(k) != want3:
                viol.append({'what': 'chibicc re-reads other identifier tokens from its -E output than it printed (second pass with '
                                     'every identifier X defined as [X])', 'input': single, 'expected': want3, 'got': m3.get(k), 'tokens': toks,
                             'output': out_lines[k] if k < len(out_lines) else None, 'second_pass_options': [f'-D{m}=[{m}]' for m in marks if m in toks]})
            if k < len(out_lines) and k < len(want_lines) and out_lines[k] + '\n' != want_lines[k]:
                # the flags of expansion results are the preprocessor's business: an extra blank is cosmetic (counted);
                # a blank the model of need_space asks for and chibicc does not print is a disagreement
                verdict = compare_spacing([f'Z{k}_'] + toks, out_lines[k], want_lines[k].rstrip('\n'))
                if verdict == 'extra-blank':
                    self.corr.count('cosmetic-extra-blank')
                else:
                    self.corr.disagreements.append({'kind': 'print_tokens/need_space model vs chibicc -E', 'input': single,
                                                    'impl': out_lines[k], 'model': want_lines[k].rstrip('\n')})
        if rc2 != 0 or out2 != out1:
            # find the lines responsible
            found = False
            for k, (toks, body) in enumerate(cases):
                single = '\n'.join(self.header(toks) + [f'Z{k}_ {body}']) + '\n'
                v = check_case(self.ctx, self.corr, self.model, self.impl, single, None)
                if v:
                    viol.append(v)
                    found = True
                    break
            if not found:
                viol.append({'what': 'preprocessing the -E output again changes it', 'input': source[:2000], 'expected': out1[:2000],
                             'got': (out2 if rc2 == 0 else err2)[:2000]})
        return viol


def spacing(tokens, line):
    """number of blanks before each token of `tokens` in `line`, or None if the line is not those tokens and blanks"""
    out, i = [], 0
    for t in tokens:
        n = 0
        while i < len(line) and line[i] == ' ':
            i += 1
            n += 1
        if not line.startswith(t, i):
            return None
        i += len(t)
        out.append(n)
    return out if i == len(line) else None


def compare_spacing(tokens, impl_line, model_line):
    a, b = spacing(tokens, impl_line), spacing(tokens, model_line)
    if a is None or b is None:
        return 'different'
    return 'extra-blank' if all(x >= y for x, y in zip(a, b)) else 'different'


def fuses(model_results, toks):
    """did gluing the spellings change the token sequence (per the model)?  -> case is non-trivial"""
    return model_results != toks


def pairs_leg(ctx, model, impl, corr):
    rng = ctx.rng
    jx = Juxta(ctx, model, impl, corr)
    bad = [t for t, ok in zip(ALPHABET, model.selflex(ALPHABET)) if not ok]
    if bad:
        corr.disagreements.append({'kind': 'alphabet token is not self-lexing in the model', 'tokens': bad})
        return
    extra_toks = sorted({t for tr in TRIPLES for t in tr})
    bad = [t for t, ok in zip(extra_toks, model.selflex(extra_toks)) if not ok]
    if bad:
        raise RuntimeError(f'C19 generator: chain element is not one token: {bad}')
    cases = []
    for a in ALPHABET:
        for b in ALPHABET:
            toks = [a, b]
            cases.append((toks, jx.render(toks, rng, prefer='F')))
            if ctx.thorough:
                cases.append((toks, jx.render(toks, rng, prefer='T')))
                cases.append((toks, jx.render(toks, rng, prefer='TO')))
                cases.append((toks, jx.render(toks, rng, prefer='FO')))
    for t in TRIPLES:
        for pref in ('F', 'T', None):
            cases.append((t, jx.render(t, rng, prefer=pref)))
    n_rand = 600 if not ctx.thorough else 12000
    for _ in range(n_rand):
        toks = [rng.choice(ALPHABET) for _ in range(rng.randrange(3, 9))]
        cases.append((toks, jx.render(toks, rng)))
    # which cases are non-trivial: the glued text does not lex to the tokens
    glued = model.lex([''.join(t) for t, _ in cases])
    for (toks, body), g in zip(cases, glued):
        if g[0] == 'err' or [x[3] for x in g[1]] != toks:
            corr.nontrivial.add(key('juxta', *toks))
    B = 400
    for i in range(0, len(cases), B):
        for v in jx.run_batch(cases[i:i + B], 'juxtaposed'):
            if v.get('rejected'):
                corr.disagreements.append({'kind': 'generated input rejected by chibicc -E', 'input': v['input'], 'stderr': v['got']})
            else:
                corr.violations.append(v)
            if len(corr.violations) + len(corr.disagreements) >= 5:
                return
    corr.sample({'juxtaposed': cases[7][1], 'tokens': cases[7][0]})
    corr.extra['alphabet_size'] = len(ALPHABET)
    corr.extra['ordered_pairs'] = len(ALPHABET) ** 2


# ------------------------------------------------------------------ (a) tokenize model vs the real tokenizer

ERRMSG = {'unclosed-comment': 'unclosed block comment', 'unclosed-string': 'unclosed string literal',
          'unclosed-char': 'unclosed char literal', 'bad-hex-escape': 'invalid hex escape sequence',
          'invalid-token': 'invalid token'}

TIE_TOKENS = ALPHABET + ['\\', '`', 'while', 'x1', '0', '9.', '..', '"\\x41"', '"\\1234"', '"\\e"', "'\\x41'", "'\\101'", "'a b'",
                         "'/*'", '"a b"', '/', '*', '0b1', 'e+', 'p-', '1e+1', '$$', 'u8', 'LL', '"é"', "'é'", 'L"é"']
TIE_SEPS = ['', '', '', ' ', ' ', '  ', '\t', '\n', '\n', ' \n ', '\f', '\v', '/* c */', '/* a\nb */', '/**/', '// c\n', '//\n', '/*/ */']
TIE_BAD_TAILS = ['"abc', '"abc\\', "'a", "'", "'\\", '"\\xg"', "'\\xg'", '"\\x"', '/* open', '/*/', '\x01', '\x7f', '×', '　',
                 'u8"abc', "L'", 'u"\\xz"', '"a\nb"']


def gen_tie_text(rng):
    n = rng.randrange(1, 40)
    out = []
    at_line_start = True
    for _ in range(n):
        t = rng.choice(TIE_TOKENS)
        if at_line_start and t.startswith('#'):
            t = 'a'
        sep = rng.choice(TIE_SEPS)
        if t.endswith('\\') and (sep.startswith('\n') or sep == ''):
            sep = ' '
        out.append(t)
        out.append(sep)
        if '\n' in sep and not sep.startswith('/*'):
            at_line_start = True
        elif sep.endswith('\n'):
            at_line_start = True
        else:
            at_line_start = False
    text = ''.join(out)
    if rng.random() < 0.25:
        text += ' ' + rng.choice(TIE_BAD_TAILS)
    if not text.endswith('\n'):
        text += '\n'          # read_file appends the newline anyway
    return text


def tie_text_ok(text):
    """outside what the tie may feed: directives, macro names, splices, universal character names, CR"""
    if re.search(r'\\[uU]', text) or '\\\n' in text or '\r' in text:
        return False
    # a `#` that is the first non-white, non-comment thing on a line would be a directive: decide on the comment-free text
    t = re.sub(r'/\*.*?\*/', ' ', text, flags=re.S)
    if re.search(r'(^|\n)[ \t\f\v]*#', t):
        return False
    for w in re.findall(r'[A-Za-z_$\u0080-￿][A-Za-z0-9_$\u0080-￿]*', text):
        if w in PREDEFINED or w.startswith('__'):
            return False
    return True


def tie_leg(ctx, model, impl, corr):
    rng = ctx.rng
    n = 400 if not ctx.thorough else 6000
    texts = []
    fixed = ['a+++b\n', 'x = 1.5e+3-2;\n', '  lead\n', 'a /* c */ b // d\n  e\n', '.5 . 5 ... .. .\n', 'u8"s"u8 "s" u 8"s"\n',
             "L'a'L 'a' ''' '\n", '1e+1e+.e+ 0x1p-3p-\n', 'a\tb\fc\vd\n\n\n  e\n', '<<=>>=...==!=<=>=->+=-=*=/=++--%=&=|=^=&&||<<>>##\n',
             '"\\\n', '// only a comment\n', '/* only */\n', '\n', 'été = "é"\n', 'a # b ## c\n', 'a @ b ` c \\ d\n']
    texts += fixed
    while len(texts) < n:
        t = gen_tie_text(rng)
        if tie_text_ok(t):
            texts.append(t)
        else:
            corr.count('tie-skipped-directive-or-macro-name')
    res = model.relex(texts)
    for text, r in zip(texts, res):
        corr.evaluations += 1
        p = impl.write(text)
        rc, out, err = impl.E(p)
        if r[0] == 'ok':
            corr.count('tie-ok')
            if '/*' in text or '//' in text or len(text) > 60:
                corr.nontrivial.add(key('tie', text))
            if rc != 0 or out != r[1]:
                corr.disagreements.append({'kind': 'tokenize/print_tokens model vs chibicc -E (macro-free text)', 'input': text,
                                           'impl': out if rc == 0 else 'error: ' + err[-200:], 'model': r[1]})
        else:
            corr.count('tie-err-' + r[1])
            corr.nontrivial.add(key('tie', text))
            want = ERRMSG.get(r[1])
            if rc == 0 or want is None or want not in err:
                corr.disagreements.append({'kind': 'tokenize model vs chibicc -E (diagnostic)', 'input': text,
                                           'impl': out if rc == 0 else err[-200:], 'model': 'error ' + r[1]})
        if len(corr.disagreements) >= 5:
            return
    corr.sample({'tie_text': texts[len(fixed)][:120], 'model_print': res[len(fixed)][1][:120]})


# ------------------------------------------------------------------ (c)+(d) whole programs

def gen_program(rng, idx):
    """a valid C program whose expressions are written through macros that put operator, number and identifier tokens next
    to each other without white space"""
    hdr = ['#define ID(x) x', '#define N -1', '#define P +1', '#define PLUS +', '#define MINUS -', '#define STAR *', '#define AMP &',
           '#define EMPTY', '#define NEG(x) -x', '#define CAT(a,b) a##b', '#define STR(x) #x', '#define XSTR(x) STR(x)',
           '#define DOT .', '#define HEX 0x1e', '#define ONE 1', '#define SLASH /', '#define LT <', '#define APPLY(m, x) m(x)',
           '#define DEC(x) ID(-)ID(-)x', '#define TWICE(x) x x']
    atoms = ['a', 'b', 'c', '7', '0x1e', '1', '*q', 's.x', 'N', 'P', 'HEX', 'ONE', 'NEG(a)', 'CAT(a,)', 'CAT(,b)', 'CAT(1,2)', 'CAT(0x,1e)',
             '(a)', 'sizeof XSTR(a- -b)', 'sizeof STR(-N)', 'ID(1)', 'ID(s)DOT ID(x)', 'ID(s)ID(.)x', 'DEC(1)', '1.5 ID(>)ID(1)',
             "ID('a')", '(1e1 ID(>)1)', '(0x1e ID(+)1)', '(0x1p1 ID(>)1)', '(1. ID(>)0)']
    unary = ['-', '+', '~', '!', 'MINUS ', 'PLUS ', 'ID(-)', 'ID(+)', 'ID(~)', 'ID(!)', '- ', 'ID(-)ID(-)', 'ID(+)ID(+)', 'ID(-)ID(+)ID(-)', '-ID(-)', 'MINUS -', 'ID(-)MINUS ']
    binary = ['+', '-', '*', '&', '|', '^', '<', '>', '<=', '>=', '==', '!=', '<<', '>>', '&&', '||']

    def glue(x, y):
        """concatenate two pieces of SOURCE text; a blank only where the source itself would otherwise mean something else
        (two word characters, or two operator characters, meeting)"""
        if not x or not y:
            return x + y
        wx = x[-1].isalnum() or x[-1] in '_$.'
        wy = y[0].isalnum() or y[0] in '_$.'
        if (wx and wy) or (x[-1] in '+-&*<>=|/!~^%' and y[0] in '+-&*=<>|/!~^%'):
            return x + ' ' + y
        return x + y

    def wrap_op(op):
        r = rng.random()
        if r < 0.25:
            return f' {op} '
        if r < 0.7:
            return f'ID({op})'
        if r < 0.8 and op in ('+', '-', '*', '&', '<'):
            return {'+': 'PLUS', '-': 'MINUS', '*': 'STAR', '&': 'AMP', '<': 'LT'}[op] + ' '
        if r < 0.9 and len(op) == 2 and op not in ('&&', '||', '<<', '>>'):
            return f'CAT({op[0]},{op[1]})'
        return f' ID({op}) '

    def operand(depth):
        u = ''
        for _ in range(rng.choice([0, 0, 1, 1, 2])):
            u = glue(u, rng.choice(unary))
        a = rng.choice(atoms) if depth <= 0 or rng.random() < 0.6 else '(' + expr(depth - 1) + ')'
        if rng.random() < 0.5:
            a = f'ID({a})'
        return glue(u, a)

    def expr(depth):
        e = operand(depth)
        for _ in range(rng.randrange(0, 4)):
            e = glue(glue(e, wrap_op(rng.choice(binary))), operand(depth))
        return e

    body = []
    for k in range(rng.randrange(4, 14)):
        body.append(f'  r += {expr(2)};')
    extra = ['  r += a SLASH STAR q;', '  r += a ID(/)ID(*)q;', '  r += ID(a)ID(-)ID(-)ID(b);', '  r += a ID(-)N;', '  r -=-N;', '  r += -N;',
             '  r += sizeof(STR(a+ +b));', '  r += sizeof(XSTR(N P HEX));', '  r += ID(a)ID(+)ID(+)ID(+)ID(b);', '  r += a CAT(<,<) 1;', '  r += (ID(0x1e)ID(+)ID(1));', '  r += (ID(1e1)ID(-)ID(1)) > 0;',
             '  r += ID(a)ID(<)ID(-)ID(1);', '  r += a ID(&)ID(~)b;',
             '  r += TWICE(-)a;', '  r += TWICE(+)1;', '  r += sizeof ID("a")ID("b");', '  r += sizeof ID(u8"a")"b";', '  if (ID(a)CAT(>,=)ID(b)) r++;',
             '  r += APPLY(NEG, N);', '  r += EMPTY a EMPTY+EMPTY+EMPTY b;', '  r += ID(1)ID(+)ID(1);', '  r += ID(HEX)ID(+)ID(1);', '  r += ID(s)ID(.)ID(x);']
    rng.shuffle(extra)
    body += extra[:rng.randrange(3, len(extra))]
    src = '\n'.join(hdr) + f'''
struct S {{ int x; }};
long g{idx}(int a, int b, int c, int *q, struct S s) {{
  long r = 0;
''' + '\n'.join(body) + '''
  return r;
}
'''
    return src


def whole_leg(ctx, model, impl, corr):
    rng = ctx.rng
    snap = ctx.snapshot
    files = []
    tdir = os.path.join(snap, 'test')
    for fn in sorted(os.listdir(tdir)):
        if fn.endswith('.c'):
            files.append(('test/' + fn, ['-Iinclude', '-Itest'], 'test/' + fn))       # as the Makefile does, from the tree's root
    for fn in sorted(os.listdir(snap)):
        if fn.endswith('.c'):
            files.append((fn, [], fn))
    ngen = 40 if not ctx.thorough else 600
    for i in range(ngen):
        p = impl.write(gen_program(rng, i), f'.gen{i}.c')
        files.append((p, [], f'generated#{i}'))
    skipped = []
    for path, inc, name in files:
        src = open(os.path.join(snap, path), encoding='utf-8', errors='surrogateescape').read()
        timey = bool(re.search(r'__TIME__|__DATE__', src))
        for attempt in range(4):
            rc0, s_a, e0 = impl.S(path, inc)
            rc, out1, err = impl.E(path, inc)
            rc1, s_b, e1 = impl.S(path, inc)
            if not timey or s_a == s_b:
                break
        if rc0 != 0 or rc != 0:
            if name.startswith('generated'):
                corr.count('generated-program-rejected')
                corr.extra.setdefault('rejected_generated', []).append((err or e0)[-160:])
                continue
            skipped.append(f'{name}: does not compile/preprocess with the snapshot ({(err or e0)[-80:]!r})')
            continue
        corr.evaluations += 1
        corr.count('whole-program')
        if name.startswith('generated') or 'macro' in name or '#define' in src:
            corr.nontrivial.add(key('whole', name if not name.startswith('generated') else src))
        pi = impl.write(out1, '.i.c')
        rc2, s2, e2 = impl.S(pi)
        if rc2 != 0 or s2 != s_a:
            v = {'what': 'compiling the -E output does not give the assembly of the source (after deleting .loc/.file)',
                 'input': name if not name.startswith('generated') else src, 'expected': 'identical assembly',
                 'got': ('cc1 error: ' + e2[-300:]) if rc2 != 0 else first_diff(s_a, s2)}
            corr.violations.append(v)
            return
        rc3, out2, e3 = impl.E(pi)
        if rc3 != 0 or out2 != out1:
            corr.violations.append({'what': 'preprocessing the -E output again changes it',
                                    'input': name if not name.startswith('generated') else src,
                                    'expected': 'byte-identical second pass', 'got': e3[-300:] if rc3 != 0 else first_diff(out1, out2)})
            return
        # model: print (lex output) = output, and gcc reads the same spellings
        r = model.relex([out1])[0]
        if r[0] != 'ok' or r[1] != out1:
            corr.disagreements.append({'kind': 'tokenize/print_tokens model on -E output', 'input': name,
                                       'model': (r[1] if r[0] == 'err' else first_diff(out1, r[1]))})
            return
        ms = model_spellings(model, out1)
        gt = impl.gcc_text(out1)
        if gt is not None and '\\' not in [t for t in ms if len(t) == 1]:
            bad = gcc_judge(corr, gt, lambda sp: {0: sp}, {0: ms})
            if bad:
                gs = bad[0]
                i = next((i for i, (x, y) in enumerate(zip(ms, gs)) if x != y), min(len(ms), len(gs)))
                corr.violations.append({'what': 'gcc reads a different token sequence from the -E output than chibicc\'s tokenizer',
                                        'input': name if not name.startswith('generated') else src,
                                        'expected': ms[max(0, i - 3):i + 4], 'got': gs[max(0, i - 3):i + 4]})
                return
        else:
            corr.count('gcc-lexer-leg-skipped')
    corr.extra['whole_program_skipped'] = skipped
    corr.sample({'whole_programs': len(files), 'generated_sample': gen_program(random.Random(1), 0).splitlines()[24:28]})


def first_diff(a, b):
    la, lb = a.splitlines(), b.splitlines()
    for i, (x, y) in enumerate(zip(la, lb)):
        if x != y:
            return {'line': i + 1, 'first': x[:200], 'second': y[:200]}
    return {'line': min(len(la), len(lb)) + 1, 'first': '<end>' if len(la) <= len(lb) else la[len(lb)][:200],
            'second': '<end>' if len(lb) <= len(la) else lb[len(la)][:200]}


# ------------------------------------------------------------------ (e) the second pass: model of preprocess2 vs chibicc -E, twice

KNOWN_NAME = 'C19-second-pass-initial-macro-name'
KNOWN_HASH = 'C19-second-pass-hash-at-bol'
KNOWN_WITNESSES = [
    (KNOWN_NAME, '#undef linux\nint linux = 1;\n'),
    (KNOWN_NAME, '#define linux linux\nint linux;\n'),
    (KNOWN_NAME, '#define unix() 0\nint unix;\n'),
    (KNOWN_NAME, '#define unsigned __SIZE_TYPE__\n__SIZE_TYPE__ x;\n'),
    (KNOWN_HASH, '#define H #\nH define X 1\nX\n'),
    (KNOWN_HASH, '#define E\nE # pragma p\na\n'),
]

SP_PREDEF = ['linux', 'unix', '__linux__', '__x86_64__', '__STDC__', '__STDC_VERSION__', '__SIZE_TYPE__', '__USER_LABEL_PREFIX__',
             '__alignof__', '__chibicc__', '_LP64', '__LINE__', '__COUNTER__', '__FILE__', '__BASE_FILE__']
SP_WORDS = ['a', 'b', 'x1', 'int', 'e', 'L', 'u8', '_', 'define', 'undef', 'pragma', 'once_', 'linux_', '__LINE', 'xlinux', 'Q_', 'é']
SP_NUMS = ['0', '1', '12', '1.5', '1e', '1e+', '0x1p-', '.5', '1.', '0xe']
SP_STRS = ['"linux"', '"#"', '"a b"', "'c'", "'#'", 'u8"s"', 'L"__LINE__"', '""']
SP_PUNCT = ['+', '-', '++', '--', '->', '<<=', '...', '.', '&', '&&', '=', '==', '!', '<', '>', '%', ':', '?', ';', ',', '(', ')', '[', ']',
            '{', '}', '~', '^', '|', '/', '*', '#', '##']


def gen_second_pass_source(rng):
    """a translation unit (not a program) of directives Model/PP models — #define/#undef/#pragma and the null directive — and text
    lines; no empty line, no comment, no splice (the model derives line numbers from at_bol).  Shapes aimed at the second
    pass: names of the initial table that survive the first pass (#undef, self-referential or function-like redefinition),
    `#` produced by expansion at a line start, painted user macros, function-like names without `(`, the built-in handlers."""
    lines = ['#define f_(x) x', '#define g_(x, y) x y', '#define CAT_(a, b) a##b', '#define STR_(x) #x', '#define XSTR_(x) STR_(x)',
             '#define E_', '#define N_ -1', '#define SELF_ SELF_', '#define PING_ PONG_ +', '#define PONG_ PING_ -',
             '#define REC_(x) (x REC_(x))', '#define VA_(x, ...) x __VA_ARGS__', '#define T_() 1.']
    risky = rng.random() < 0.35          # `#` from an expansion at a line start
    names = rng.random() < 0.45          # names of the initial table that survive the first pass
    if risky:
        lines.append('#define H_ #')
    if names:
        if rng.random() < 0.3:
            lines.append(rng.choice(['#define unsigned __SIZE_TYPE__', '#define _Alignof __alignof__ x', '#define typeof(x) __typeof__']))
        for _ in range(rng.randrange(1, 3)):
            n = rng.choice(SP_PREDEF)
            lines.append(rng.choice([f'#undef {n}', f'#define {n} {n}', f'#define {n}() 0', f'#define {n}(x) x {n}', f'#define {n} 7',
                                     f'#define {n} ({n} + 1)']))
    atoms = SP_WORDS + SP_NUMS + SP_STRS + SP_PUNCT + SP_PREDEF + [
        'f_', 'f_(a)', 'f_(-)f_(-)', 'f_(1)f_(2)', 'f_(.)f_(.)', 'f_(L)"s"', 'f_ (a)', 'g_(a, b)', 'g_(-,-)', 'g_(,)', 'CAT_(a, b)', 'CAT_(1, 2)',
        'CAT_(li, nux)', 'CAT_(__LI, NE__)', 'CAT_(-, -)', 'CAT_(, a)', 'STR_(a  b)', 'STR_(linux)', 'XSTR_(linux)', 'XSTR_(N_)', 'E_', 'N_', '-N_',
        'SELF_', 'PING_', 'PONG_', 'REC_(a)', 'REC_', 'VA_(a)', 'VA_(a, b, c)', 'T_()x', 'T_', 'f_(linux)', 'f_(__LINE__)', 'f_(f_)(a)',
        'f_(SELF_)', 'g_(SELF_, PING_)', 'E_ E_', 'f_(E_)', 'f_(#)', 'f_(##)']
    if risky:
        atoms += ['H_', 'H_ define Q_ 1', 'H_ undef a', 'H_ pragma p', 'H_ define linux 2', 'f_(H_)'] * 2
    for _ in range(rng.randrange(2, 9)):
        r = rng.random()
        if r < 0.12:
            lines.append(rng.choice(['#define Q_ 5', '#undef Q_', '#pragma p q', '#', '#undef f_', '#define W_(x) [x]', '# define R_ r',
                                     '#define SELF_ again SELF_']))
            continue
        toks = [rng.choice(atoms) for _ in range(rng.randrange(1, 7))]
        if toks[0].startswith('#') or (risky and rng.random() < 0.3):
            toks.insert(0, rng.choice(['H_', 'H_ define Q_ 1', 'H_ pragma p', 'E_ #', 'f_(#)']) if risky else 'E_')
        line = ''
        for t in toks:
            sep = rng.choice(['', ' ', ' ', '  '])
            if line and sep == '' and (line[-1].isalnum() or line[-1] in '_$"\'') and (t[0].isalnum() or t[0] in '_$"\''):
                sep = ' '
            line += sep + t
        lines.append(rng.choice(['', '', ' ', '\t']) + line.lstrip())
    return '\n'.join(lines) + '\n'


def sp_model_applies(text):
    """texts the model's line numbering and ASCII `paste` cover: no empty line, no comment, no splice"""
    return '\n\n' not in text and not text.startswith('\n') and '/*' not in text and '//' not in text and '\\\n' not in text


def second_pass_leg(ctx, model, impl, corr):
    rng = ctx.rng
    known = {f['id'] for f in load_known().get('findings', []) if f.get('property') == PROPERTY}
    n = 300 if not ctx.thorough else 6000
    sources = [w for _, w in KNOWN_WITNESSES]
    sources += ['#define foo foo\nfoo\n', '#define f(x) x\nf\nf (1)\n', '#define f(x) x\n#define g f\ng(1) g\n(2)\n',
                '#define L __LINE__\n#define E\nE L\nL __FILE__ __COUNTER__ __COUNTER__\n', '#undef __LINE__\nint __LINE__;\n',
                '#define C2(a,b) a##b\n#define C(a,b) C2(a,b)\nC(__LI,NE__) C(li,nux) C(__COUN,TER__)\n',
                '#define S(x) #x\nS(a)   _Pragma("once") x\n', '#define E\n E # define X 1\nX\n', '#define H #\nH\nH\na\n',
                '#define H #\nH error\n', '#define H #\nH include "nonexistent.h"\n', '#define H #\n#define f(x) x\nf(H) define X 1\nX\n']
    nfixed = len(sources)
    while len(sources) < n:
        sources.append(gen_second_pass_source(rng))
    paths = [impl.write(src) for src in sources]
    # first pass: the binary, and the model on the same text with the same display name
    first = [impl.E(p) for p in paths]
    m1 = model.pass_text([(p, src) for p, src in zip(paths, sources)])
    seconds = []          # (index, path of the -E text, -E text)
    for i, (src, (rc, out1, err), m) in enumerate(zip(sources, first, m1)):
        corr.evaluations += 1
        if m[0] == 'err' and m[1] in ('pp unsupportedDirective', 'pp fuel'):
            corr.count('second-pass:first-pass-outside-model(' + m[1] + ')')
        elif m[0] == 'err':
            corr.count('second-pass:first-pass-diagnostic')
            if rc == 0:
                corr.disagreements.append({'kind': 'model of a whole -E run (tokenize, preprocess2, print_tokens) vs chibicc -E: the model '
                                                   'stops with a diagnostic, chibicc does not', 'input': src, 'model': m[1], 'impl': out1})
        elif rc != 0 or out1 != m[1]:
            corr.disagreements.append({'kind': 'model of a whole -E run (tokenize, preprocess2, print_tokens) vs chibicc -E (first pass)',
                                       'input': src, 'model': m[1], 'impl': out1 if rc == 0 else 'error: ' + err[-200:]})
        else:
            corr.count('second-pass:first-pass-agrees')
        if len(corr.disagreements) >= 5:
            return
        if rc == 0:
            seconds.append((i, impl.write(out1, '.i.c'), out1))
    # second pass on what the BINARY printed
    regs = model.region([t for _, _, t in seconds])
    m2 = model.pass_text([(p, t) for _, p, t in seconds])
    for (i, p2, out1), reg, m in zip(seconds, regs, m2):
        src = sources[i]
        corr.evaluations += 1
        rc2, out2, err2 = impl.E(p2)
        applies = sp_model_applies(out1)
        if not applies:
            corr.count('second-pass:text-outside-model-line-numbering')
        elif m[0] == 'err' and m[1] in ('pp unsupportedDirective', 'pp fuel'):
            corr.count('second-pass:second-pass-outside-model(' + m[1] + ')')
        elif m[0] == 'err':
            if rc2 == 0:
                corr.disagreements.append({'kind': 'model of the second -E pass vs chibicc -E: the model stops with a diagnostic, chibicc '
                                                   'does not', 'input': src, 'first_pass_output': out1, 'model': m[1], 'impl': out2})
        elif rc2 != 0 or out2 != m[1]:
            corr.disagreements.append({'kind': 'model of the second -E pass (tokenize, preprocess2 from init_macros, print_tokens) vs chibicc -E',
                                       'input': src, 'first_pass_output': out1, 'model': m[1], 'impl': out2 if rc2 == 0 else 'error: ' + err2[-200:]})
        if len(corr.disagreements) >= 5:
            return
        # a first token without at_bol (the file starts with a macro that expands to nothing) is printed after a blank; the
        # re-read token has at_bol: C19_idempotent_leading_blank — same tokens, the text loses that blank, nothing else
        want2 = out1
        if out1.startswith(' '):
            want2 = out1[1:]
            corr.count('second-pass:cosmetic-leading-blank-dropped')
        changed = rc2 != 0 or out2 != want2
        if reg is None:
            corr.disagreements.append({'kind': 'tokenize model rejects a text chibicc -E printed', 'input': src, 'impl': out1})
            return
        if reg['inert'] and reg['valid']:
            # the region of C19_idempotent: the theorem says the second pass is the identity
            corr.count('second-pass:inert')
            if re.search(r'\b(SELF_|PING_|PONG_|REC_|f_|T_|VA_|g_|CAT_)\b|#', out1):     # painted / unexpanded names, `#` inside a line
                corr.nontrivial.add(key('second-pass', src))
            if changed:
                corr.violations.append({'what': 'preprocessing the -E output again changes it (the printed token list is inert for the table of '
                                                'init_macros: C19_idempotent says the second pass is the identity)', 'input': src,
                                        'expected': want2, 'got': out2 if rc2 == 0 else err2[-300:]})
                return
        else:
            fid = KNOWN_HASH if reg['hashbol'] else KNOWN_NAME
            if reg['hashbol']:
                corr.count('second-pass:outside-inert-region(hash-at-line-start)')
            if reg['initnames']:
                corr.count('second-pass:outside-inert-region(initial-macro-name)')
            corr.nontrivial.add(key('second-pass', src))
            if changed:
                corr.count('second-pass:outside-inert-region:text-changes')
                if fid in known:
                    corr.violations.append({'what': 'preprocessing the -E output again changes it', 'input': src, 'expected': out1,
                                            'got': out2 if rc2 == 0 else err2[-300:], 'known_id': fid})
                    if i < len(KNOWN_WITNESSES) and fid not in corr.known_hits:
                        corr.known_hits.append(fid)
                else:
                    corr.extra.setdefault('second_pass_unregistered_findings', {}).setdefault(fid, {'input': src, 'first': out1,
                                          'second': out2 if rc2 == 0 else 'error: ' + err2[-200:]})
    corr.sample({'second_pass_source': sources[nfixed][-160:], 'first': seconds and seconds[-1][2][-120:]})


# ------------------------------------------------------------------ corpus

def corpus_leg(ctx, model, impl, corr):
    d = os.path.join(VERIF, 'corpus', 'C19')
    if not os.path.isdir(d):
        return
    for fn in sorted(os.listdir(d)):
        if not fn.endswith('.json'):
            continue
        c = json.load(open(os.path.join(d, fn)))
        corr.evaluations += 1
        corr.count('corpus')
        corr.nontrivial.add(key('corpus', fn))
        v = check_case(ctx, corr, model, impl, c['source'], c.get('expect'))
        if v:
            v['corpus'] = fn
            corr.violations.append(v)


def correspond(ctx, corr):
    model, impl = Model(ctx), Impl(ctx)
    corr.rule = ('(corpus) past failures first.  (a) tie: macro-free texts over every token class, white space and comment form and the '
                 'diagnostics — chibicc -E must print exactly printTokens(lex text) of the Lean model / fail with the predicted message.  '
                 '(b) every ordered pair of a %d-token alphabet (all punctuators of read_punct, identifiers incl. L u U u8 e E p, pp-numbers '
                 'incl. 1e 1. 1e+ 0x1p-, string/char literals with every prefix) plus triples/chains and random 3-8 tuples, juxtaposed '
                 'without white space through `#define f_(x) x`, `#define Tn_() tok`, `#define On_ tok`: the -E output must re-lex to '
                 'exactly the tokens (Lean model of tokenize AND gcc -E -P as independent lexer), the printed line must equal the model of '
                 'print_tokens, and a second -E pass must be byte-identical.  (c) whole programs (test/*.c, chibicc\'s sources, generated '
                 'macro-heavy programs): -S of the -E output = -S of the source after deleting .loc/.file; second pass identical; '
                 '(d) gcc lexes the output to the same spellings.  non-trivial = glued spellings do not lex to the tokens (b), text has '
                 'comments/diagnostic/length>60 (a), program has macros (c); distinct by content.' % len(ALPHABET))
    corpus_leg(ctx, model, impl, corr)
    if corr.violations:
        return
    tie_leg(ctx, model, impl, corr)
    if corr.disagreements:
        return
    pairs_leg(ctx, model, impl, corr)
    if corr.violations or corr.disagreements:
        return
    whole_leg(ctx, model, impl, corr)
    if corr.violations or corr.disagreements:
        return
    second_pass_leg(ctx, model, impl, corr)
    corr.exhaustive = False
    corr.extra['exhaustive_subspace'] = f'all {len(ALPHABET)}^2 ordered pairs of the alphabet (each run)'


def search(ctx, broken, corr):
    """proof / translator / tie broke and the standard run saw no violation: larger tuple battery on the implementation"""
    model, impl = Model(ctx), Impl(ctx)
    try:
        model.run(['selflex 49'])
    except Exception:
        model = None
    rng = ctx.rng
    if model is None:
        # the model does not build: use gcc as the only lexer oracle
        for _ in range(3000):
            toks = [rng.choice(ALPHABET) for _ in range(rng.randrange(2, 6))]
            body = ''.join(f'f_({t})' for t in toks if t not in '(),')
            toks = [t for t in toks if t not in '(),']
            src = '#define f_(x) x\nZ ' + body + '\n'
            p = impl.write(src)
            rc, out, err = impl.E(p)
            if rc == 0:
                gt = impl.gcc_text(out)
                g = ctok(gt, 'chibi') if gt is not None else None
                if g is not None and g != ['Z'] + toks:
                    return {'what': '-E output does not re-lex (gcc as lexer) to the token sequence of the expansion', 'input': src,
                            'expected': toks, 'got': g[1:], 'output': out}
        return None
    c2 = Corr()
    jx = Juxta(ctx, model, impl, c2)
    cases = []
    for _ in range(20000):
        toks = [rng.choice(ALPHABET) for _ in range(rng.randrange(2, 7))]
        cases.append((toks, jx.render(toks, rng)))
    for i in range(0, len(cases), 500):
        vs = [v for v in jx.run_batch(cases[i:i + 500], 'search') if not v.get('rejected')]
        if vs:
            return shrink_tuple(jx, rng, vs[0])
    return None


def shrink_tuple(jx, rng, v):
    """smallest contiguous sub-tuple of the juxtaposed tokens that still fails"""
    toks = v.get('tokens')
    if not toks or len(toks) <= 2:
        return v
    for n in range(2, len(toks)):
        subs = [toks[i:i + n] for i in range(0, len(toks) - n + 1)]
        cases = [(t, jx.render(t, rng, prefer=pref)) for t in subs for pref in ('F', 'T')]
        vs = [x for x in jx.run_batch(cases, 'shrink') if not x.get('rejected')]
        if vs:
            return vs[0]
    return v


def replay(ctx, corr, path):
    payload = json.load(open(path))
    src = payload.get('input')
    if not isinstance(src, str) or '\n' not in src:
        corr.extra['replay'] = 'replay file carries no source text'
        return
    model, impl = Model(ctx), Impl(ctx)
    corr.evaluations = 1
    exp = payload.get('expected') if isinstance(payload.get('expected'), list) else None
    if exp is not None and payload.get('input', '').find('Z') >= 0:
        m = re.search(r'^(Z\d+_) ', src, re.M)
        if m:
            exp = [m.group(1)] + exp
    v = check_case(ctx, corr, model, impl, src, exp)
    print('replay:', v['what'] if v else 'input now satisfies the property')
    if v:
        corr.violations.append(v)


MANIFEST = {
    'level_text': 'Lean 4 theorems over a model of tokenize()\'s scanning loop and of print_tokens with the generated need_space: for EVERY '
                  'list of tokens whose spellings are self-lexing (with arbitrary at_bol/has_space flags) the printed -E text lexes back to '
                  'exactly those spellings (C19_roundtrip), because need_space is sound for every pair of spellings (C19_need_space_sound: '
                  'maximal munch cannot cross a boundary where no separator is printed) and a space or newline never changes the sequence '
                  '(C19_space_harmless); every token tokenize produces has a self-lexing spelling, so the hypothesis covers every token the '
                  'preprocessor can hold (C19_lexed_tokens_self_lexing); the loop bound of the model is sufficient (C19_lex_fuel_suffices); '
                  'a second print∘lex pass is the identity on the text (C19_idempotent_partial, for lists with no `#` at '
                  'line start and no macro name — the preprocessor itself is not modelled here).  The models are tied to the code on every '
                  'run: tables and need_space are regenerated from the source, and chibicc -E must reproduce the model byte for byte on '
                  'macro-free texts and on all ordered pairs of an alphabet of every token class; the same-assembly half of the property and '
                  'idempotence under the real preprocessor are established by execution (test/*.c, chibicc\'s own sources, generated '
                  'macro-heavy programs), with gcc -E -P as an independent lexer.',
    'level_note': 'Trusted: Lean kernel (axioms propext, Classical.choice, Quot.sound only; audited each run); the hand models of tokenize() '
                  'and print_tokens (text-equality tie, which is testing); tools/extract/lexgen.py; C-locale <ctype.h>; code points for UTF-8 '
                  'bytes.  Not proved: that the parser depends only on the (kind, spelling) sequence (same assembly is tested, not proved); '
                  'the second preprocessing pass beyond print∘lex.  Outside the domain: the lone `\\` punctuator.',
    'technique': 'Lean 4 proof by case analysis on token classes against an executable model of the tokenizer (whole-table decide for the '
                 'punctuator table); translator-regenerated tables and need_space; byte-level differential correspondence with chibicc -E; '
                 'gcc as independent lexer; whole-program -E/-S pipeline',
    'design_ref': 'DESIGN.md section 6, C19',
}
