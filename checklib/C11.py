"""C11 - literals have the C11 value, type and encoding (tokenize.c, unicode.c, preprocess.c, parse.c).

Legs (DESIGN 3.3):
  model <-> code   tools/harness/literals_harness.c (#includes the snapshot's unicode.c, tokenize.c, preprocess.c ...)
                   against `drv_c11 literals` (Gen/LiteralsGen.lean, Gen/LitReadersGen.lean, Gen/PpNumGen.lean regenerated from the
                   snapshot + Model/Literals, Model/Text, Model/PpNumber)
  code  <-> oracle the same harness outputs against reference implementations written here from RFC 3629 / RFC 2781 /
                   C11 6.4.4.1p5 / 6.4.4.4 (python), and compiled programs: chibicc vs gcc -std=c11 (value, type, sizeof, bytes)
  model  =  spec   theorems of lean/ChibiVerif/Props/C11.lean
"""
import os, json, struct, hashlib, itertools
from fractions import Fraction
from .framework import *

PROPERTY = 'C11'
GEN_MODULES = ['literals', 'strjoin']
LEAN_TARGETS = ['ChibiVerif.Props.C11', 'ChibiVerif.Props.C11Lex', 'ChibiVerif.Props.C11Join', 'ChibiVerif.Findings.C11']
PROPS_FILES = ['ChibiVerif/Props/C11.lean', 'ChibiVerif/Props/C11Lex.lean', 'ChibiVerif/Props/C11Join.lean']
NEEDS_HOOKS = False
TRUSTED_BASE = [
    'Lean 4.33.0 kernel; axioms admitted: propext, Classical.choice, Quot.sound (audited per theorem on every run); '
    '`decide +kernel` is used for facts over the 256 byte values',
    'translator tools/extract/literals.py + cmini.py (small typed C expression/statement front end) + cursor.py (symbolic execution of '
    'cursor functions, of in-place rewriting loops, of loop-free functions with if-ladders and of token scans; clang-14 AST for the values '
    'of the character constants in read_escaped_char and for the body of tokenize_file; clang-14 -E for the value and type of limit macros). '
    'Translated whole: encode_utf8, decode_utf8, is_ident1/2 tables, UTF-16 surrogate arithmetic, convert_pp_int (prefix ladder, the strtoul '
    'call as a parameter, suffix ladder, whole-token test, type ladder, result), the pp-number arm of tokenize() (start test and scan loop), '
    'tokenize_file (BOM test, order of the phase calls), convert_pp_number suffix table, literal prefix dispatch of tokenize(), type.c sizes, '
    'from_hex, read_escaped_char, read_universal_char, string_literal_end, the three string readers, read_char_literal, '
    'canonicalize_newline, remove_backslash_newline, convert_universal_chars (the last three with exact array semantics).  Mitigated by '
    'the differential run of every translated function against the compiled C function (exhaustive over all 0x110000 code points in the '
    'thorough tier)',
    'translator tools/extract/strjoin.py (+cmini.py): StringKind, getStringKind (strncmp tests and switch arms), tokenize_string_literal (reader '
    'dispatch; element type read off each reader), type.c array_of size, both passes of join_adjacent_string_literals on one run of adjacent '
    'string literals (inner loops -> structural recursion over the visited tokens, int locals as Int, calloc as zero bytes, memcpy as a '
    'bounds-checked store, error_tok as an outcome), the tail of read_file (final newline, terminator) -> Gen/StrJoinGen.lean.  Mitigated by '
    'the differential run of the translated functions on whole token lists and whole files (joinb / filej / rdf operations: element type, '
    'array_len and every byte of the result compared with the compiled C under ASan/UBSan)',
    'hand-written and tied by testing only: the iteration of the two outer loops of join_adjacent_string_literals over the maximal runs of at '
    'least two TK_STR tokens (Model/StrJoin.lean overRuns; its C shape is required literally by strjoin.py), the libc stream calls of read_file '
    'before its tail (open_memstream / fread / fwrite: "the stream holds the bytes of the file", text required literally).  The hand-written '
    'reader functions, phase loops, convert_pp_int, pp-number scan, literal dispatch (order of the arms, token in context vs copy), phase '
    'composition, join / getStringKind / tokenize_string_literal and the final-newline rule that the theorems are stated about are *proved '
    'equal* to the translated functions (C11_translated_readers, C11_translated_literal_readers, C11_translated_phases, C11_translated_int, '
    'C11_translated_ppnumber, C11_translated_lex, C11_arm_order, C11_phase_order, C11_translated_join, C11_read_file_spec, C11_source_text)',
    'libc strtoul: a parameter of the translated convert_pp_int; the integer-constant theorems assume the contract StrtoulSpec (value of a '
    'digit run of the base, saturation to ULONG_MAX, end pointer), which is proved of the Lean model strtoulC (Model/PpNumber.lean) and '
    'tested on the real libc directly (`stl` operations against the model and against a python statement of the contract)',
    'Spec/LiteralsSpec.lean (my reading of C11 5.1.1.2, 6.4.4.1p5, 6.4.4.2p4, 6.4.4.4, 6.4.5, Annex D, RFC 3629, RFC 2781), validated against '
    'gcc 12 -std=c11 through compiled programs and against the python reference codecs in this file',
    'libc strtold/strtof/strtod (floating constants are compared with gcc bit for bit but not modelled), isxdigit / isdigit / isalnum / '
    'tolower (strncasecmp) / strchr in the C locale (stated as Lean definitions in the generated files)',
    'identification long long = long (type.c has one 64-bit integer type per signedness): types are compared modulo it',
]
ASSUMPTIONS = ['LP64, char signed, wchar_t = int, char16_t = unsigned short, char32_t = unsigned int (psABI x86-64)',
               'source and execution character sets are UTF-8; source files contain no NUL byte and are smaller than 2 GiB (the `int` '
               'indices of the phase loops are modelled as natural numbers)',
               'excluded as implementation-defined / undefined / constraint violations: multi-character constants, decimal constants '
               'above LLONG_MAX without u, escapes out of range for the element type, universal character names for code points '
               'C11 6.4.3 disallows, invalid UTF-8 in the source, mixed wide prefixes in a concatenation, floating constants whose '
               'correctly rounded value and x87-then-narrowed value differ (6.4.4.2p3 allows either neighbour)']

# ------------------------------------------------------------------------------------------------ reference (oracle) code

def ref_utf8(c):
    """RFC 3629 section 3 (generalised to 21 bits, no surrogate check: the bit layout only)"""
    if c < 0x80:
        return bytes([c])
    if c < 0x800:
        return bytes([0xC0 | c >> 6, 0x80 | c & 0x3F])
    if c < 0x10000:
        return bytes([0xE0 | c >> 12, 0x80 | (c >> 6) & 0x3F, 0x80 | c & 0x3F])
    return bytes([0xF0 | c >> 18, 0x80 | (c >> 12) & 0x3F, 0x80 | (c >> 6) & 0x3F, 0x80 | c & 0x3F])

def ref_utf16(c):
    """RFC 2781 section 2.1"""
    if c < 0x10000:
        return [c]
    u = c - 0x10000
    return [0xD800 + (u >> 10), 0xDC00 + (u & 0x3FF)]

def is_scalar(c):
    return c < 0xD800 or 0xE000 <= c < 0x110000

INT_TYPES = {'int': (32, True), 'uint': (32, False), 'long': (64, True), 'ulong': (64, False),
             'llong': (64, True), 'ullong': (64, False)}
CANDIDATES = {  # C11 6.4.4.1p5: (decimal column, octal/hex column)
    '': (['int', 'long', 'llong'], ['int', 'uint', 'long', 'ulong', 'llong', 'ullong']),
    'u': (['uint', 'ulong', 'ullong'],) * 2,
    'l': (['long', 'llong'], ['long', 'ulong', 'llong', 'ullong']),
    'ul': (['ulong', 'ullong'],) * 2,
    'll': (['llong'], ['llong', 'ullong']),
    'ull': (['ullong'],) * 2,
}
COLLAPSE = {'llong': 'long', 'ullong': 'ulong'}

def suffix_class(s):
    t = s.lower()
    u = 'u' in t
    t = t.replace('u', '')
    return ('u' if u else '') + t

def ref_int_type(base, suffix, v):
    lst = CANDIDATES[suffix_class(suffix)][0 if base == 10 else 1]
    for t in lst:
        bits, signed = INT_TYPES[t]
        if v < (1 << (bits - 1 if signed else bits)):
            return t
    return None

SUFFIXES = ['', 'u', 'U', 'l', 'L', 'll', 'LL', 'ul', 'uL', 'Ul', 'UL', 'lu', 'lU', 'Lu', 'LU',
            'ull', 'uLL', 'Ull', 'ULL', 'llu', 'llU', 'LLu', 'LLU']

def spell_int(base, v, rng=None):
    if base == 10:
        return str(v)
    if base == 16:
        s = format(v, 'x')
        if rng and rng.random() < 0.5:
            s = s.upper()
        return ('0X' if rng and rng.random() < 0.3 else '0x') + s
    if base == 8:
        return '0' + format(v, 'o') if v else '0'
    return ('0B' if rng and rng.random() < 0.3 else '0b') + format(v, 'b')

THRESHOLDS = [0, 1, 7, 8, 9, 255, 32767, 65535, 65536, (1 << 31) - 2, (1 << 31) - 1, 1 << 31, (1 << 31) + 1,
              (1 << 32) - 2, (1 << 32) - 1, 1 << 32, (1 << 32) + 1, (1 << 63) - 2, (1 << 63) - 1, 1 << 63, (1 << 63) + 1,
              (1 << 64) - 2, (1 << 64) - 1]

SIMPLE_ESC = {"'": 39, '"': 34, '?': 63, '\\': 92, 'a': 7, 'b': 8, 'f': 12, 'n': 10, 'r': 13, 't': 9, 'v': 11}

def hexs(b):
    return b.hex() if b else '-'

# ------------------------------------------------------------------------------------------------ harness / driver

def build_harness(ctx):
    exe = os.path.join(ctx.scratch, 'literals_harness')
    if os.path.exists(exe):
        return exe
    amalgam = ''
    for f in ('unicode.c', 'tokenize.c', 'type.c', 'hashmap.c', 'strings.c', 'preprocess.c'):
        t = open(os.path.join(ctx.snapshot, f), encoding='utf-8', errors='surrogateescape').read()
        t = re.sub(r'^\s*#\s*include\s+"chibicc.h"\s*$', '', t, flags=re.M)
        amalgam += f'#line 1 "{f}"\n{t}\n'
    with open(os.path.join(ctx.scratch, 'literals_amalgam.c'), 'w', encoding='utf-8', errors='surrogateescape') as f:
        f.write(amalgam)
    rc, o, e = sh(['gcc', '-O1', '-g', '-w', '-fsanitize=address,undefined', '-fno-sanitize-recover=all',
                   '-I', ctx.snapshot, '-I', ctx.scratch, os.path.join(VERIF, 'tools/harness/literals_harness.c'), '-o', exe], timeout=600)
    if rc != 0:
        raise BuildFailure('literals harness does not compile against the snapshot: ' + e[-1500:])
    return exe

def run_impl(ctx, text):
    exe = build_harness(ctx)
    env = dict(os.environ, ASAN_OPTIONS='detect_leaks=0:abort_on_error=0:allocator_may_return_null=1')
    rc, o, e = sh([exe, os.path.join(ctx.scratch, 'harness_file_input.c')], input=text, timeout=3000, env=env)
    lines = o.splitlines()
    if rc != 0:
        tail = [l for l in e.strip().splitlines() if 'ERROR' in l or 'runtime error' in l][:1]
        lines.append(f'crash rc={rc} ' + (tail[0][:200] if tail else ''))
    return lines

def run_both(ctx, corr, ops, tag, nontrivial=None, oracle=None, lenient=()):
    """ops: list of protocol lines.  Runs the real code and the model, compares line by line; `oracle(op, impl_line)` may return
    a violation description (implementation against the property's right-hand side).  For an op in `lenient` an error reported by the
    real code where the model reads a token is not a disagreement (tokenize() went on and failed on a *later* token, which the model
    of the first token does not cover); counted as `later_token_error`.  Likewise when the two texts agree and the model says `other`
    because the text begins with the newlines that an out-of-region splice left in front of the literal."""
    if not ops:
        return
    text = ''.join(o + '\n' for o in ops)
    impl = run_impl(ctx, text)
    model = ctx.driver('literals', text).splitlines()
    corr.count(tag, len(ops))
    corr.evaluations += len(ops)
    for i, op in enumerate(ops):
        li = impl[i] if i < len(impl) else (impl[-1] if impl and impl[-1].startswith('crash') else '<missing>')
        lm = model[i] if i < len(model) else '<missing>'
        if nontrivial is None or nontrivial(op, li):
            corr.nontrivial.add(op)
        if li != lm and op in lenient and ' err ' in li and ' err ' not in lm:
            corr.count('later_token_error')
        elif li != lm and op in lenient and lm.endswith(' other') and li.split(' ')[:2] == lm.split(' ')[:2]:
            corr.count('literal_not_at_start_of_text')      # same phase-1/2 text; the model reads a literal at offset 0 only
        elif li != lm and len(corr.disagreements) < 5:
            corr.disagreements.append({'kind': tag, 'input': op, 'impl': li, 'model': lm})
        if oracle:
            bad = oracle(op, li)
            if bad and len(corr.violations) < 8:
                corr.violations.append(dict(bad, input=op, got=li, leg=tag))
    corr.sample({tag: [ops[len(ops) // 2], impl[len(ops) // 2] if len(ops) // 2 < len(impl) else None]})

# ------------------------------------------------------------------------------------------------ leg 1: code points

def codepoints(ctx, tables):
    rng = ctx.rng
    if ctx.thorough:
        return list(range(0x110000)) + [0x110000, 0x110001, 0x1FFFFE, 0x1FFFFF]
    pts = set()
    for b in (0, 0x80, 0x800, 0x10000, 0x110000, 0x200000, 0xD800, 0xDC00, 0xE000, 0xFFFE, 0x24, 0x5F):
        for d in range(-2, 3):
            if 0 <= b + d < 0x200000:
                pts.add(b + d)
    for lo, hi in tables:
        for x in (lo - 1, lo, lo + 1, hi - 1, hi, hi + 1):
            if 0 <= x < 0x200000:
                pts.add(x)
    while len(pts) < 4600:
        c = rng.randrange(0x110000)
        if is_scalar(c):
            pts.add(c)
    return sorted(pts)

def gen_tables(ctx):
    txt = open(os.path.join(ctx.lean_dir, 'ChibiVerif/Gen/LiteralsGen.lean')).read()
    out = []
    for name in ('ident1Ranges', 'ident2Ranges'):
        m = re.search(r'def ' + name + r' : List \(Nat × Nat\) := \[(.*?)\n\]', txt, re.S)
        if m:
            out += [(int(a, 16), int(b, 16)) for a, b in re.findall(r'\(0x([0-9A-F]+), 0x([0-9A-F]+)\)', m.group(1))]
    return out

ANNEX_D1 = [(0xA8, 0xA8), (0xAA, 0xAA), (0xAD, 0xAD), (0xAF, 0xAF), (0xB2, 0xB5), (0xB7, 0xBA), (0xBC, 0xBE), (0xC0, 0xD6), (0xD8, 0xF6),
            (0xF8, 0xFF), (0x100, 0x167F), (0x1681, 0x180D), (0x180F, 0x1FFF), (0x200B, 0x200D), (0x202A, 0x202E), (0x203F, 0x2040),
            (0x2054, 0x2054), (0x2060, 0x206F), (0x2070, 0x218F), (0x2460, 0x24FF), (0x2776, 0x2793), (0x2C00, 0x2DFF), (0x2E80, 0x2FFF),
            (0x3004, 0x3007), (0x3021, 0x302F), (0x3031, 0x303F), (0x3040, 0xD7FF), (0xF900, 0xFD3D), (0xFD40, 0xFDCF), (0xFDF0, 0xFE44),
            (0xFE47, 0xFFFD)] + [(p << 16, (p << 16) + 0xFFFD) for p in range(1, 15)]
ANNEX_D2 = [(0x300, 0x36F), (0x1DC0, 0x1DFF), (0x20D0, 0x20FF), (0xFE20, 0xFE2F)]

def in_ranges(t, c):
    return any(lo <= c <= hi for lo, hi in t)

def ref_ident(c):
    basic = c == 0x5F or 0x61 <= c <= 0x7A or 0x41 <= c <= 0x5A or c == 0x24
    return (basic or (in_ranges(ANNEX_D1, c) and not in_ranges(ANNEX_D2, c)),
            basic or 0x30 <= c <= 0x39 or in_ranges(ANNEX_D1, c))

def leg_codepoints(ctx, corr):
    pts = codepoints(ctx, gen_tables(ctx) + ANNEX_D1 + ANNEX_D2)

    def o_enc(op, li):
        c = int(op.split()[1], 16)
        if not is_scalar(c):
            return None                                  # surrogates / beyond U+10FFFF: no requirement (model <-> code only)
        want = f'enc {len(ref_utf8(c))} {ref_utf8(c).hex()}'
        if li != want:
            return {'what': f'encode_utf8(U+{c:04X}) is not the RFC 3629 sequence', 'expected': want}

    def o_dec(op, li):
        c = dec_expect.get(op)
        if c is not None and li != c:
            return {'what': 'decode_utf8 does not invert the RFC 3629 sequence / does not reject a malformed one', 'expected': c}

    def o_u16(op, li):
        c = int(op.split()[1], 16)
        if not is_scalar(c) or c in (0, 0x22, 0x5C, 0x0A):
            return None
        want = 'u16 ' + ' '.join(format(u, 'x') for u in ref_utf16(c))
        if li != want:
            return {'what': f'u"..." stores wrong UTF-16 code units for U+{c:04X}', 'expected': want}

    def o_id(op, li):
        c = int(op.split()[1], 16)
        a, b = ref_ident(c)
        want = f'id {int(a)} {int(b)}'
        if li != want:
            return {'what': f'is_ident1/is_ident2(U+{c:04X}) differs from C11 Annex D', 'expected': want}

    run_both(ctx, corr, [f'enc {c:x}' for c in pts], 'encode_utf8', lambda op, li: len(li.split()) > 1 and li.split()[1] != '1', o_enc)
    dec_ops, dec_expect = [], {}
    for c in pts:
        if c < 0x200000:
            op = f'dec {ref_utf8(c).hex()}'
            dec_ops.append(op)
            if is_scalar(c):
                dec_expect[op] = f'dec ok {c:x} {len(ref_utf8(c))}'
    # malformed: continuation in lead position, truncated sequences, lead followed by a non-continuation byte
    rng = ctx.rng
    for b in list(range(0x80, 0xC0, 7)) + [0x80, 0xBF]:
        op = f'dec {b:02x}41'
        dec_ops.append(op); dec_expect[op] = 'dec err'
    for c in (0xE9, 0x20AC, 0x1F600, 0x7FF, 0xFFFF, 0x10FFFF):
        e = ref_utf8(c)
        for k in range(1, len(e)):
            op = f'dec {e[:k].hex()}'
            dec_ops.append(op); dec_expect[op] = 'dec err'
            op = f'dec {e[:k].hex()}41{e[k:].hex()}'
            dec_ops.append(op); dec_expect[op] = 'dec err'
    for _ in range(300 if not ctx.thorough else 20000):
        n = rng.randrange(1, 6)
        bs = bytes(rng.choice([rng.randrange(1, 256), rng.randrange(0x80, 0x100), rng.randrange(0xC0, 0x100)]) for _ in range(n))
        dec_ops.append(f'dec {bs.hex()}')          # model <-> code only (what chibicc does with invalid UTF-8 is outside the property)
    run_both(ctx, corr, dec_ops, 'decode_utf8', lambda op, li: li.startswith('dec err') or li.endswith((' 2', ' 3', ' 4')), o_dec)
    run_both(ctx, corr, [f'u16 {c:x}' for c in pts if c not in (0, 0x22, 0x5C, 0x0A) and c < 0x200000], 'utf16',
             lambda op, li: len(li.split()) == 3, o_u16)
    run_both(ctx, corr, [f'id {c:x}' for c in pts], 'ident', lambda op, li: li != 'id 0 0', o_id)
    corr.extra['code_points'] = len(pts)

# ------------------------------------------------------------------------------------------------ leg 2: integer constants

def int_cases(ctx):
    rng = ctx.rng
    vals = list(THRESHOLDS)
    for _ in range(40 if not ctx.thorough else 2000):
        vals.append(rng.getrandbits(rng.choice([8, 16, 31, 32, 33, 62, 63, 64])))
    cases = []
    for v in vals:
        for base in (2, 8, 10, 16):
            for suf in (SUFFIXES if (v in THRESHOLDS or ctx.thorough) else rng.sample(SUFFIXES, 4)):
                cases.append((base, suf, v, spell_int(base, v, rng) + suf))
    return cases

def leg_int(ctx, corr):
    cases = int_cases(ctx)
    ops = [f'int {c[3].encode().hex()}' for c in cases]
    meta = dict(zip(ops, cases))

    def oracle(op, li):
        base, suf, v, sp = meta[op]
        t = ref_int_type(base, suf, v)
        if t is None:
            corr.count('skipped_no_standard_type')
            return None
        want = f'int {v:x} {COLLAPSE.get(t, t)}'
        if t in COLLAPSE:
            corr.count('collapsed_long_long')
        if li != want:
            return {'what': f'integer constant {sp} does not get the value/type of C11 6.4.4.1p5', 'expected': want + f' ({t})'}
    run_both(ctx, corr, ops, 'convert_pp_int', lambda op, li: True, oracle)
    # spellings that are not integer constants: model <-> code only
    junk = ['1.5', '1e5', '0x1p3', '1f', '1lul', '1uu', '0x', '08', '1lL', '1Ll', '0b2', '0xg', '1_0', '12ab', '0b', '1llu8', '0x1.8p1', '.5', '1e+5',
            # libc strtoul accepts a 0x prefix of its own in base 16 (after the one convert_pp_int skipped); saturation on overflow
            '0x0x1f', '0X0x1', '0x0X1fu', '0x0xg', '0x0x', '0x0xUL', '0b0b1', '0b0x1', '00x1', '0x00x1', '0b1x', '0x1x', '0xx1', '0x0b1',
            '99999999999999999999', '99999999999999999999u', '0xfffffffffffffffff', '18446744073709551616ul', '07777777777777777777777777',
            '0b' + '1' * 65, '1.', '1..', '0e', '0x1e+1', '1e+', '0xe+1', '0b1e', '09', '0a', '1LLL', '1uLl', '1ulu', '0u8', 'x1', '1 ']
    run_both(ctx, corr, [f'int {j.encode().hex()}' for j in junk], 'convert_pp_int_reject')
    # the token inside its text (convert_pp_int reads p[2], the suffix bytes and strtoul's digits beyond a short token)
    rng = ctx.rng
    ops, meta2 = [], {}
    for base, suf, v, sp in rng.sample(cases, min(len(cases), 400 if not ctx.thorough else 6000)) + [(0, '', 0, j) for j in junk[:-2]]:
        pre = rng.choice(['', ' ', 'x = ', '(', '1+', 'ab '])
        post = rng.choice(['', ' ', ';', ')', '+1', ' u', ',', '-', ']', ' 0x1', '\n', '_', '$', '"', '..'])
        if post[:1] == '.' or (post[:1] in '+-' and sp[-1:] in 'eEpP'):
            post = ' ' + post                                # the byte after a pp-number token is never one the scan would have taken
        op = f'inta {len(pre)} {len(sp)} {hexs((pre + sp + post).encode())}'
        ops.append(op)
        if base:
            meta2[op] = (base, suf, v, sp)

    def oracle2(op, li):
        if op not in meta2:
            return None
        base, suf, v, sp = meta2[op]
        t = ref_int_type(base, suf, v)
        if t is None:
            return None
        want = f'inta {v:x} {COLLAPSE.get(t, t)}'
        if li != want:
            return {'what': f'integer constant {sp} (inside a text) does not get the value/type of C11 6.4.4.1p5', 'expected': want + f' ({t})'}
    run_both(ctx, corr, ops, 'convert_pp_int_in_context', lambda op, li: li != 'inta no', oracle2)

def ref_strtoul(t, base):
    """C11 7.22.1.4 for a subject sequence without white space and sign, as far as the contract StrtoulSpec goes: a non-empty run of
    digits of the base followed by a byte that is not one -> (value saturated to ULONG_MAX, end); None = outside the contract"""
    digs = '0123456789abcdefghijklmnopqrstuvwxyz'[:base]
    n = 0
    while n < len(t) and t[n].lower() in digs:
        n += 1
    if n == 0 or base > 16 or (base == 16 and t[:2].lower() == '0x'):
        return None
    return min(int(t[:n], base), (1 << 64) - 1), n

def leg_strtoul(ctx, corr):
    """libc strtoul (the function convert_pp_int calls) against the Lean model `strtoulC`, and against the contract `StrtoulSpec`"""
    rng = ctx.rng
    ops, expect = [], {}
    fixed = ['0', '1', '0x', '0X', '0x1', '0xg', '0X1fz', '0x0x1', '0b1', '0b', 'x1', 'zz', '.5', '0_', '18446744073709551615', '18446744073709551616',
             'ffffffffffffffff', '10000000000000000', '1777777777777777777777', '2000000000000000000000', '1' * 64, '1' * 65, '0x' + 'f' * 17,
             '7fffffffffffffff', '8000000000000000', '9u', '9U', '1l', '0xul', 'g', 'G1', '1g', 'z', '00', '0x0', '0xx', '0X0X1', '1e+5', '1.5']
    for t in fixed:
        for base in (2, 8, 10, 16, 3, 7, 36):
            ops.append((base, t))
    for _ in range(400 if not ctx.thorough else 10000):
        base = rng.choice([2, 8, 10, 16, 16, 10, 3, 36])
        digs = '0123456789abcdefghijklmnopqrstuvwxyz'
        n = rng.choice([1, 2, 3, 8, 16, 19, 20, 21, 22, 23, 64, 65, 66])
        body = ''.join(rng.choice(digs[:base] if rng.random() < 0.9 else digs) for _ in range(n))
        if rng.random() < 0.3:
            body = body.upper()
        pre = rng.choice(['', '', '', '0x', '0X', '0', '0b'])
        tail = rng.choice(['', 'u', 'UL', 'll', ' ', ';', 'x1', 'g', '.5', '+1', '_'])
        ops.append((base, pre + body + tail))
    lines = []
    for base, t in ops:
        if not t or t[0] in ' \t\n\v\f\r+-':
            continue                                           # white space / sign: not modelled (never reached from convert_pp_int)
        op = f'stl {base} {hexs(t.encode())}'
        lines.append(op)
        r = ref_strtoul(t, base)
        if r is not None:
            expect[op] = f'stl {r[0]:x} {r[1]}'

    def oracle(op, li):
        w = expect.get(op)
        if w is not None and li != w:
            return {'what': 'libc strtoul does not satisfy the contract the integer-constant theorems assume (value of the digit run, saturation, '
                            'end after the last digit)', 'expected': w}
    run_both(ctx, corr, lines, 'strtoul', lambda op, li: op in expect, oracle)

def ref_ppnumber(t, s):
    """C11 6.4.8 with identifier-nondigit = the Latin letters: the longest prefix of t[s:] that the grammar derives (all derivations, no
    greedy choice); None = no pp-number starts here"""
    digit = lambda k: k < len(t) and 48 <= t[k] <= 57
    ends = set()
    if digit(s):
        ends.add(s + 1)
    if s < len(t) and t[s] == 46 and digit(s + 1):
        ends.add(s + 2)
    todo = list(ends)
    while todo:
        k = todo.pop()
        nxt = []
        if k < len(t) and (digit(k) or 65 <= t[k] <= 90 or 97 <= t[k] <= 122 or t[k] == 46):
            nxt.append(k + 1)
        if k + 1 < len(t) and t[k] in b'eEpP' and t[k + 1] in b'+-':
            nxt.append(k + 2)
        for n in nxt:
            if n not in ends:
                ends.add(n); todo.append(n)
    return max(ends) if ends else None

def leg_ppnumber(ctx, corr):
    """the pp-number arm of tokenize() (translated start test and scan loop) against the real tokenizer and against the grammar of 6.4.8"""
    rng = ctx.rng
    ops, expect = [], {}
    alpha = [b'0', b'1', b'9', b'7', b'e', b'E', b'p', b'P', b'+', b'-', b'.', b'x', b'X', b'a', b'f', b'z', b'L', b'u', b'_', b'$', b' ', b';',
             b'\xc3\xa9', b'e+', b'E-', b'p+', b'P-', b'..', b'e', b'+', b'-']
    fixed = [b'1', b'.5', b'.', b'..5', b'1e+5', b'1e+', b'1e', b'0x1p-3L', b'1..2', b'12ab;', b'1e5e+3', b'1_0', b'1$', b'1\xc3\xa9', b'1+2', b'1e+-2',
             b'1p+q-r', b'0xe+1', b'1.e+.e-', b'1E+5e-3.P+', b'.e+5', b'1 2', b'9', b'.9e', b'1e+e+e+', b'1ee+', b'1+', b'1.', b'a1', b'_1', b' 1', b'']
    for t in fixed:
        ops.append((0, t))
    for _ in range(500 if not ctx.thorough else 12000):
        n = rng.randrange(1, 12)
        first = rng.choice([b'1', b'0', b'9', b'.', b'.5', b'5'])
        t = first + b''.join(rng.choice(alpha) for _ in range(n))
        ops.append((0, t))
        if rng.random() < 0.3:
            pre = rng.choice([b' ', b'x', b'+', b'a.', b'1 '])
            ops.append((len(pre), pre + t))
    lines = []
    for s, t in ops:
        op = f'ppn {s} {hexs(t)}'
        lines.append(op)
        r = ref_ppnumber(t, s)
        expect[op] = 'ppn no' if r is None else f'ppn {r}'

    def oracle(op, li):
        if li.startswith('ppn err'):
            return None                                        # a later token is not a token at all: no verdict about the first one
        if li != expect[op]:
            return {'what': 'tokenize() does not take the longest pp-number of C11 6.4.8 (identifier-nondigit = Latin letters)', 'expected': expect[op]}
    run_both(ctx, corr, lines, 'pp_number_scan', lambda op, li: li not in ('ppn no',) and not li.startswith('ppn err'), oracle,
             lenient={l for l in lines})

# ------------------------------------------------------------------------------------------------ leg 3: escapes

def leg_escape(ctx, corr):
    rng = ctx.rng
    ops, expect = [], {}
    def add(body, val, n):
        op = f'esc {body.hex()}'
        ops.append(op)
        if val is not None:
            expect[op] = f'esc {val & 0xffffffff:x} {n}'
    for ch, v in SIMPLE_ESC.items():
        add(ch.encode() + b'Z', v, 1)
    add(b'eZ', None, 1)                                   # GNU \e: model <-> code only
    for d in range(8):                                    # octal, 1-3 digits, every terminator
        add(bytes([48 + d]) + b'"', d, 1)
        add(bytes([48 + d]) + b'8', d, 1)
    for _ in range(200 if not ctx.thorough else 3000):
        k = rng.randrange(1, 4)
        ds = [rng.randrange(8) for _ in range(k)]
        tail = rng.choice([b'"', b'8', b'9', b'a', b'7', b'0'] if k == 3 else [b'"', b'8', b'9', b'a', b'\\'])
        v = 0
        for d in ds:
            v = v * 8 + d
        add(bytes(48 + d for d in ds) + tail, v, k)
    for _ in range(200 if not ctx.thorough else 3000):
        k = rng.randrange(1, 9)
        hs = ''.join(rng.choice('0123456789abcdefABCDEF') for _ in range(k))
        add(b'x' + hs.encode() + rng.choice([b'"', b'g', b'\\', b"'"]), int(hs, 16), k + 1)
        # 6.4.4.4: a hexadecimal escape has NO maximum length - leading zeros make it arbitrarily long while the value stays in range
        z = '0' * rng.choice([1, 2, 3, 7, 8, 9, 12, 17, 31])
        add(b'x' + (z + hs).encode() + rng.choice([b'"', b'g', b'\\', b"'"]), int(hs, 16), len(z) + k + 1)
    add(b'xg', None, 0)                                   # error path (model <-> code)
    add(b'x"', None, 0)
    for b in (0x21, 0x25, 0x7e, 0x80, 0xc3, 0xff):        # not C11 escapes: default arm (model <-> code only)
        add(bytes([b]) + b'Z', None, 1)

    def oracle(op, li):
        w = expect.get(op)
        if w is not None and li != w:
            return {'what': 'read_escaped_char does not give the C11 6.4.4.4 value / length', 'expected': w}
    run_both(ctx, corr, ops, 'read_escaped_char', lambda op, li: True, oracle)

# ------------------------------------------------------------------------------------------------ leg 3b: translated cursor functions

def ref_string_end(t, start):
    """reference for string_literal_end: index of the closing quote, None = unclosed (6.4.5: no new-line in an s-char-sequence)"""
    i = start
    while True:
        c = t[i:i + 1]
        if c == b'"':
            return i
        if c in (b'\n', b'', b'\0'):
            return None
        if c == b'\\' and t[i + 1:i + 2] not in (b'', b'\0'):
            i += 1
        i += 1

def leg_translated(ctx, corr):
    """from_hex / read_universal_char / string_literal_end: the functions translated into Gen/LitReadersGen.lean, run directly"""
    rng = ctx.rng
    def o_fhex(op, li):
        b = int(op.split()[1], 16)
        ch = chr(b)
        if ch in '0123456789abcdefABCDEF' and li != f'fhex {int(ch, 16):x}':
            return {'what': f'from_hex({ch!r}) is not the value of the hexadecimal digit', 'expected': f'fhex {int(ch, 16):x}'}
    run_both(ctx, corr, [f'fhex {b:02x}' for b in range(1, 256)], 'from_hex', lambda op, li: True, o_fhex)
    ops, expect = [], {}
    for _ in range(300 if not ctx.thorough else 6000):
        n = rng.choice([4, 8, 4, 8, 0, 1, 3, 7, 9])
        k = rng.choice([n, n, n, n + 2, max(0, n - 1), rng.randrange(0, 12)])
        body = ''.join(rng.choice('0123456789abcdefABCDEF') for _ in range(k))
        if rng.random() < 0.3 and body:
            j = rng.randrange(len(body))
            body = body[:j] + rng.choice('gG xz\\"\n-') + body[j + 1:]
        op = f'ruc {n} {hexs(body.encode())}'
        ops.append(op)
        h = body[:n]
        if n > 8:
            continue                                        # more than 32 bits: never called that way, no requirement (model <-> code only)
        if len(h) == n and re.fullmatch(r'[0-9a-fA-F]*', h):
            expect[op] = f'ruc {int(h, 16) if h else 0:x}'
        else:
            expect[op] = 'ruc 0'
    def o_ruc(op, li):
        if op in expect and li != expect[op]:
            return {'what': 'read_universal_char does not return the value of the hexadecimal digits (0 if one is missing)', 'expected': expect[op]}
    run_both(ctx, corr, ops, 'read_universal_char', lambda op, li: li != 'ruc 0', o_ruc)
    ops, expect = [], {}
    for _ in range(400 if not ctx.thorough else 8000):
        n = rng.randrange(0, 14)
        t = b''.join(rng.choice([b'a', b'b', b' ', b'"', b'"', b'\\', b'\\', b'\n', b"'", b'\\"', b'\\\\', b'\xc3\xa9', b'x']) for _ in range(n))
        start = rng.randrange(0, len(t) + 1)
        op = f'sle {start} {hexs(t)}'
        ops.append(op)
        r = ref_string_end(t, start)
        expect[op] = 'sle err' if r is None else f'sle {r}'
    def o_sle(op, li):
        if li != expect[op]:
            return {'what': 'string_literal_end does not find the closing quote of the string literal (6.4.5) / does not diagnose an unclosed literal',
                    'expected': expect[op]}
    run_both(ctx, corr, ops, 'string_literal_end', lambda op, li: li != 'sle err', o_sle)
    # the translated readers, called directly (no oracle here: leg_readers and the end-to-end legs carry the C11 oracles)
    ops = []
    for _ in range(200 if not ctx.thorough else 5000):
        kind = rng.choice(['n', 'u16', 'u32'])
        pre = rng.choice([b'', b'u8', b'x = ']) if kind == 'n' else rng.choice([b'u', b'L', b'U', b''])
        body = rand_content(rng, '' if kind == 'n' else ('u' if kind == 'u16' else 'U'))
        if rng.random() < 0.15:
            body = body[:rng.randrange(0, len(body) + 1)] + rng.choice([b'\n', b'\\', b'\xc3', b'\x80', b'\\xg', b'']) + body[len(body) // 2:]
        tail = rng.choice([b'" rest', b'"', b'', b'\n"'])
        ops.append('rsl %s %d %s' % (kind, len(pre), hexs(pre + bytes([34]) + body + tail)))
    run_both(ctx, corr, ops, 'read_string_literal', lambda op, li: ' err ' not in li)
    ops = []
    for _ in range(200 if not ctx.thorough else 5000):
        pre = rng.choice([b'', b'u', b'L', b'U'])
        c = rng.choice(BOUNDARY_CPS) if rng.random() < 0.5 else rng.randrange(1, 0x110000)
        body = rng.choice([ref_utf8(c) if is_scalar(c) else b'a', b'\\n', b'\\x41', b'\\101', b'\\\'', b'\\\\', b'\\', b'', b'\xc3', b'ab', b'\\xg', b'\n'])
        tail = rng.choice([b"'", b"' + 1", b'', b"\n'", b"x'"])
        ops.append(f"rcl {len(pre)} {hexs(pre + bytes([39]) + body + tail)}")
    run_both(ctx, corr, ops, 'read_char_literal', lambda op, li: ' err ' not in li)

# ------------------------------------------------------------------------------------------------ leg 4: literal readers, join, text phases

BOUNDARY_CPS = [0x41, 0x7F, 0x80, 0xE9, 0x7FF, 0x800, 0x20AC, 0xD7FF, 0xE000, 0xFFFD, 0xFFFF, 0x10000, 0x1F600, 0x10FFFF]

def rand_content(rng, prefix, wide_ok=True):
    """(source bytes of the body, expected code points/values list or None if latitude) for one literal body"""
    n = rng.randrange(0, 6)
    src = b''
    for _ in range(n):
        x = rng.random()
        if x < 0.35:
            src += bytes([rng.choice(b'abcXYZ019 ~!#%&()*+,-./:;<=>?@[]^_{|}')])
        elif x < 0.6:
            c = rng.choice(BOUNDARY_CPS) if rng.random() < 0.6 else rng.randrange(0x80, 0x110000)
            if not is_scalar(c):
                c = 0xE9
            src += ref_utf8(c)
        elif x < 0.75:
            src += b'\\' + rng.choice(list(SIMPLE_ESC)).encode()
        elif x < 0.87:
            src += b'\\' + format(rng.randrange(0, 0o400), 'o').encode()
        else:
            src += b'\\x' + rng.choice([b'', b'', b'0', b'000', b'0000000', b'00000000', b'000000000000']) + \
                format(rng.randrange(0, 0x100 if prefix in ('', 'u8') else (0x10000 if prefix == 'u' else 0x100000000)), 'x').encode()
            # a hex escape takes every following hex digit: end it with a non-hex character
            src += rng.choice([b' ', b'-', b'g'])
    return src

def leg_readers(ctx, corr):
    rng = ctx.rng
    ops = []
    n = 250 if not ctx.thorough else 6000
    for prefix in ('', 'u8', 'u', 'U', 'L'):
        for _ in range(n):
            ops.append('lit ' + (prefix.encode() + b'"' + rand_content(rng, prefix) + b'" rest').hex())
        for c in BOUNDARY_CPS:
            ops.append('lit ' + (prefix.encode() + b'"' + ref_utf8(c) + b'"\n').hex())
    for prefix in ('', 'u', 'U', 'L'):
        for c in BOUNDARY_CPS + [rng.randrange(0x20, 0x110000) for _ in range(40)]:
            if is_scalar(c) and c not in (0x27, 0x5C, 0x0A):
                ops.append('lit ' + (prefix.encode() + b"'" + ref_utf8(c) + b"';").hex())
        for body in ([b'\\' + k.encode() for k in SIMPLE_ESC] + [b'\\0', b'\\377', b'\\x7f', b'\\x80', b'\\xff', b'\\xffff', b'\\xffffffff',
                                                                   b'\\101', b'ab', b'\\e', b'\\x80000000', b'\\x7fffffff']):
            ops.append('lit ' + (prefix.encode() + b"'" + body + b"'+1").hex())
    # error paths
    for t in (b'"abc\n', b'"abc', b"'a", b"'", b'"\\', b'u"\xc3"', b'U"\x80"', b"L'\xe9'", b'"\\xg"', b'@'):
        ops.append('lit ' + t.hex())
    # numbers through the pp-number scan
    for t in ('0x7fffffff+1', '1e+5f;', '0x1p-3L)', '1..2', '12ab;', '1e5e+3', '.5f', '5.', '0b101u,', '077777777777l ', '1E-2',
              '0x0x1f;', '0X0X10u)', '0x0xg', '0xffffffffffffffffffu+1', '99999999999999999999 ', '1_0', '1$', '0x1e+1', '0xep+1'):
        ops.append('lit ' + t.encode().hex())
    run_both(ctx, corr, ops, 'tokenize_literal', lambda op, li: ' str ' in li or ' chr ' in li)
    # join_adjacent_string_literals
    jops = []
    prefixes = ['', 'u8', 'u', 'U', 'L']
    for _ in range(300 if not ctx.thorough else 6000):
        k = rng.randrange(2, 5)
        if rng.random() < 0.8:
            main = rng.choice(prefixes)
            ps = [rng.choice(['', main]) for _ in range(k)]
        else:
            ps = [rng.choice(prefixes) for _ in range(k)]            # mostly diagnosed
        jops.append('join ' + ' '.join((p.encode() + b'"' + rand_content(rng, p).replace(b' ', b'_') + b'"').hex() for p in ps))
    run_both(ctx, corr, jops, 'join_adjacent_string_literals', lambda op, li: not li.startswith('join err'))
    # text phases
    tops, expect = [], {}
    for _ in range(300 if not ctx.thorough else 8000):
        n = rng.randrange(0, 24)
        parts = []
        for _ in range(n):
            parts.append(rng.choice([b'a', b'b', b'1', b' ', b'"', b'\n', b'\r', b'\r\n', b'\\\n', b'\\\r\n', b'\\', b'\\\\', b'\\\r',
                                     b'\\u00e9', b'\\U0001F600', b'\\u12', b'\\u0000', b'\\UFFFFFFFF', b'\xc3\xa9', b'\\uD7FF', b'\\u20AC']))
        t = (b'\xef\xbb\xbf' if rng.random() < 0.3 else b'') + b''.join(parts)
        op = 'text ' + hexs(t)
        tops.append(op)
        ref = ref_phases(t)
        if ref is not None:
            expect[op] = 'text ' + hexs(ref)

    def oracle(op, li):
        w = expect.get(op)
        if w is not None and li != w:
            return {'what': 'BOM / CR / CRLF / backslash-newline / universal-character-name handling is not transparent', 'expected': w}
    run_both(ctx, corr, tops, 'text_phases', lambda op, li: True, oracle)


# ------------------------------------------------------------------------------------------------ leg 4b: adjacent literals as translated, read_file

PREFIXES = ['', 'u8', 'u', 'U', 'L']
ELEM = {'': ('char', 1), 'u8': ('char', 1), 'u': ('ushort', 2), 'U': ('uint', 4), 'L': ('int', 4)}
SAFE_AFTER_ESCAPE = b'~!#%&()*+,-./:;<=>@[]^_{|}ghijklmnopqrstuvwxyzGHIJKLMNOPQRSTUVWXYZ'

def gen_piece(rng, prefix, ucn=True, n=None):
    """one string literal with this prefix: (source bytes, items); item = ('c', code point) for a source character (written in UTF-8
    or, when `ucn`, as a universal character name) or ('e', value) for a simple / octal / hexadecimal escape whose value is in range
    for a narrow literal (narrow pieces) or for the element type (wide pieces); an octal/hex escape is followed by a byte that
    cannot continue it"""
    n = rng.randrange(0, 5) if n is None else n
    body, items, after_esc = b'', [], False
    for _ in range(n):
        x = rng.random()
        if after_esc:
            c = rng.choice(SAFE_AFTER_ESCAPE)
            body += bytes([c]); items.append(('c', c)); after_esc = False
        elif x < 0.25:
            c = rng.choice(b'abcXYZ019 ~!#%&()*+,-./:;<=>@[]^_{|}')
            body += bytes([c]); items.append(('c', c))
        elif x < 0.55:
            c = rng.choice(BOUNDARY_CPS[3:]) if rng.random() < 0.6 else rng.randrange(0xA0, 0x110000)
            if not is_scalar(c):
                c = 0xE9
            if ucn and rng.random() < 0.5:
                body += (('\\u%04X' % c) if c < 0x10000 and rng.random() < 0.8 else ('\\U%08X' % c)).encode()
            else:
                body += ref_utf8(c)
            items.append(('c', c))
        elif x < 0.7:
            k = rng.choice(list(SIMPLE_ESC))
            body += b'\\' + k.encode(); items.append(('e', SIMPLE_ESC[k]))
        elif x < 0.85:
            v = rng.choice([0, 1, 7, 0o10, 0o77, 0o100, 0o177, 0o200, 0o377, rng.randrange(0, 0o400)])
            body += b'\\' + format(v, 'o').encode(); items.append(('e', v)); after_esc = True
        else:
            lim = 0x100 if prefix in ('', 'u8') else (0x10000 if prefix == 'u' else 0x100000000)
            v = rng.choice([0, 0x41, 0x7f, 0x80, 0xff, lim - 1, rng.randrange(0, lim)])
            body += b'\\x' + format(v, rng.choice(['x', 'X'])).encode(); items.append(('e', v)); after_esc = True
    return prefix.encode() + b'"' + body + b'"', items

def ref_units(items, P):
    """C11 6.4.5p6 for the items of a literal with (resulting) prefix P: code units"""
    out = []
    for k, v in items:
        if k == 'e':
            out.append(v & ((1 << (8 * ELEM[P][1])) - 1))
        elif P in ('', 'u8'):
            out += list(ref_utf8(v))
        elif P == 'u':
            out += ref_utf16(v)
        else:
            out.append(v)
    return out

def ref_joined(pieces):
    """C11 6.4.5p5 for a run of adjacent literals [(prefix, items)]: the token line, or None when two different prefixes meet"""
    ps = {p for p, _ in pieces if p}
    if len(ps) > 1:
        return None
    P = ps.pop() if ps else ''
    units = [u for _, items in pieces for u in ref_units(items, P)]
    ty, sz = ELEM[P]
    return 'S:%s:%d:%s' % (ty, len(units) + 1, b''.join(u.to_bytes(sz, 'little') for u in units + [0]).hex())

def prefix_patterns(k):
    """every combination of k prefixes in which all non-empty prefixes agree"""
    out = []
    for P in PREFIXES:
        for bits in itertools.product([False, True], repeat=k):
            pat = tuple(P if b else '' for b in bits)
            if pat not in out:
                out.append(pat)
    return out

def concat_cases(ctx, ucn, per_pattern):
    """[(pieces source list, [(prefix, items)])] for runs of 2-4 literals over every compatible prefix combination"""
    rng = ctx.rng
    out = []
    for k in (2, 3, 4):
        for pat in prefix_patterns(k):
            for _ in range(per_pattern):
                main = next((p for p in pat if p), '')
                srcs, pcs = [], []
                for p in pat:
                    # escapes of a narrow piece stay in narrow range; a wide piece may use its whole range
                    src, items = gen_piece(rng, p, ucn=ucn)
                    srcs.append(src); pcs.append((p, items))
                out.append((srcs, pcs))
    return out

def leg_join(ctx, corr):
    """join_adjacent_string_literals as translated (Gen/StrJoinGen.lean) on whole token lists: model <-> real code byte for byte
    (element type, array_len, the ty->size bytes of the result), and the real code against C11 6.4.5p5/p6 computed here from the
    structure of the generated literals; read_file's tail on files around the 4096-byte read chunk."""
    rng = ctx.rng
    per = 1 if not ctx.thorough else 12
    ops, expect = [], {}
    # (1) token lists: runs of every compatible prefix combination, other tokens between them, escapes in every piece (no UCNs: the text
    #     does not pass the phases here)
    cases = concat_cases(ctx, False, per)
    rng.shuffle(cases)
    i = 0
    while i < len(cases):
        chunks, want = [], []
        for srcs, pcs in cases[i:i + 3]:
            if rng.random() < 0.5:
                chunks.append(rng.choice([b'x', b',', b'42', b"'c'", b'+', b'foo', b'1.5e3'])); want.append('O')
            chunks += srcs; want.append(ref_joined(pcs))
            chunks.append(rng.choice([b';', b')', b'y', b'0x1f'])); want.append('O')
            if rng.random() < 0.4:
                src, items = gen_piece(rng, rng.choice(PREFIXES), ucn=False)
                chunks.append(src); want.append(ref_joined([(src.split(b'"')[0].decode(), items)]))
                chunks.append(b','); want.append('O')
        i += 3
        op = 'joinb ' + ' '.join(c.hex() for c in chunks)
        ops.append(op)
        expect[op] = 'joinb ' + ' '.join(want)
    # (2) all prefix combinations, also the diagnosed ones (model <-> code; C11 makes u8 + wide a constraint violation and two different
    #     wide prefixes implementation-defined, so there is no oracle for those)
    for k in (2, 3) if not ctx.thorough else (2, 3, 4):
        for pat in itertools.product(PREFIXES, repeat=k):
            srcs, pcs = [], []
            for p in pat:
                src, items = gen_piece(rng, p, ucn=False, n=rng.randrange(0, 3))
                srcs.append(src); pcs.append((p, items))
            op = 'joinb ' + ' '.join(c.hex() for c in srcs)
            ops.append(op)
            r = ref_joined(pcs)
            if r is not None:
                expect[op] = 'joinb ' + r
            else:
                corr.count('join_two_prefixes_diagnosed')
    # (3) the same through tokenize_file: universal character names in every piece, BOM / CRLF / splices between the pieces
    for srcs, pcs in concat_cases(ctx, True, per):
        sep = rng.choice([b' ', b'\n', b'\r\n', b' \\\n ', b'  '])
        text = (b'\xef\xbb\xbf' if rng.random() < 0.2 else b'') + b'x = ' + sep.join(srcs) + rng.choice([b' ;\n', b' ;', b' ;\r\n'])
        op = 'filej ' + text.hex()
        ops.append(op)
        expect[op] = 'filej O O ' + ref_joined(pcs) + ' O'
    def oracle(op, li):
        w = expect.get(op)
        if w is not None and li != w:
            return {'what': 'adjacent string literals: element type / array length / bytes are not those of C11 6.4.5p5-6 (widest prefix, every '
                            'piece decoded at that element type, units concatenated, one terminator)', 'expected': w}
    run_both(ctx, corr, ops, 'join_translated', lambda op, li: ' S:' in li, oracle)
    # (4) read_file
    rops, rexp = [], {}
    sizes = [0, 1, 2, 3, 4095, 4096, 4097, 8191, 8192, 8193] + [rng.randrange(0, 9000) for _ in range(12 if not ctx.thorough else 200)]
    for n in sizes:
        for last in (b'\n', b'x', b'\r', b'\\'):
            t = bytes(rng.choice(b'abc \n\r\\"\'0123\xc3\xa9') for _ in range(max(0, n - 1))) + (last if n else b'')
            if rng.random() < 0.1 and n > 2:
                j = rng.randrange(n)
                t = t[:j] + b'\0' + t[j + 1:]
            op = 'rdf ' + hexs(t)
            rops.append(op)
            w = t if t.endswith(b'\n') else t + b'\n'
            rexp[op] = 'rdf ' + (w.split(b'\0')[0] + b'\0').hex()
    # (model <-> code only: C11 5.1.1.2 requires nothing of a file that is empty or does not end in a new-line character; the python
    # statement of the rule is only counted)
    run_both(ctx, corr, rops, 'read_file', lambda op, li: True)
    corr.extra['read_file_rule_cases'] = len(rexp)

# ------------------------------------------------------------------------------------------------ leg 5: splices anywhere (tokenize_file)

SPLICE_WITNESSES = [      # Findings/C11.lean: the hypotheses of C11_text_transparent are necessary (model <-> code only)
    b"'\\\n\n'", b"'\n'", b'\\\n\xef\xbb\xbf1', b'\xef\xbb\\\n\xbf1', b'\xef\xbb\xbf1',
    b'"\\\n\\u005c\na"', b'"\\u005c\na"', b'"abc\\\\\n\n"', b"'a\\\n' x", b'"a\\', b'"a\\\n', b'1\\\n2\\\n3\\\n',
]

def splice_bases(ctx):
    """file contents whose first line starts with a complete literal, followed by harmless tokens and lines"""
    rng = ctx.rng
    out = []
    tails = [b';', b' + x;', b', "tail" )', b' /* c */ + 1', b'']
    more = [b'', b'int y = 2;\n', b'foo("s", 1.5, \'c\')\nbar\n', b'\n\nz\n']
    n = 200 if not ctx.thorough else 4000
    for _ in range(n):
        k = rng.random()
        if k < 0.45:
            prefix = rng.choice(['', 'u8', 'u', 'U', 'L'])
            body = rand_content(rng, prefix)
            if rng.random() < 0.4:
                body += rng.choice([b'\\u00e9', b'\\U0001F600', b'\\u20AC', ref_utf8(0x1F600), ref_utf8(0xE9), b'\\\\', b'\\"'])
            lit = prefix.encode() + b'"' + body + b'"'
        elif k < 0.7:
            prefix = rng.choice(['', 'u', 'U', 'L'])
            c = rng.choice(BOUNDARY_CPS)
            body = rng.choice([ref_utf8(c if is_scalar(c) and c not in (0x27, 0x5C, 0x0A) else 0x41), b'\\n', b'\\x41', b'\\101', b'\\\'', b'\\\\',
                               b'\\u00e9' if prefix else b'\\0'])
            lit = prefix.encode() + b"'" + body + b"'"
        else:
            lit = rng.choice([spell_int(rng.choice([2, 8, 10, 16]), rng.getrandbits(rng.choice([8, 31, 32, 63, 64])), rng).encode() + rng.choice(SUFFIXES).encode(),
                              b'1e+5f', b'0x1p-3L', b'1.5', b'.5e-2', b'0x7fffffff', b'4294967296u'])
        out.append((lit, lit + rng.choice(tails) + b'\n' + rng.choice(more)))
    return out

def leg_splice(ctx, corr):
    """tokenize_file() as a whole (read_file's final newline, BOM, CR/CRLF, splices, UCNs, tokenize) on texts with backslash-newlines
    inserted anywhere: model <-> code on every text; and, inside the region of C11_text_transparent / C11_text_unspliced, the real code
    against the property itself: the first token of the spliced file is the first token of the unspliced one."""
    rng = ctx.rng
    ops, partner, inside, outside = [], {}, {}, set()
    for lit, base in splice_bases(ctx):
        bom = rng.random() < 0.25
        eol = rng.choice([b'\n', b'\n', b'\r\n', b'\r'])
        text = (b'\xef\xbb\xbf' if bom else b'') + base.replace(b'\n', eol)
        if rng.random() < 0.2 and text.endswith(eol):
            text = text[:-len(eol)]                       # no final newline: read_file adds it
        bop = 'file ' + hexs(text)
        ops.append(bop)
        for _ in range(3):
            t = text
            k = rng.randrange(1, 5)
            ok = True
            hit = False
            for _ in range(k):
                pos = rng.randrange(0, len(t) + 1) if rng.random() < 0.5 else rng.randrange(0, min(len(t), len(lit) + 4) + 1)
                sp = b'\\' + (eol if eol != b'\n' and rng.random() < 0.7 else b'\n')
                if pos > 0 and t[pos - 1:pos] == b'\\':
                    ok = False                            # `\\<LF>`: pairs with the earlier backslash (hypothesis of the theorem)
                if bom and pos < 3:
                    ok = False                            # inside / in front of the BOM
                if t[pos - 1:pos] == b'\r' and t[pos:pos + 1] == b'\n':
                    ok = False                            # between the CR and the LF of one line end
                if sp == b'\\\r' and t[pos:pos + 1] == b'\n':
                    ok = False                            # the inserted CR would pair with a following LF
                if (3 if bom else 0) <= pos <= (3 if bom else 0) + len(lit):
                    hit = True
                t = t[:pos] + sp + t[pos:]
            op = 'file ' + hexs(t)
            ops.append(op)
            if ok:
                partner[op] = bop
                if hit:
                    inside[op] = True
            else:
                outside.add(op)
                corr.count('splice_outside_region')
    for w in SPLICE_WITNESSES:
        ops.append('file ' + hexs(w))
    results = {}

    def tok_part(line):
        w = line.split(' ')
        return ' '.join(w[2:]) if len(w) > 2 and w[1] != 'err' else line

    def oracle(op, li):
        results[op] = li
        b = partner.get(op)
        if b is None or b not in results:
            return None
        if tok_part(li) != tok_part(results[b]):
            return {'what': 'a backslash-newline inserted into the file changes the literal token tokenize() reads (C11 5.1.1.2p1(2): the '
                            'splice is deleted before tokenization)', 'expected': 'first token as in the unspliced file: ' + tok_part(results[b])}
    run_both(ctx, corr, ops, 'tokenize_file_splices', lambda op, li: op in inside, oracle, lenient=outside)
    corr.extra['splice_cases_inside_theorem_region'] = len(partner)

def ref_phases(t):
    """reference for the text tokenize() sees (None when the input has UCN latitude: malformed or disallowed UCNs, or a splice/line
    end that creates one)"""
    if not t.endswith(b'\n'):
        t += b'\n'
    if t.startswith(b'\xef\xbb\xbf'):
        t = t[3:]
    t = t.replace(b'\r\n', b'\n').replace(b'\r', b'\n')
    # splices: remove, keep the number of lines by re-adding the newlines after the next newline
    out = b''
    pending = 0
    i = 0
    while i < len(t):
        if t[i:i + 2] == b'\\\n':
            pending += 1
            i += 2
        elif t[i:i + 1] == b'\n':
            out += b'\n' + b'\n' * pending
            pending = 0
            i += 1
        else:
            out += t[i:i + 1]
            i += 1
    out += b'\n' * pending
    # UCNs
    res = b''
    i = 0
    while i < len(out):
        if out[i:i + 2] == b'\\\\':
            res += b'\\\\'; i += 2
        elif out[i:i + 2] in (b'\\u', b'\\U'):
            n = 4 if out[i + 1:i + 2] == b'u' else 8
            h = out[i + 2:i + 2 + n]
            if len(h) != n or not re.fullmatch(rb'[0-9a-fA-F]+', h):
                return None
            c = int(h, 16)
            if c < 0xA0 or not is_scalar(c):
                return None
            res += ref_utf8(c); i += 2 + n
        elif out[i:i + 1] == b'\\':
            res += out[i:i + 2]; i += 2
        else:
            res += out[i:i + 1]; i += 1
    return res

# ------------------------------------------------------------------------------------------------ end-to-end: chibicc vs gcc

PRELUDE = r'''#include <stdio.h>
#include <string.h>
#define TN2(x) _Generic((x), long long:"llong", unsigned long long:"ullong", unsigned short:"ushort", char:"char", float:"float", double:"double", long double:"ldouble", default:"other")
#define TN(x) _Generic((x), int:"int", unsigned:"uint", long:"long", unsigned long:"ulong", default:TN2(x))
#define P(id, x) printf("%d %s %zu %llu\n", id, TN(x), sizeof(x), (unsigned long long)(x))
#define C(id, x) printf("%d %s %zu %lld\n", id, TN(x), sizeof(x), (long long)(x))
#define MASK(n) ((n) >= 8 ? ~0UL : (1UL << (8 * (n))) - 1)
#define D(id, s) do { printf("%d %s %zu %zu", id, TN((s)[0]), sizeof(s), sizeof((s)[0])); \
  for (size_t i_ = 0; i_ < sizeof(s) / sizeof((s)[0]); i_++) printf(" %lx", (unsigned long)(s)[i_] & MASK(sizeof((s)[0]))); printf("\n"); } while (0)
#define F(id, x) do { __typeof__(x) v_ = (x); unsigned char b_[16] = {0}; memcpy(b_, &v_, sizeof(v_) == 16 ? 10 : sizeof(v_)); \
  printf("%d %s %zu", id, TN(x), sizeof(x)); for (int i_ = 0; i_ < 10; i_++) printf(" %02x", b_[i_]); printf("\n"); } while (0)
'''

def compile_run(ctx, name, src_bytes, who):
    path = os.path.join(ctx.scratch, name + '.c')
    with open(path, 'wb') as f:
        f.write(src_bytes)
    exe = os.path.join(ctx.scratch, f'{name}.{who}')
    if who == 'chibicc':
        cmd = [ctx.cc, '-I' + os.path.join(ctx.snapshot, 'include'), '-o', exe, path]
    else:
        cmd = ['gcc', '-std=c11', '-w', '-o', exe, path]
    rc, o, e = sh(cmd, timeout=300)
    if rc != 0:
        return None, 'compile rc=%d: %s' % (rc, (e or o).strip()[-400:])
    rc, o, e = sh([exe], timeout=60)
    if rc != 0:
        return None, f'run rc={rc}'
    return o.splitlines(), ''

def e2e(ctx, corr, tag, items, what, normalise=None, prelude=PRELUDE, chunk=2500):
    """items: list of (statement text, human description).  One program per `chunk` items, one output line per item
    (prefixed by its index)."""
    for k in range(0, len(items), chunk):
        e2e_one(ctx, corr, tag if k == 0 else f'{tag}{k // chunk}', tag, items[k:k + chunk], what, normalise, prelude)

def e2e_one(ctx, corr, name_tag, tag, items, what, normalise, prelude):
    if not items:
        return
    body = prelude.encode() + b'int main(void) {\n'
    for i, (stmt, desc) in enumerate(items):
        body += (stmt if isinstance(stmt, bytes) else stmt.encode()).replace(b'@ID@', str(i).encode()) + b'\n'
    body += b'return 0; }\n'
    name = 'e2e_' + name_tag
    got, err1 = compile_run(ctx, name, body, 'chibicc')
    want, err2 = compile_run(ctx, name, body, 'gcc')
    corr.count('e2e_' + tag, len(items))
    corr.evaluations += len(items)
    if want is None:
        # the oracle rejects the program: a generator bug (latitude not excluded), never a finding about chibicc
        ctx.notes.append(f'e2e {tag}: gcc rejected the generated program ({err2[:300]}); leg skipped')
        corr.count('skipped_oracle_rejects', len(items))
        return
    if got is None:
        # find the item chibicc cannot handle
        bad = None
        for i, (stmt, desc) in enumerate(items[:300]):
            one = prelude.encode() + b'int main(void) {\n' + (stmt if isinstance(stmt, bytes) else stmt.encode()).replace(b'@ID@', b'0') + b'\nreturn 0; }\n'
            g1, e1 = compile_run(ctx, name + '_one', one, 'chibicc')
            if g1 is None:
                w1, _ = compile_run(ctx, name + '_one', one, 'gcc')
                if w1 is not None:
                    bad = (desc, e1, w1)
                    break
        corr.violations.append({'what': f'{what}: chibicc fails on a program gcc -std=c11 accepts', 'input': bad[0] if bad else f'<program {name}.c>',
                                'expected': bad[2] if bad else 'compiles and runs', 'got': bad[1] if bad else err1, 'leg': 'e2e_' + tag,
                                'program': (prelude + 'int main(void) {\n' + str(items[0][0]) + '\nreturn 0; }\n') if not bad else None})
        return
    gm = {l.split(' ', 1)[0]: l for l in got}
    wm = {l.split(' ', 1)[0]: l for l in want}
    for i, (stmt, desc) in enumerate(items):
        g, w = gm.get(str(i)), wm.get(str(i))
        if normalise:
            g, w = normalise(g, corr), normalise(w, None)
        corr.nontrivial.add(f'{tag}:{desc}')
        if g != w and len(corr.violations) < 8:
            corr.violations.append({'what': what, 'input': desc, 'expected': f'gcc -std=c11: {wm.get(str(i))}', 'got': f'chibicc: {gm.get(str(i))}',
                                    'leg': 'e2e_' + tag, 'statement': stmt.decode('utf-8', 'replace') if isinstance(stmt, bytes) else stmt})
    corr.sample({'e2e_' + tag: [items[len(items) // 2][1], gm.get(str(len(items) // 2))]})

def norm_ll(line, corr):
    if line is None:
        return None
    w = line.split(' ')
    if len(w) > 1 and w[1] in COLLAPSE:
        w[1] = COLLAPSE[w[1]]
        if corr is not None:
            corr.count('collapsed_long_long')
    return ' '.join(w)

def e2e_int(ctx, corr):
    items = []
    for base, suf, v, sp in int_cases(ctx):
        if ref_int_type(base, suf, v) is None:
            corr.count('skipped_no_standard_type')
            continue
        items.append((f'P(@ID@, {sp});', sp))
    if not ctx.thorough:
        keep = [it for it in items if any(it[1].rstrip('uUlL') == spell_int(b, v) for v in THRESHOLDS for b in (2, 8, 10, 16))]
        rest = [it for it in items if it not in keep]
        items = keep + ctx.rng.sample(rest, min(len(rest), 150))
    e2e(ctx, corr, 'int', items, 'integer constant: value / type / sizeof differ from gcc -std=c11 (C11 6.4.4.1)', norm_ll)

def x87_then(frac, bits):
    """round a positive rational to 64-bit precision (strtold) and then to `bits` precision; and directly.  Returns (double-rounded, direct)
    as Fractions (exponent range ignored: callers avoid subnormal/overflow cases)."""
    def rnd(q, p):
        if q == 0:
            return q
        e = 0
        # scale to [2^(p-1), 2^p)
        while q >= (1 << p):
            q /= 2; e += 1
        while q < (1 << (p - 1)):
            q *= 2; e -= 1
        n = q.numerator // q.denominator
        r = q - n
        if r > Fraction(1, 2) or (r == Fraction(1, 2) and n % 2 == 1):
            n += 1
        return Fraction(n) * (Fraction(2) ** e)
    return rnd(rnd(frac, 64), bits), rnd(frac, bits)

def float_items(ctx, corr):
    rng = ctx.rng
    items = []
    def value_of(sp):
        if sp.lower().startswith('0x'):
            m = re.fullmatch(r'0[xX]([0-9a-fA-F]*)\.?([0-9a-fA-F]*)[pP]([+-]?\d+)', sp)
            mant = Fraction(int((m.group(1) + m.group(2)) or '0', 16), 16 ** len(m.group(2)))
            return mant * Fraction(2) ** int(m.group(3))
        m = re.fullmatch(r'(\d*)\.?(\d*)(?:[eE]([+-]?\d+))?', sp)
        mant = Fraction(int((m.group(1) + m.group(2)) or '0'), 10 ** len(m.group(2)))
        return mant * Fraction(10) ** int(m.group(3) or 0)
    spellings = ['1.5', '0.1', '.5', '5.', '1e10', '1E-5', '3.14159265358979323846', '1e+2', '0x1p3', '0x1.8p1', '0X.8P+1', '0x1.fffffep127',
                 '0x1.fffffffffffffp1023', '123456789.125', '1e22', '1e23', '9007199254740993.0', '16777217.0', '0.5e-3', '00.5', '09.5',
                 '1e0', '0e0', '0.0', '2.2250738585072014e-308', '1.17549435e-38', '0x1p-126', '0x1p-1022', '4.9406564584124654e-324']
    for _ in range(60 if not ctx.thorough else 1500):
        k = rng.random()
        if k < 0.5:
            spellings.append(f'{rng.randrange(0, 10**rng.randrange(1, 18))}.{rng.randrange(0, 10**rng.randrange(1, 12))}e{rng.randrange(-30, 30)}')
        elif k < 0.75:
            spellings.append(f'0x{rng.getrandbits(rng.randrange(1, 60)):x}.{rng.getrandbits(rng.randrange(1, 40)):x}p{rng.randrange(-60, 60)}')
        else:
            spellings.append(f'{rng.randrange(1, 10**15)}e{rng.randrange(-20, 20)}')
    for sp in spellings:
        v = value_of(sp)
        for suf, bits, emin, emax in (('', 53, -1022, 1024), ('f', 24, -126, 128), ('F', 24, -126, 128), ('l', 64, -16382, 16384), ('L', 64, -16382, 16384)):
            if v != 0:
                a, b = x87_then(v, bits)
                lo, hi = Fraction(2) ** emin, Fraction(2) ** emax
                if a != b or not (lo <= b < hi):
                    corr.count('skipped_rounding_latitude')      # 6.4.4.2p3: either neighbour; subnormal/overflow rounding is libc's
                    continue
            items.append((f'F(@ID@, {sp}{suf});', sp + suf))
    return items

def e2e_float(ctx, corr):
    e2e(ctx, corr, 'float', float_items(ctx, corr), 'floating constant: type / bits differ from gcc -std=c11 (C11 6.4.4.2)')

def esc_src(c, prefix, rng):
    """source spelling of code unit/point c inside a literal with this prefix, or None"""
    forms = []
    limit = {'': 0x100, 'u8': 0x100, 'u': 0x10000, 'U': 0x100000000, 'L': 0x100000000}[prefix]
    if c < limit:
        forms.append(('\\x%x' % c).encode())
        if c < 0o1000:
            forms.append(('\\%o' % c).encode())
    if is_scalar(c) and c >= 0xA0:
        forms.append(ref_utf8(c))
        forms.append(('\\u%04X' % c if c < 0x10000 else '\\U%08X' % c).encode())
    if 0x20 <= c < 0x7F and chr(c) not in '"\\\'?':
        forms.append(bytes([c]))
    return rng.choice(forms) if forms else None

def e2e_chars(ctx, corr):
    rng = ctx.rng
    items = []
    for prefix in ('', 'L', 'u', 'U'):
        for k, v in SIMPLE_ESC.items():
            items.append((f"C(@ID@, {prefix}'\\{k}');", f"{prefix}'\\{k}'"))
        vals = [0, 1, 0x41, 0x7F, 0x80, 0xFF]
        if prefix:
            vals += [0x100, 0xE9, 0x7FF, 0x800, 0x20AC, 0xD7FF, 0xE000, 0xFFFD, 0xFFFF]
        if prefix in ('L', 'U'):
            vals += [0x10000, 0x1F600, 0x10FFFF, 0x7FFFFFFF, 0x80000000, 0xFFFFFFFF]
        for c in vals:
            for form in (('\\x%x' % c).encode(), ('\\%o' % c).encode() if c < 0o1000 else None,
                         ref_utf8(c) if (is_scalar(c) and c >= 0xA0 and prefix) else None,
                         (('\\u%04X' % c) if c < 0x10000 else ('\\U%08X' % c)).encode() if (is_scalar(c) and c >= 0xA0 and c < 0x110000 and prefix) else None,
                         bytes([c]) if 0x20 <= c < 0x7F and chr(c) not in "\\'" else None):
                if form is None:
                    continue
                items.append((b'C(@ID@, ' + prefix.encode() + b"'" + form + b"');", f"{prefix}'" + form.decode('utf-8', 'replace') + "'"))
    # the value of a character constant inside #if (6.10.1p4: the same value as in an expression here; char32_t / char16_t are unsigned,
    # wchar_t is int): boundary values of the U / u / L prefixes, compared with gcc
    for cond in ("U'\\xFFFFFFFF' > 0", "U'\\xFFFFFFFF' == 0xFFFFFFFF", "U'\\xFFFFFFFF' > 0x7FFFFFFF", "U'\\x80000000' > 0", "U'\\x80000000' == 0x80000000",
                 "U'\\x7FFFFFFF' == 0x7FFFFFFF", "U'\\xFFFFFFFF' + 1 == 0x100000000", "u'\\xFFFF' == 65535", "u'\\x8000' > 0", "L'\\x7FFFFFFF' == 0x7FFFFFFF",
                 "U'\\U0010FFFF' == 0x10FFFF", "U'a' == 97"):
        items.append((f'\n#if {cond}\nprintf("@ID@ int 4 1\\n");\n#else\nprintf("@ID@ int 4 0\\n");\n#endif', f'#if {cond}'))
    corr.extra['excluded_by_construction'] = ("never generated (implementation-defined or constraint violations): multi-character constants "
                                              "('ab', plain 'é'), u'' above U+FFFF, escapes out of range for the element type, \\e, "
                                              "UCNs below U+00A0 or in D800-DFFF, invalid UTF-8 in the source, mixed wide prefixes")
    e2e(ctx, corr, 'char', items, 'character constant: value / type differ from gcc -std=c11 (C11 6.4.4.4)', norm_ll)

def string_body(rng, prefix, n=None):
    n = rng.randrange(0, 7) if n is None else n
    src = b''
    for _ in range(n):
        x = rng.random()
        if x < 0.3:
            src += bytes([rng.choice(b'abcXYZ019 ~!#%&()*+,-./:;<=>@[]^_{|}')])
        elif x < 0.45:
            src += b'\\' + rng.choice(list(SIMPLE_ESC)).encode()
        else:
            c = rng.choice(BOUNDARY_CPS + [0, 1, 0x7F, 0xFF, 0x100, 0xFFFF]) if rng.random() < 0.6 else rng.randrange(0, 0x110000)
            f = esc_src(c, prefix, rng)
            if f is None:
                continue
            if f.startswith(b'\\x'):
                # terminate the hex escape: close and reopen the literal (adjacent literals are concatenated after escapes are read)
                src += f + b'" ' + prefix.encode() + b'"'
            elif f.startswith(b'\\') and f[1:2].isdigit():
                src += f + b'" ' + prefix.encode() + b'"'
            else:
                src += f
    return src

def e2e_strings(ctx, corr):
    rng = ctx.rng
    items = []
    for prefix in ('', 'u8', 'u', 'U', 'L'):
        for c in BOUNDARY_CPS:
            for form in (ref_utf8(c), (('\\u%04X' % c) if c < 0x10000 else ('\\U%08X' % c)).encode()):
                if c >= 0xA0 or form == ref_utf8(c):
                    items.append((b'D(@ID@, ' + prefix.encode() + b'"' + form + b'");', f'{prefix}"{form.decode("utf-8", "replace")}"'))
        for k in SIMPLE_ESC:
            items.append((f'D(@ID@, {prefix}"a\\{k}b");', f'{prefix}"a\\{k}b"'))
        for _ in range(40 if not ctx.thorough else 1500):
            b = string_body(rng, prefix)
            items.append((b'D(@ID@, ' + prefix.encode() + b'"' + b + b'");', prefix + '"' + b.decode('utf-8', 'replace') + '"'))
    e2e(ctx, corr, 'string', items, 'string literal: element type / sizeof / code units differ from gcc -std=c11 (C11 6.4.5)')
    # adjacent literals: one prefix kind mixed with unprefixed ones, 2-4 tokens, separated by spaces / newlines / comments
    items = []
    for _ in range(120 if not ctx.thorough else 3000):
        main = rng.choice(['', 'u8', 'u', 'U', 'L'])
        k = rng.randrange(2, 5)
        toks = []
        for _ in range(k):
            p = rng.choice(['', main])
            # the body is written with the widest prefix's escapes only if representable in a narrow literal too
            toks.append(p.encode() + b'"' + string_body(rng, '' if p == '' else main, rng.randrange(0, 4)) + b'"')
        sep = rng.choice([b' ', b'\n', b' /* c */ ', b''])
        lit = sep.join(toks)
        items.append((b'D(@ID@, ' + lit + b');', lit.decode('utf-8', 'replace')))
    # initialisers and pointers
    for prefix, ty in (('', 'char'), ('u8', 'char'), ('u', 'unsigned short'), ('U', 'unsigned'), ('L', 'int')):
        body = ref_utf8(0x20AC) + b'x' + ref_utf8(0x1F600)
        items.append((b'{ ' + ty.encode() + b' a_[] = ' + prefix.encode() + b'"' + body + b'"; D(@ID@, a_); }', f'{ty} a[] = {prefix}"€x😀"'))
        items.append((b'{ static ' + ty.encode() + b' a_[12] = ' + prefix.encode() + b'"' + body + b'" ' + prefix.encode() + b'"z"; D(@ID@, a_); }',
                      f'static {ty} a[12] = {prefix}"€x😀" {prefix}"z"'))
        items.append((b'{ ' + ty.encode() + b' a_[2] = ' + prefix.encode() + b'"xy"; D(@ID@, a_); }', f'{ty} a[2] = {prefix}"xy" (no room for the terminator)'))
    e2e(ctx, corr, 'concat', items, 'adjacent string literals / string initialiser: result differs from gcc -std=c11 (C11 6.4.5p5, 6.7.9p14)')
    # runs of 2-4 literals over every compatible prefix combination, escapes and universal character names in every piece:
    # chibicc <-> gcc (element type through _Generic, sizeof, every code unit) and gcc <-> the translated model (`filej`: read_file,
    # tokenize_file, tokenize, join_adjacent_string_literals as translated), byte for byte
    items, fops = [], []
    for srcs, pcs in concat_cases(ctx, True, 1 if not ctx.thorough else 10):
        sep = rng.choice([b' ', b'\n', b' /* c */ ', b''])
        lit = sep.join(srcs)
        items.append((b'D(@ID@, ' + lit + b');', lit.decode('utf-8', 'replace')))
        fops.append('filej ' + (b' '.join(srcs) + b'\n').hex())
    want_lines = {}
    def keep(line, c):
        if c is None and line is not None:
            want_lines[line.split(' ', 1)[0]] = line
        return line
    e2e(ctx, corr, 'concat_all_prefixes', items, 'adjacent string literals (every prefix combination, escapes and UCNs in each piece): '
        'element type / sizeof / code units differ from gcc -std=c11 (C11 6.4.5p5)', keep, chunk=10 ** 9)
    model = ctx.driver('literals', ''.join(o + '\n' for o in fops)).splitlines()
    GCC_TY = {'char': 'char', 'ushort': 'ushort', 'uint': 'uint', 'int': 'int'}
    for i, op in enumerate(fops):
        w = want_lines.get(str(i))
        if w is None:
            continue
        f = w.split(' ')
        ty, total, esz = f[1], int(f[2]), int(f[3])
        ref = 'filej S:%s:%d:%s' % (GCC_TY.get(ty, ty), total // esz, b''.join(int(u, 16).to_bytes(esz, 'little') for u in f[4:]).hex())
        corr.evaluations += 1
        corr.count('model_vs_gcc_concat')
        if i < len(model) and model[i] != ref and len(corr.disagreements) < 5:
            corr.disagreements.append({'kind': 'model_vs_gcc_concat', 'input': op, 'impl': 'gcc -std=c11: ' + ref, 'model': model[i]})

TEXT_PROGRAM = [
    '#include <stdio.h>',
    '#define ADD(a, b) ((a) + (b))',
    'static int counter_value = 41;',
    'int caf\u00e9 = 7;',
    'int main(void) {',
    '  int total = ADD(counter_value, 1000001);',
    '  printf("%d %s|%d\\n", total, "string with spaces and \\t escape", caf\\u00e9);',
    '  printf("%zu %zu %zu\\n", sizeof("abcdef"), sizeof(u"\u20ac\U0001F600"), sizeof(L"\\U0001F600x"));',
    '  printf("%d %d %ld\\n", 0x7fffffff, \'\\n\', 123456789012L);',
    '  printf("%s\\n", "\\u00e9\\u20AC\\U0001F600" "\u00e9");',
    '  return 0;',
    '}',
]

def mangle(rng, lines, bom, eol, splices):
    out = b'\xef\xbb\xbf' if bom else b''
    for ln in lines:
        b = ln.encode('utf-8')
        if splices and not ln.startswith('#include'):
            # a splice may go anywhere except inside a UCN / right after a backslash (a UCN produced by splicing is undefined, 5.1.1.2p1(2))
            # and not inside a multi-byte UTF-8 sequence
            k = rng.randrange(0, 4)
            for _ in range(k):
                pos = rng.randrange(0, len(b) + 1)
                ctxb = b[max(0, pos - 10):pos + 10]
                if b'\\' in ctxb or any(x >= 0x80 for x in ctxb):
                    continue
                b = b[:pos] + b'\\' + rng.choice([b'\n', b'\r\n'] if eol != 'cr' else [b'\r']) + b[pos:]
        e = {'lf': b'\n', 'crlf': b'\r\n', 'cr': b'\r', 'mix': None}[eol]
        out += b + (e if e else rng.choice([b'\n', b'\r\n', b'\r']))
    return out

def e2e_text(ctx, corr):
    rng = ctx.rng
    clean = '\n'.join(TEXT_PROGRAM).encode('utf-8') + b'\n'
    want, err = compile_run(ctx, 'text_clean', clean, 'gcc')
    base, err1 = compile_run(ctx, 'text_clean', clean, 'chibicc')
    corr.evaluations += 1
    if want is None:
        ctx.notes.append('e2e text: gcc rejected the clean program: ' + err[:200])
        return
    if base != want:
        corr.violations.append({'what': 'program with UCNs / UTF-8 in identifiers and literals behaves differently from gcc -std=c11',
                                'input': clean.decode(), 'expected': want, 'got': base if base is not None else err1, 'leg': 'e2e_text'})
        return
    variants = [(True, 'lf', False), (False, 'crlf', False), (False, 'cr', False), (True, 'crlf', True), (False, 'lf', True), (False, 'cr', True), (True, 'mix', True)]
    for _ in range(12 if not ctx.thorough else 300):
        variants.append((rng.random() < 0.5, rng.choice(['lf', 'crlf', 'cr', 'mix']), True))
    for i, (bom, eol, spl) in enumerate(variants):
        src = mangle(rng, TEXT_PROGRAM, bom, eol, spl)
        got, e1 = compile_run(ctx, f'text_{i}', src, 'chibicc')
        ref, e2 = compile_run(ctx, f'text_{i}', src, 'gcc')
        corr.evaluations += 1
        corr.count('e2e_text')
        corr.nontrivial.add('text:' + hashlib.sha1(src).hexdigest())
        if ref is None or ref != want:
            corr.count('skipped_oracle_rejects')        # gcc itself does not treat this variant as transparent: not a case of the property
            continue
        if got != want and len(corr.violations) < 8:
            corr.violations.append({'what': 'BOM / CR / CRLF / backslash-newline in the source is not transparent (gcc -std=c11 and the clean text agree)',
                                    'input': {'bom': bom, 'eol': eol, 'splices': spl, 'source_hex': src.hex()}, 'expected': want,
                                    'got': got if got is not None else e1, 'leg': 'e2e_text'})
    corr.sample({'e2e_text': {'variants': len(variants), 'output': want}})

def e2e_ident(ctx, corr):
    """identifier characters: chibicc accepts exactly what gcc -std=c11 (Annex D) accepts, as UTF-8 and as UCN"""
    rng = ctx.rng
    pts = set()
    for lo, hi in ANNEX_D1 + ANNEX_D2:
        for x in (lo - 1, lo, hi, hi + 1):
            if x >= 0xA0 and is_scalar(x):
                pts.add(x)
    pts = sorted(pts)
    if not ctx.thorough:
        pts = rng.sample(pts, 24)
    for c in pts:
        for pos in ('start', 'cont'):
            for form in ('utf8', 'ucn'):
                ch = ref_utf8(c) if form == 'utf8' else (('\\u%04X' % c) if c < 0x10000 else ('\\U%08X' % c)).encode()
                name = (ch + b'x') if pos == 'start' else (b'x' + ch)
                src = b'int ' + name + b' = 5;\nint main(void) { return ' + name + b' - 5; }\n'
                path = os.path.join(ctx.scratch, 'ident.c')
                open(path, 'wb').write(src)
                r1, _, e1 = sh([ctx.cc, '-S', '-o', '/dev/null', path], timeout=30)
                r2, _, e2 = sh(['gcc', '-std=c11', '-w', '-fsyntax-only', path], timeout=30)
                s1, s2 = ref_ident(c)
                want = s1 if pos == 'start' else s2
                corr.evaluations += 1
                corr.count('e2e_ident')
                corr.nontrivial.add(f'ident:{c:x}:{pos}:{form}')
                if (r2 == 0) != want:
                    corr.count('skipped_oracle_disagrees_with_annex_d')      # gcc and my reading of Annex D differ: no verdict from this case
                    ctx.notes.append(f'ident U+{c:04X} {pos} {form}: gcc rc={r2} but Annex D says {want}')
                    continue
                if (r1 == 0) != want and len(corr.violations) < 8:
                    corr.violations.append({'what': f'identifier character U+{c:04X} ({pos}, {form}): accepted={r1 == 0}, C11 Annex D and gcc say {want}',
                                            'input': src.decode('utf-8', 'replace'), 'expected': 'accept' if want else 'reject',
                                            'got': 'accept' if r1 == 0 else e1.strip()[-200:], 'leg': 'e2e_ident'})

def run_corpus(ctx, corr):
    d = os.path.join(VERIF, 'corpus', 'C11')
    if not os.path.isdir(d):
        return
    for fn in sorted(os.listdir(d)):
        if not fn.endswith('.c'):
            continue
        src = open(os.path.join(d, fn), 'rb').read()
        got, e1 = compile_run(ctx, 'corpus_' + fn[:-2], src, 'chibicc')
        want, e2 = compile_run(ctx, 'corpus_' + fn[:-2], src, 'gcc')
        corr.evaluations += 1
        corr.count('corpus')
        corr.nontrivial.add('corpus:' + fn)
        if want is not None and got != want:
            corr.violations.append({'what': 'past failure is back: ' + src.decode().split('\n')[0][3:], 'input': f'corpus/C11/{fn}',
                                    'expected': want, 'got': got if got is not None else e1, 'leg': 'corpus'})

# ------------------------------------------------------------------------------------------------ plugin entry points

def correspond(ctx, corr):
    corr.rule = ('(a) in-process: every operation line (encode_utf8 / decode_utf8 / is_ident / UTF-16 units per code point: all 1-/2-/3-/4-byte '
                 'boundaries +-2, surrogate edges, every range-table endpoint +-1, seeded random scalars (thorough: all 0x110000 code points); '
                 'convert_pp_int on threshold x base x suffix spellings, alone and inside a text; libc strtoul against its Lean model and its '
                 'contract; the pp-number arm of tokenize() against the translated scan and the grammar of 6.4.8; read_escaped_char forms; tokenize() on string/char literals of every '
                 'prefix; join_adjacent_string_literals (hand model on single runs; the translated passes on whole token lists with runs of 2-4 '
                 'literals of every compatible prefix combination, every prefix pair/triple incl. the diagnosed ones, escapes in each piece, '
                 'and through tokenize_file with UCNs / BOM / CRLF / splices between the pieces: element type, array_len and every byte '
                 'against the real code and against C11 6.4.5p5-6 computed from the structure of the generated literals); read_file on files '
                 'around the 4096-byte read chunk; BOM/CR/CRLF/splice/UCN texts; from_hex on all bytes, read_universal_char, '
                 'string_literal_end; tokenize_file() as a whole on files with 1-4 backslash-newlines inserted anywhere, whose first token '
                 'must be that of the unspliced file inside the region of C11_text_transparent) is run on the real code (harness, ASan/UBSan) and on the '
                 'Lean model and compared, and the real code is compared with reference codecs / the C11 type table written in python. '
                 '(b) end-to-end: generated programs compiled by chibicc and by gcc -std=c11, outputs (type via _Generic, sizeof, value, code '
                 'units, float bits) compared; runs of 2-4 adjacent literals over every compatible prefix combination with escapes and UCNs in '
                 'each piece additionally compared gcc <-> translated model byte for byte; character constants at the U/u/L boundaries inside '
                 '#if; types compared modulo long long = long.  non-trivial = multi-byte/multi-unit/typed/err results; '
                 'distinct = by operation text / literal spelling.')
    times = {}
    for leg in (run_corpus, leg_codepoints, leg_int, leg_strtoul, leg_ppnumber, leg_escape, leg_translated, leg_readers, leg_join, leg_splice, e2e_int, e2e_float, e2e_chars, e2e_strings, e2e_text, e2e_ident):
        t0 = time.time()
        leg(ctx, corr)
        times[leg.__name__] = round(time.time() - t0, 1)
        log(f'{leg.__name__}: {times[leg.__name__]}s, violations so far {len(corr.violations)}, disagreements {len(corr.disagreements)}')
    corr.extra['leg_seconds'] = times
    corr.exhaustive = bool(ctx.thorough)
    corr.extra['exhaustive_subspace'] = ('all 0x110000 code points through encode_utf8 / decode_utf8 / is_ident1 / is_ident2 / UTF-16 units'
                                         if ctx.thorough else 'none (quick tier samples boundaries)')

def search(ctx, broken, corr):
    """a proof or the tie broke and the standard run saw no violation: exhaustive code points, a larger threshold battery and the larger
    reader / text / splice batteries against the python oracles and gcc"""
    c2 = Corr()
    old = ctx.thorough
    ctx.thorough = True
    try:
        for leg in (leg_translated, leg_escape, leg_int, leg_strtoul, leg_ppnumber, leg_readers, leg_join, leg_splice, leg_codepoints):
            if c2.violations:
                break
            try:
                leg(ctx, c2)
            except ModelBuildFailure:
                # the model does not build (a proof over a regenerated definition broke the library): oracle against the real code only
                run_oracles_only(ctx, c2, leg)
        if not c2.violations:
            e2e_int(ctx, c2); e2e_chars(ctx, c2); e2e_strings(ctx, c2); e2e_text(ctx, c2)
    finally:
        ctx.thorough = old
    return c2.violations[0] if c2.violations else None

def run_oracles_only(ctx, c2, leg):
    """run a leg with the model side replaced by the implementation's own output (so only the oracles can speak)"""
    saved = ctx.driver
    try:
        ctx.driver = lambda sub, text, **kw: '\n'.join(run_impl(ctx, text)) + '\n'
        leg(ctx, c2)
        c2.disagreements.clear()
    finally:
        ctx.driver = saved

def replay(ctx, corr, path):
    payload = json.load(open(path))
    op = payload.get('input')
    corr.evaluations = 1
    if isinstance(op, str) and op.split(' ')[0] in ('enc', 'dec', 'id', 'u16', 'int', 'inta', 'stl', 'ppn', 'esc', 'lit', 'text', 'join', 'joinb', 'filej', 'rdf', 'file', 'fhex', 'ruc', 'sle', 'rsl', 'rcl'):
        li = run_impl(ctx, op + '\n')
        lm = ctx.driver('literals', op + '\n').splitlines()
        print('replay:', op, '->', li[:1], 'model', lm[:1], 'expected', payload.get('expected'))
        exp = payload.get('expected')
        if isinstance(exp, str) and li and not exp.startswith(li[0]):
            corr.violations.append({'what': payload.get('what'), 'input': op, 'expected': exp, 'got': li[0]})
    elif payload.get('statement'):
        items = [(payload['statement'], payload.get('input'))]
        e2e(ctx, corr, 'replay', items, payload.get('what', 'replay'), norm_ll)
        print('replay:', 'still failing' if corr.violations else 'now agrees with gcc')
    else:
        corr.extra['replay'] = 'replay file carries no operation'

MANIFEST = {
    'level_text': 'Lean 4 theorems for all inputs.  Integer constants: the >>31/>>32/>>63 ladder of convert_pp_int equals the C11 6.4.4.1p5 '
                  'table for every base, suffix class and 64-bit value (C11_int_type; the region without a standard type is characterised '
                  'exactly, C11_int_type_region/_excluded); every suffix spelling is recognised (C11_int_suffix); for every spelling '
                  'prefix+digits+suffix, standing anywhere in a text, the token gets the value of its digits and that type — stated about '
                  'convert_pp_int as translated statement by statement from tokenize.c, for every strtoul satisfying a stated contract that '
                  'the libc model satisfies (C11_int_value, C11_int_literal, C11_strtoul_contract, C11_translated_int).  pp-numbers: the '
                  'translated scan of tokenize() takes exactly the longest prefix generated by the grammar of 6.4.8 with identifier-nondigit '
                  'restricted to the Latin letters (C11_ppnumber_maximal; latitude `_`, `$`, bytes >= 0x80 witnessed in Findings).  UTF-8: '
                  'encode_utf8 writes the RFC 3629 bytes for every value < 2^21, decode_utf8 inverts it before any following text, decodes '
                  'the RFC bit layout and rejects misplaced/missing continuation bytes (C11_utf8_layout/_patterns/_roundtrip/_decode/_rejects). '
                  'UTF-16: units of RFC 2781, surrogates in range, recombine (C11_utf16).  Identifiers: is_ident1/is_ident2 equal Annex D for '
                  'every code point (C11_ident_ranges).  Escapes: simple/octal by whole-table decision, hexadecimal for every digit sequence '
                  '(C11_escape, _octal, _hex; C11_escape_translated states them for the function translated from the C source).  String '
                  'literals: for every reader and every body of source characters and escapes the code '
                  'units are the per-character UTF-8/UTF-16/UTF-32 encodings, with array length and token extent (C11_strings, '
                  'C11_string_char); character constants (C11_char_const); per-prefix element types (C11_prefix_types); floating suffix '
                  'types (C11_float_type).  Adjacent literals: kind resolution equals 6.4.5p5, different prefixes are diagnosed, the result is '
                  'the concatenation with one terminator (C11_join_prefix_spec, C11_strings_join, C11_strings_join_diagnosed); these hold of '
                  'join_adjacent_string_literals as translated statement by statement from preprocess.c (C11_translated_join, '
                  'C11_strings_join_translated), whose second pass is proved at byte level: array_len = sum(array_len_i - 1) + 1, str = the units of '
                  'all tokens in memory order followed by exactly one zero unit, no memcpy outside the allocation (C11_join_bytes); the prefix '
                  'table of tokenize() and getStringKind agree (C11_prefix_kinds); from spelling to bytes: for every sequence of literals given by '
                  'prefix and body (source characters, escapes) with compatible prefixes the translated passes return the array of the C11 code '
                  'units of every body item at the prefix of the sequence, one terminator (C11_concat_spec); on a whole token list the two passes '
                  'over all runs return what the run-by-run composition returns (C11_join_tokens).  File bytes -> tokenizer text is one translated function '
                  '(read_file tail, tokenize_file) equal to phase12 (C11_read_file_spec, C11_source_text).  Source '
                  'text: BOM, CR/CRLF/LF lines, splices (logical lines and newline count preserved), universal character names '
                  '(C11_text_bom/_newlines/_splice/_ucn); composition with the tokenizer: the lines tokenize() sees are the logical lines of '
                  'the unspliced phase-1 text with UCNs converted, for any number of splices (C11_text_lines); the literal token is read '
                  'from the first line alone (C11_text_first_line); a backslash-newline anywhere — also inside a universal character name — '
                  'and any number of them do not change the literal token (C11_text_transparent, C11_text_unspliced; the hypotheses are shown '
                  'necessary by kernel-checked counterexamples reproduced on the real tokenizer); the BOM test and the order of the phases '
                  'are translated from clang\'s AST of tokenize_file and proved to be the composition phase12 of those theorems '
                  '(C11_phase_order).  The reader functions from_hex, '
                  'read_escaped_char, read_universal_char, string_literal_end and the three in-place phase loops are translated from the C '
                  'source on every run and proved equal to the functions the theorems are about; for the phase loops this includes that no '
                  'store leaves the text (C11_translated_readers, C11_translated_phases).  The translated functions are run '
                  'against the compiled C (exhaustively over all 0x110000 code points in the thorough tier); the remaining hand models are tied by '
                  'in-process differential execution, including tokenize_file() as a whole on files with splices inserted anywhere; generated '
                  'programs are compiled by chibicc and gcc -std=c11 and compared.',
    'level_note': 'Trusted: Lean kernel (axioms propext, Classical.choice, Quot.sound), the translators, the remaining hand-written parts (the '
                  'iteration of join_adjacent_string_literals over the runs of a token list, the libc stream calls of read_file: tied by testing '
                  'and by requiring their source text), Spec (validated against gcc 12 and python reference codecs), libc strtoul through a stated contract (model tested '
                  'against the real libc), strtold, <ctype.h> in the C locale.  '
                  'Floating-constant values are compared with gcc bit for bit but not modelled.  No open statement.  Types are stated '
                  'modulo long long = long (chibicc has one 64-bit integer type per signedness; only _Generic/pointer compatibility can tell).',
    'technique': 'Lean 4 proof over translator-regenerated codecs/ladders/tables/reader functions/in-place phase loops (bit-vector facts lifted '
                 'from all 256 byte values + omega; range tables decided at their endpoints; induction over literal bodies and over texts; '
                 'refinement of array-rewriting loops to list functions), whole-table decide; in-process differential correspondence; '
                 'gcc -std=c11 as end-to-end oracle',
    'design_ref': 'DESIGN.md section 6, C11',
}
