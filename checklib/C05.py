"""C05 - initializers produce exactly the object value of C11 6.7.9 (parse.c initializer machinery, codegen.c emit_data).

No hooks: everything is observed through compiled programs and `chibicc -S`.
Every generated case is one declared type + one initializer spelling; it is used for a file-scope `static` object and for an
automatic object in the same program, which dumps all bytes of both (addresses are printed symbolically).

  model <-> code : Model/Init.lean through `drv_c05 init` (parser transcription + write_gvar_data + create_lvar_init/codegen store
                   + emit_data) against the bytes of the chibicc-compiled program (ALL bytes, static and automatic) and against the
                   `.byte/.quad` directives of `chibicc -S`                                            -> corr.disagreements
  spec  <-> gcc  : Spec/InitSpec.lean (6.7.9 as cursor semantics) against the bytes of the gcc-compiled program (gcc -std=gnu11)
                                                                                                      -> spec bug, reported as disagreement
  model <-> spec : PROVED (C05_parse_spec_partial, C05_count_partial, C05_flex_count: all declared types incl. a flexible array member,
                   all token lists outside the regions over/xover/wide/reinit the specification computes); additionally tree equality
                   printed by the driver on every case (cross-checks the native driver against the theorem) -> disagreement outside the regions
  code  <-> gcc, static <-> automatic : the property itself, on member bits only (padding masked)     -> corr.violations
"""
import os, json, math, struct, hashlib
from .framework import *

PROPERTY = 'C05'
GEN_MODULES = []
LEAN_TARGETS = ['ChibiVerif.Props.C05', 'ChibiVerif.Findings.C05']
PROPS_FILES = ['ChibiVerif/Props/C05.lean']
NEEDS_HOOKS = False
TRUSTED_BASE = [
    'Lean 4.33.0 kernel; axioms admitted: propext, Classical.choice, Quot.sound (audited per theorem on every run)',
    'hand-written model lean/ChibiVerif/Model/Init.lean (one Lean function per C function of the initializer machinery, the two back ends, '
    'emit_data); tied by differential execution on generated declarations: all bytes of the static and of the automatic object of '
    'chibicc-compiled programs and the .data directives of chibicc -S must equal the model (this leg is testing)',
    'abstraction of the token list of an initializer (ITok) and of initialising expressions (their value after conversion to each '
    'scalar type is an input; that translation-time and run-time evaluation agree is C07/C01/C02) - done by the generator in checklib/C05.py',
    'layout of generated types recomputed in python after struct_decl/union_decl and cross-checked against sizeof of the compiled program (C08 owns layout)',
    'specification lean/ChibiVerif/Spec/InitSpec.lean (my reading of C11 6.7.9p9-p22 + GNU range designators and flexible array members), '
    'validated against gcc 12 on every generated case on every run',
    'gcc 12 + binutils + glibc + the host CPU running the printed programs',
]
ASSUMPTIONS = [
    'flexible array members (GNU: static initialization; no C11 semantics, gcc -std=gnu11 is the judge): gcc lets the array grow with every '
    'initializer, chibicc sizes it when the first initializer reaches it.  Everything after that first initializer except its pure '
    'continuation - the region InitSpec.FlexReinit (a designator naming the member, the cursor coming back to it), a designator INTO the '
    'member before it has a length, any designator after an elided first initializer (count_array_init_elements has run over it) - IS '
    'generated; model <-> chibicc, static <-> automatic and specification <-> gcc are compared on it as everywhere, chibicc <-> gcc is counted '
    '(region:flex-reinit-diverges) and reported as known finding C05-flex-reinit once known_findings.json lists it',
    'padding bytes/bits, bits of a union outside its initialised member, bytes 10..15 of a long double are not compared with gcc (latitude); '
    'the model is compared with chibicc on ALL bytes',
    'excluded (not generated or counted): everything gcc rejects; GNU extensions chibicc rejects (empty braces for unions/scalars ...); range '
    'designators over aggregate elements whose initializer is NOT brace-enclosed/a string AND is followed by a positional initializer (chibicc '
    're-parses the initializer once per element of the range, so the continuation lands in every element; gcc continues after the last one - '
    'GNU extension, no C11 semantics; ranges over aggregate elements with braces, strings, or a designator next ARE generated, together with an '
    'earlier/later designator into one element of the range); non-constant or side-effecting initializers; strings '
    'longer than their array; signed out-of-range conversions; a positional string literal after a designator in the same list (gcc puts it into the designated row: '
    '`char b[3][2] = {[0][1] = 2, "b"}` gives b[0] = "b" - an oracle quirk, chibicc follows the standard); address constants in _Bool/float/bit-field leaves',
    'theorem hypotheses: wf (layout as struct_decl/union_decl produce it for non-packed types) and fits (tree of the shape of the type, address '
    'constants only in 8-byte integer/pointer leaves, no struct/union-valued expressions)',
]

KNOWN_BRACE = 'C05-brace-override-keeps-old'
DRIVER_SUB = 'init'
KNOWN_FLEX = 'C05-flex-reinit'      # region InitSpec.FlexReinit; reported as a known finding once known_findings.json lists it
KNOWN_BRACED = 'C05-braced-string-literal'   # 6.7.9p14/p15: a string literal for a character array may be enclosed in braces
BRACED_STR_SHARE = 0.0 if os.environ.get('C05_NO_BRACED_STR') else 0.06     # the braced_str generator adds 2 x this share of the main cases; the env var is a debugging aid


def known_listed(fid):
    """is the finding listed in known_findings.json? (the file is never written at run time)"""
    try:
        k = json.load(open(os.path.join(VERIF, 'known_findings.json')))
        return any(f.get('id') == fid and f.get('property') == PROPERTY for f in k.get('findings', []))
    except Exception:
        return False

# ============================================================================================ types

class Sc:
    def __init__(self, cname, size, kind, signed=True):
        self.cname, self.size, self.kind, self.signed = cname, size, kind, signed
        self.align = size
    def key(self): return self.cname

INTS = [Sc('char', 1, 'i'), Sc('signed char', 1, 'i'), Sc('unsigned char', 1, 'i', False), Sc('short', 2, 'i'),
        Sc('unsigned short', 2, 'i', False), Sc('int', 4, 'i'), Sc('unsigned', 4, 'i', False), Sc('long', 8, 'i'),
        Sc('unsigned long', 8, 'i', False), Sc('long long', 8, 'i'), Sc('unsigned long long', 8, 'i', False)]
BOOL = Sc('_Bool', 1, 'b', False)
FLTS = [Sc('float', 4, 'f'), Sc('double', 8, 'f'), Sc('long double', 16, 'f')]
PTRS = [Sc('void *', 8, 'p', False), Sc('char *', 8, 'p', False), Sc('const char *', 8, 'p', False), Sc('int *', 8, 'p', False)]
BYNAME = {t.cname: t for t in INTS + [BOOL] + FLTS + PTRS}
BYNAME['unsigned int'] = BYNAME['unsigned']

class Arr:
    def __init__(self, elem, n):      # n None: unknown bound
        self.elem, self.n = elem, n
    @property
    def align(self): return self.elem.align
    @property
    def size(self): return self.elem.size * (self.n or 0)

class Mem:
    def __init__(self, name, ty, bw=None):
        self.name, self.ty, self.bw = name, ty, bw
        self.offset = 0
        self.bitoff = 0

class Agg:
    _n = 0
    def __init__(self, union, members, flex=False):
        self.union, self.members, self.flex = union, members, flex
        Agg._n += 1
        self.tag = f'T{Agg._n}'
        self.layout()
    def layout(self):
        """struct_decl / union_decl of parse.c (non-packed)"""
        align = 1
        if not self.union:
            bits = 0
            for m in self.members:
                sz = m.ty.size
                if m.bw == 0:
                    bits = align_to(bits, sz * 8)
                elif m.bw is not None:
                    if bits // (sz * 8) != (bits + m.bw - 1) // (sz * 8):
                        bits = align_to(bits, sz * 8)
                    m.offset = (bits // 8) // sz * sz
                    m.bitoff = bits % (sz * 8)
                    bits += m.bw
                else:
                    bits = align_to(bits, m.ty.align * 8)
                    m.offset = bits // 8
                    bits += m.ty.size * 8
                if m.bw is not None and m.name is None:
                    continue
                align = max(align, m.ty.align)
            self.align = align
            self.size = align_to(bits, align * 8) // 8
        else:
            size = 0
            for m in self.members:
                if m.bw is not None and m.name is None:
                    size = max(size, (m.bw + 7) // 8)
                    continue
                align = max(align, m.ty.align)
                size = max(size, m.ty.size)
            self.align = align
            self.size = align_to(size, align)

def align_to(n, a):
    return (n + a - 1) // a * a

def is_unnamed_bf(m):
    return m.bw is not None and m.name is None

def ty_words(t):
    """the type in the driver's syntax"""
    if isinstance(t, Sc):
        return ['s', str(t.size), t.kind]
    if isinstance(t, Arr):
        return (['inc'] if t.n is None else ['a', str(t.n)]) + ty_words(t.elem)
    w = ['un' if t.union else 'st', str(t.size), '1' if t.flex else '0', str(len(t.members))]
    for m in t.members:
        w += ['m', m.name or '-', str(m.offset)]
        w += [str(m.bitoff), str(m.bw)] if m.bw is not None else ['-', '-']
        w += ty_words(m.ty)
    return w

def ty_defs(t, out, seen):
    """C definitions of every struct/union in t (innermost first)"""
    if isinstance(t, Arr):
        ty_defs(t.elem, out, seen)
    elif isinstance(t, Agg) and t.tag not in seen:
        seen.add(t.tag)
        body = []
        for m in t.members:
            if isinstance(m.ty, Agg) and m.name is None:
                body.append(agg_body(m.ty, out, seen) + ';')
            else:
                ty_defs(m.ty, out, seen)
                body.append(decl(m.ty, m.name or '', t.flex and m is t.members[-1]) + (f' : {m.bw}' if m.bw is not None else '') + ';')
        out.append(f"{'union' if t.union else 'struct'} {t.tag} {{ {' '.join(body)} }};")

def agg_body(t, out, seen):
    """anonymous struct/union member, written in place"""
    body = []
    for m in t.members:
        if isinstance(m.ty, Agg) and m.name is None:
            body.append(agg_body(m.ty, out, seen) + ';')
        else:
            ty_defs(m.ty, out, seen)
            body.append(decl(m.ty, m.name or '') + (f' : {m.bw}' if m.bw is not None else '') + ';')
    return f"{'union' if t.union else 'struct'} {{ {' '.join(body)} }}"

def decl(t, name, flex=False):
    dims = ''
    while isinstance(t, Arr):
        dims += '[]' if (t.n is None or flex) else f'[{t.n}]'
        flex = False
        t = t.elem
    if isinstance(t, Agg):
        base = f"{'union' if t.union else 'struct'} {t.tag}"
    else:
        base = t.cname
    sep = '' if base.endswith('*') else ' '
    return f'{base}{sep}{name}{dims}'.rstrip()

# ============================================================================================ expressions / tokens

def f80_bits(x):
    sign = 1 if math.copysign(1.0, x) < 0 else 0
    if x == 0:
        return sign << 79
    m, e = math.frexp(abs(x))
    return (sign << 79) | ((e - 1 + 16383) << 64) | int(m * 2 ** 64)

def f32_bits(x):
    return struct.unpack('<I', struct.pack('<f', x))[0]

def f64_bits(x):
    return struct.unpack('<Q', struct.pack('<d', x))[0]

class Ex:
    """an initialising constant expression: C text + what the model is told about it"""
    def __init__(self, c, ival=0, fval=None, label=None, strbytes=None, strid=None, esz=1, as_string=False):
        self.c, self.ival, self.label = c, ival, label
        self.fval = float(ival) if fval is None else fval
        self.strbytes, self.strid, self.esz, self.as_string = strbytes, strid, esz, as_string
    def words(self):
        if self.as_string:
            return ['str', str(self.strid), str(self.esz), self.strbytes.hex() or '-']
        if self.label is not None:
            return ['ea', self.label, str(self.ival)]
        nz = 1 if (self.fval != 0 or self.ival != 0) else 0
        return ['e', str(self.ival), str(nz), str(f32_bits(self.fval)), str(f64_bits(self.fval)), str(f80_bits(self.fval))]

# tokens: '{' '}' ',' '=' ('.', name) ('[', a) ('[..', a, b) Ex

def tok_words(toks):
    w = []
    for t in toks:
        if isinstance(t, str):
            w.append(t)
        elif isinstance(t, Ex):
            w += t.words()
        elif t[0] == '.':
            w.append('.' + t[1])
        elif t[0] == '[':
            w += ['i', str(t[1])]
        else:
            w += ['r', str(t[1]), str(t[2])]
    return w

def tok_c(toks):
    out = []
    for t in toks:
        if isinstance(t, str):
            out.append(t)
        elif isinstance(t, Ex):
            out.append(t.c)
        elif t[0] == '.':
            out.append('.' + t[1])
        elif t[0] == '[':
            out.append(f'[{t[1]}]')
        else:
            out.append(f'[{t[1]} ... {t[2]}]')
    return ' '.join(out)

# the objects address constants point to (defined in every program)
PRELUDE_OBJS = ('struct G { int x; char c[3]; long m; int arr[4]; struct { char p; struct { short q; int r[3]; } in; long w; } n; };\n'
                'struct G g; int arr[5]; char carr[10]; int gfun(void) { return 7; }\n')
ADDR_FORMS = [  # (C text, label, addend)
    ('&g', 'g', 0), ('&g.m', 'g', 8), ('&g.c[1]', 'g', 5), ('&g.arr[2]', 'g', 24), ('g.arr', 'g', 16), ('g.arr + 1', 'g', 20),
    ('(char *)&g + 3', 'g', 3), ('&arr[2]', 'arr', 8), ('arr + 1', 'arr', 4), ('arr', 'arr', 0), ('&arr[4] - 1', 'arr', 12),
    ('&carr[3]', 'carr', 3), ('carr + 9', 'carr', 9), ('carr', 'carr', 0), ('(void *)&g', 'g', 0), ('&*arr', 'arr', 0),
    # member paths of two and three levels (the offsets of ALL members on the path add up), also through -> and with an addend
    ('&g.n.p', 'g', 32), ('&g.n.in.q', 'g', 36), ('&g.n.in.r[2]', 'g', 48), ('g.n.in.r + 1', 'g', 44), ('&g.n.w', 'g', 56),
    ('(char *)&g.n.in.q + 1', 'g', 37), ('&(&g)->n.in.r[1]', 'g', 44), ('&g.n.in', 'g', 36), ('(char *)&g.n + 3', 'g', 35),
]

class Gen:
    """type-directed generator of (type, initializer spelling)"""
    def __init__(self, rng, thorough=False, brace_strings=False):
        self.rng = rng
        self._brace_strings = brace_strings      # write `{ "..." }` for character arrays in line (the braced_str generator only:
                                                 # the main generator's random stream stays what it was before the family existed)
        self.strid = 0
        self.features = set()

    # ------------------------------------------------------------------ types
    def scalar(self, allow_ptr=True):
        r = self.rng.random()
        if r < 0.55:
            return self.rng.choice(INTS)
        if r < 0.63:
            return BOOL
        if r < 0.82 or not allow_ptr:
            return self.rng.choice(FLTS)
        return self.rng.choice(PTRS)

    def ty(self, depth):
        r = self.rng.random()
        if depth <= 0 or r < 0.30:
            return self.scalar()
        if r < 0.40:
            # arrays a string literal can initialise
            return Arr(self.rng.choice([BYNAME['char'], BYNAME['char'], BYNAME['unsigned char'], BYNAME['signed char'], BYNAME['unsigned short'],
                                        BYNAME['int'], BYNAME['unsigned']]), self.rng.choice([1, 2, 3, 4, 6]))
        if r < 0.55:
            return Arr(self.ty(depth - 1), self.rng.choice([1, 2, 2, 3, 3, 4, 5]))
        return self.agg(depth, union=r > 0.85)

    def agg(self, depth, union=False, flex=False):
        n = self.rng.choice([1, 2, 2, 3, 3, 4, 5])
        ms = []
        names = iter('abcdefghijklmnop')
        for i in range(n):
            r = self.rng.random()
            if r < 0.22:
                base = self.rng.choice(INTS + [BOOL])
                maxw = 1 if base is BOOL else base.size * 8
                r2 = self.rng.random()
                if r2 < 0.12 and not union:
                    ms.append(Mem(None, base, 0)); self.features.add('zero-width-bitfield')
                elif r2 < 0.3:
                    ms.append(Mem(None, base, self.rng.randint(1, maxw))); self.features.add('unnamed-bitfield')
                else:
                    ms.append(Mem(next(names), base, self.rng.randint(1, maxw))); self.features.add('bitfield')
            elif r < 0.30 and depth > 1:
                sub = self.agg(depth - 1, union=self.rng.random() < 0.5)
                # anonymous member: its member names must not clash with ours
                used = set('abcdefghijklmnop')
                self.rename(sub, 'x' + str(len(ms)))
                ms.append(Mem(None, sub)); self.features.add('anonymous-member')
            else:
                ms.append(Mem(next(names), self.ty(depth - 1)))
        if all(m.name is None and m.bw is not None for m in ms):
            ms.append(Mem(next(names), self.scalar()))
        if flex:
            ms.append(Mem(next(names), Arr(self.ty(min(depth - 1, 1)), 0)))
            if all(is_unnamed_bf(m) for m in ms[:-1]):
                ms.insert(0, Mem('q', self.rng.choice(INTS)))
        return Agg(union, ms, flex)

    def rename(self, agg, prefix):
        for m in agg.members:
            if m.name is not None:
                m.name = prefix + m.name
            elif isinstance(m.ty, Agg):
                self.rename(m.ty, prefix + 'y')

    def top_type(self):
        r = self.rng.random()
        depth = self.rng.choice([1, 2, 2, 3, 3, 4])
        if r < 0.12:
            self.features.add('unknown-bound')
            return Arr(self.ty(depth - 1), None)
        if r < 0.20:
            self.features.add('flexible-member')
            return self.agg(depth, flex=True)
        if r < 0.27:
            return self.scalar()
        if r < 0.55:
            return Arr(self.ty(depth - 1), self.rng.choice([1, 2, 3, 4, 6]))
        return self.agg(depth, union=r > 0.88)

    # ------------------------------------------------------------------ 6.7.9 cursor (generator side)
    def child(self, t, k):
        if isinstance(t, Arr):
            return t.elem
        return t.members[k].ty

    def sub(self, root, path):
        t = root
        for k in path:
            t = self.child(t, k)
        return t

    def growable(self, root, top, path):
        t = self.sub(root, path)
        if not isinstance(t, Arr):
            return False
        if t.n is None:
            return True
        return top and isinstance(root, Agg) and root.flex and len(path) == 1 and path[0] == len(root.members) - 1

    def first_sub(self, root, top, path):
        t = self.sub(root, path)
        if isinstance(t, Arr):
            return 0 if (t.n or self.growable(root, top, path)) else None
        if isinstance(t, Agg):
            for i, m in enumerate(t.members):
                if not is_unnamed_bf(m):
                    return i
        return None

    def next(self, root, top, path):
        while path:
            parent, i = path[:-1], path[-1]
            t = self.sub(root, parent)
            if isinstance(t, Arr):
                if self.growable(root, top, parent) or i + 1 < t.n:
                    return parent + [i + 1]
            elif not t.union:
                for j in range(i + 1, len(t.members)):
                    if not is_unnamed_bf(t.members[j]):
                        return parent + [j]
            path = parent
        return None

    # ------------------------------------------------------------------ values
    def int_const(self, t, width=None, signed=None):
        rng = self.rng
        bits = width if width is not None else t.size * 8
        signed = t.signed if signed is None else signed
        lo, hi = (-(1 << (bits - 1)), (1 << (bits - 1)) - 1) if signed else (0, (1 << bits) - 1)
        r = rng.random()
        if r < 0.15: v = hi
        elif r < 0.28: v = lo
        elif r < 0.36: v = 0
        elif r < 0.45: v = -1 if signed else hi
        elif r < 0.55 and not signed: v = rng.choice([hi + 1 + rng.randint(0, 5), (1 << 64) - 1]) if bits < 64 else hi   # unsigned wrap
        else: v = rng.randint(max(lo, -100000), min(hi, 100000))
        if 0x100000 <= (v & ((1 << 64) - 1)) < 0x100000000000:
            v = 77                                           # never something that looks like an address in the dumps
        return self.spell_int(v)

    def spell_int(self, v):
        rng = self.rng
        if v == -(1 << 63): return Ex('(-9223372036854775807L - 1)', v)
        if v == -(1 << 31): return Ex('(-2147483647 - 1)', v)
        if v > (1 << 63) - 1: return Ex(f'{v}UL', v - (1 << 64) if False else v)
        r = rng.random()
        if v >= 0 and r < 0.15: return Ex(hex(v) + ('L' if v > 0x7fffffff else ''), v)
        if 32 <= v < 127 and chr(v) not in "'\\" and r < 0.4: return Ex(f"'{chr(v)}'", v)
        if r < 0.5 and abs(v) < 1000: return Ex(f'({v - 3} + 3)', v)
        if v > 0x7fffffff or v < -0x80000000: return Ex(f'{v}L', v)
        return Ex(str(v), v)

    def flt_const(self):
        rng = self.rng
        v = rng.choice([0.0, 1.0, -1.0, 0.5, -2.25, 3.75, 1024.0, 1e10, -0.125, 255.0, 65536.5, 7.0])
        r = rng.random()
        s = repr(v)
        if r < 0.25: return Ex(s + 'f', int(v), v)
        if r < 0.4: return Ex(s + 'L', int(v), v)
        return Ex(s, int(v), v)

    def value_for(self, t, bw=None, allow_string=True):
        """constant expression for a scalar leaf of type t (bit-field of width bw)"""
        rng = self.rng
        if t.kind == 'p':
            r = rng.random()
            if r < 0.15: return Ex(rng.choice(['0', '(void *)0']), 0)
            if r < 0.35 and allow_string:
                self.features.add('string-address')
                return self.string_addr()
            self.features.add('address-constant')
            c, label, add = rng.choice(ADDR_FORMS)
            return Ex(c, add, label=label)
        if t.kind == 'f':
            if rng.random() < 0.7: return self.flt_const()
            return self.spell_int(rng.choice([0, 1, -1, 2, 100, -77, 4096, 16777216]))
        if t.kind == 'b':
            r = rng.random()
            if bw is not None:
                # a _Bool bit-field initialised with a value other than 0/1 is tagged by the caller
                return self.spell_int(rng.choice([0, 1, 1, 2, 3, 256]))
            if r < 0.25: return self.flt_const()
            return self.spell_int(rng.choice([0, 1, 1, 2, 256, -1, 65536]))
        if bw is not None:
            return self.int_const(t, width=bw)
        if rng.random() < 0.08:
            v = rng.choice([0.0, 1.0, 2.75, -3.5, 100.25, 127.0])
            if t.signed or v >= 0:
                return Ex(repr(v), int(v), v)
        if t.size == 8 and rng.random() < 0.06:
            self.features.add('address-constant')
            c, label, add = rng.choice(ADDR_FORMS)
            return Ex(f'(long)({c})', add, label=label)
        return self.int_const(t)

    def string_addr(self):
        self.strid += 1
        txt = 's%dq' % self.strid
        ex = Ex('"%s"' % txt, 0, label='.str%d' % self.strid, strbytes=txt.encode() + b'\0', strid=self.strid)
        if self.rng.random() < 0.3:
            ex.c += ' + 1'; ex.ival = 1
        return ex

    def string_for(self, elem, n):
        """string literal for an array of n elements (n None: unknown bound) of integer type elem"""
        rng = self.rng
        self.strid += 1
        cap = 6 if n is None else n
        r = rng.random()
        if n is not None and r < 0.3: ln = n             # exact fit: no room for the terminator
        elif n is not None and r < 0.55: ln = n - 1      # exact fit with terminator
        else: ln = rng.randint(0, max(0, cap - 1))
        ln = max(0, min(ln, cap))
        if elem.size == 1:
            pool = [ord(c) for c in 'abcxyz019 _'] + [0x80, 0xff, 0x7f, 1]
            cps = [rng.choice(pool) for _ in range(ln)]
            body = ''.join(chr(c) if 32 <= c < 127 else '\\%03o' % c for c in cps)
            prefix = rng.choice(['', '', 'u8']) if all(c < 128 for c in cps) else ''
            raw = bytes(cps) + b'\0'
        else:
            pool = [ord(c) for c in 'abcXYZ09'] + [0xe9, 0x4e2d, 0xffff] + ([0x1f600, 0x10ffff] if elem.size == 4 else [])
            cps = [rng.choice(pool) for _ in range(ln)]
            body = ''.join(chr(c) if 32 <= c < 127 else ('\\u%04x' % c if c < 0x10000 else '\\U%08x' % c) for c in cps)
            if elem.size == 2:
                prefix = 'u'
            else:
                prefix = 'L' if elem.signed else 'U'
            raw = b''.join(c.to_bytes(elem.size, 'little') for c in cps + [0])
        self.features.add('string-' + (prefix or 'plain'))
        if n is not None and ln == n:
            self.features.add('string-no-terminator')
        return Ex(prefix + '"' + body + '"', 0, strbytes=raw, strid=self.strid, esz=elem.size, as_string=True)

    def str_elem_ok(self, elem):
        if not isinstance(elem, Sc) or elem.kind != 'i':
            return False
        if elem.size == 1: return True
        if elem.size == 2: return elem.cname == 'unsigned short'
        if elem.size == 4: return elem.cname in ('int', 'unsigned')
        return False

    def braced_str(self, elem, n, notes, comma=None):
        """6.7.9p14/p15: `{ string-literal }` / `{ string-literal , }` for an array of n elements (None: unknown bound) of the
        character type elem (the literal has the element width of the array: str_elem_ok); tagged `braced_str`"""
        ex = self.string_for(elem, n)
        notes.add('braced_str')
        self.features.add('braced-string')
        toks = ['{', ex]
        if (self.rng.random() < 0.35) if comma is None else comma:
            toks.append(',')
            self.features.add('braced-string-trailing-comma')
        return toks + ['}']

    def brace_strings(self):
        return self._brace_strings and BRACED_STR_SHARE > 0

    # ------------------------------------------------------------------ initializer spellings
    def leaf_info(self, root, path):
        """(scalar type, bit width) of the leaf at path"""
        t = root
        bw = None
        for k in path:
            if isinstance(t, Agg):
                bw = t.members[k].bw
            else:
                bw = None
            t = self.child(t, k)
        return t, bw

    def plain(self, root, top, path, notes, allow_string=True):
        """an initializer without braces for the subobject at path: descend (p20); returns (token, leaf path).
        When the subobject at path ITSELF (no descent: a `{` opens the current subobject) is a character array, the string literal
        may come enclosed in braces (6.7.9p14): then the first component is the token list `{ str [,] }`"""
        rng = self.rng
        path0 = path
        while True:
            t = self.sub(root, path)
            if isinstance(t, Sc):
                t, bw = self.leaf_info(root, path)
                ex = self.value_for(t, bw, allow_string)
                if t.kind == 'b' and bw is not None and ex.ival not in (0, 1):
                    notes.add('bool-bitfield-not-01')
                return ex, path
            if allow_string and isinstance(t, Arr) and self.str_elem_ok(t.elem) and rng.random() < 0.6 and (t.n is None or t.n > 0 or self.growable(root, top, path)):
                n = None if self.growable(root, top, path) else t.n
                if path is path0 and self.brace_strings() and rng.random() < 0.25:
                    return self.braced_str(t.elem, n, notes), path
                return self.string_for(t.elem, n), path
            k = self.first_sub(root, top, path)
            if k is None:
                return None, path
            if path:
                self.features.add('brace-elision')
            path = path + [k]

    def designator(self, root, top):
        """random designator list relative to the current object: (tokens, [paths])"""
        rng = self.rng
        toks, paths = [], [[]]
        t = root
        depth = 0
        while True:
            if isinstance(t, Agg):
                cands = []
                def collect(a, pre):
                    for i, m in enumerate(a.members):
                        if m.name is not None:
                            cands.append((m.name, pre + [i]))
                        elif isinstance(m.ty, Agg) and m.bw is None:
                            collect(m.ty, pre + [i])
                collect(t, [])
                if not cands:
                    break
                name, p = rng.choice(cands)
                if len(p) > 1:
                    self.features.add('designator-into-anonymous')
                toks.append(('.', name))
                paths = [q + p for q in paths]
                if t.union:
                    self.features.add('union-designator')
                t = self.sub(t, p)
            elif isinstance(t, Arr):
                g = self.growable(root, top, paths[0])
                hi = 5 if g else t.n - 1
                if hi < 0:
                    break
                a = rng.randint(0, hi)
                if isinstance(t.elem, Sc) and rng.random() < 0.4 and a < hi:
                    b = rng.randint(a, hi)
                    toks.append(('[..', a, b))
                    paths = [q + [k] for q in paths for k in range(a, b + 1)]
                    self.features.add('range-designator')
                    t = t.elem
                    depth += 1
                    break
                toks.append(('[', a))
                paths = [q + [a] for q in paths]
                t = t.elem
            else:
                break
            depth += 1
            if depth >= 1 and rng.random() < 0.5:
                break
        if depth >= 2:
            self.features.add('nested-designator')
        return toks, paths

    def braced(self, t, top, depth, notes, bw=None):
        """a brace-enclosed initializer list for a current object of type t (bw: it is a bit-field of that width)"""
        rng = self.rng
        toks = ['{']
        if isinstance(t, Sc):
            ex = self.value_for(t, bw)
            toks.append(ex)
            if rng.random() < 0.2: toks.append(',')
            return toks + ['}']
        if (isinstance(t, Arr) and self.str_elem_ok(t.elem) and (t.n is None or t.n > 0) and self.brace_strings()
                and rng.random() < 0.2):
            return self.braced_str(t.elem, t.n, notes)
        cur = [self.first_sub(t, top, [])] if self.first_sub(t, top, []) is not None else None
        nleaves = self.count_leaves(t)
        target = rng.choice([0, 1, 2, nleaves // 2, nleaves, nleaves, nleaves + 1]) if rng.random() < 0.5 else rng.randint(0, min(nleaves + 1, 9))
        if isinstance(t, Agg) and t.union:
            # `{}` on a union is a GNU extension chibicc rejects; second and third initializers (6.7.9p19: the last one wins;
            # parse.c union_rest since /repo e1837fd) are generated as a matter of course
            target = rng.choice([1, 1, 1, 2, 2, 3])
        items = 0
        pdes = rng.choice([0.0, 0.0, 0.15, 0.4, 0.8])
        seen_paths = []
        after_desg = False          # gcc puts a positional string literal that follows a nested designator into the designated row
        # (`char b[3][2] = {[0][1] = 2, "b"}` gives b[0] = "b"): an oracle quirk, so no positional strings after a designator
        flex_member = len(t.members) - 1 if (top and isinstance(t, Agg) and t.flex) else None
        flex_used = False
        flex_state = None           # None: untouched; 'elided': first initializer without braces (the rest of the list continues it);
        # 'closed': first initializer brace-enclosed or a string literal
        while items < max(target, 0) + 0 and items < 12:
            desg = []
            paths = None
            if isinstance(t, (Agg, Arr)) and rng.random() < pdes:
                desg, paths = self.designator(t, top)
                if not desg:
                    paths = None
            if paths is None:
                if cur is None:
                    if rng.random() < 0.25:
                        self.features.add('excess-initializer')
                        if items: toks.append(',')
                        toks.append(self.spell_int(rng.randint(1, 9)))
                        items += 1
                    break
                paths = [cur]
            else:
                self.features.add('designator')
                if seen_paths and any(p < q for p in paths for q in seen_paths):
                    self.features.add('out-of-order-designator')
            if flex_member is not None and paths[0][:1] == [flex_member]:
                # GNU: static initialization of a flexible array member.  gcc lets the array grow with every initializer; chibicc
                # sizes it when the first initializer reaches it.  A pure continuation of an elided first initializer is inside the
                # theorem; anything else after the first initializer is the region FlexReinit (generated, attributed).
                if flex_state is None:
                    if len(paths[0]) > 1:
                        # a designator INTO the unresolved member: chibicc rejects it (no length yet)
                        if rng.random() < 0.3:
                            notes.add('flex-designator-into-unresolved')
                        else:
                            break
                else:
                    continuation = (not desg) and flex_state == 'elided' and len(paths[0]) >= 2
                    if not continuation:
                        if rng.random() < 0.5:
                            self.features.add('flex-reinit')
                        else:
                            break
                flex_used = True
            elif flex_member is not None and flex_state == 'elided':
                # a designator after an elided first initializer of the flexible member: count_array_init_elements ran over it
                if rng.random() < 0.3:
                    notes.add('flex-elided-then-designator')
                else:
                    break
            sub = self.sub(t, paths[0])
            pbrace = 0.45 if isinstance(sub, (Agg, Arr)) else 0.06
            if flex_member is not None and paths[0] == [flex_member]:
                pbrace = 0.85
            # `[index] value` without `=` is an (obsolete) GNU spelling gcc still accepts; `.member value` is not
            item = list(desg) + (['='] if desg and not (desg[-1][0] != '.' and rng.random() < 0.06) else [])
            if desg and not item[-1:] == ['=']:
                self.features.add('designator-without-equals')
            if rng.random() < pbrace and depth > 0:
                # braces: the whole subobject
                g = self.growable(t, top, paths[0])
                st = Arr(sub.elem, None) if g else sub
                sub_toks = self.braced(st, False, depth - 1, notes, self.leaf_info(t, paths[0])[1] if isinstance(sub, Sc) else None)
                if (flex_member is not None and paths[0][:1] == [flex_member] and flex_state is not None
                        and not any(isinstance(x, Ex) for x in sub_toks)):
                    # `.f = {}` over an initialised flexible member: gcc keeps the old elements (an empty constructor adds nothing),
                    # 6.7.9p19 read literally empties it - no reference semantics, not generated
                    break
                item += sub_toks
                last = paths[-1]
                if any(self.touched_prefix(seen_paths, p) for p in paths):
                    notes.add('maybe-override')
                if flex_member is not None and paths[0][:1] == [flex_member] and flex_state is None:
                    flex_state = 'closed' if paths[0] == [flex_member] else 'elided'
            else:
                if len(paths) > 1 and not isinstance(sub, Sc):
                    break
                ex, leaf = self.plain(t, top, paths[0], notes, allow_string=bool(desg) or not after_desg)
                if ex is None:
                    break
                if isinstance(ex, list):          # `{ string-literal }` for the character array at paths[0]
                    item += ex
                    if any(self.touched_prefix(seen_paths, p) for p in paths):
                        notes.add('maybe-override')
                else:
                    item.append(ex)
                last = paths[-1] + leaf[len(paths[0]):]
                if flex_member is not None and leaf[:1] == [flex_member]:
                    flex_used = True
                    if flex_state is None:
                        flex_state = 'closed' if ((isinstance(ex, list) or ex.as_string) and leaf == [flex_member]) else 'elided'
            if items: toks.append(',')
            toks += item
            seen_paths += paths
            items += 1
            after_desg = after_desg or bool(desg)
            cur = self.next(t, top, last)
            if flex_member is not None and flex_used and cur is not None and cur[:1] == [flex_member] and not isinstance(item[-1], Ex):
                cur = None
        if rng.random() < 0.3 and items:
            toks.append(','); self.features.add('trailing-comma')
        if isinstance(t, (Agg, Arr)) and items < nleaves:
            self.features.add('short-list')
        if isinstance(t, Agg) and t.union and items >= 2:
            notes.add('union-multi-init')
        return toks + ['}']

    def touched_prefix(self, seen, p):
        return any(q[:len(p)] == p or p[:len(q)] == q for q in seen)

    def count_leaves(self, t):
        if isinstance(t, Sc): return 1
        if isinstance(t, Arr): return (t.n if t.n is not None else 3) * self.count_leaves(t.elem)
        if t.union:
            for m in t.members:
                if not is_unnamed_bf(m): return self.count_leaves(m.ty)
            return 0
        return sum(self.count_leaves(m.ty) for m in t.members if not is_unnamed_bf(m))

    # ------------------------------------------------------------------ range designators over aggregate elements
    def range_case(self):
        """`[a ... b]` over struct / array / character-array elements, combined with an earlier and/or a later designator
        into ONE element of the range (the elements of a range are separate objects: 6.7.9p19 applies to each on its own).
        chibicc parses the initializer of a range once per element; gcc (the judge for this GNU extension) stores one
        initializer in every element and continues after the last.  The two agree when the initializer is brace-enclosed or a
        string literal, or when the next initializer of the list starts with a designator (or the list ends); only those
        spellings are generated."""
        rng = self.rng
        self.features = set(['range-designator', 'range-over-aggregate', 'designator'])
        notes = set()
        n = rng.choice([3, 4, 4, 5])
        kind = rng.choice(['struct', 'struct', 'array', 'string', 'nested'])
        if kind == 'struct':
            ms = [Mem(nm, rng.choice([BYNAME['int'], BYNAME['char'], BYNAME['long'], BYNAME['short'], BYNAME['unsigned char']]))
                  for nm in 'abc'[:rng.choice([2, 3])]]
            elem = Agg(False, ms)
        elif kind == 'array':
            elem = Arr(rng.choice([BYNAME['int'], BYNAME['short'], BYNAME['long']]), rng.choice([2, 3]))
        elif kind == 'string':
            elem = Arr(BYNAME['char'], rng.choice([3, 4]))
        else:
            inner = Agg(False, [Mem('a', BYNAME['int']), Mem('b', BYNAME['char'])])
            elem = Agg(False, [Mem('t', BYNAME['char']), Mem('p', Arr(inner, 2)), Mem('s', BYNAME['short'])])
        arr = Arr(elem, n)
        wrap = rng.random() < 0.3
        if wrap:
            root = Agg(False, [Mem('k', BYNAME['int']), Mem('v', arr), Mem('z', BYNAME['char'])])
            pre_t, pre_p = [('.', 'v')], [1]
        else:
            root, pre_t, pre_p = arr, [], []
        a = rng.randint(0, n - 2)
        b = rng.randint(a + 1, n - 1)
        def leaf_desg(j):
            """designator list + value for one scalar leaf inside element j"""
            toks, path, t = list(pre_t) + [('[', j)], list(pre_p) + [j], elem
            while not isinstance(t, Sc):
                if isinstance(t, Arr):
                    k = rng.randint(0, t.n - 1)
                    toks.append(('[', k)); path.append(k); t = t.elem
                else:
                    k = rng.randint(0, len(t.members) - 1)
                    toks.append(('.', t.members[k].name)); path.append(k); t = t.members[k].ty
            return toks + ['=', self.value_for(t, None, False)], path
        items = []
        before = rng.random() < 0.55
        after = rng.random() < 0.75 or not before
        touched = []
        if before:
            it, pth = leaf_desg(rng.randint(a, b))
            items.append(it); touched.append(pth)
            self.features.add('range-after-element-designator')
        rt = list(pre_t) + [('[..', a, b)]
        r = rng.random()
        must_desg_next = False
        if kind == 'string' and r < 0.5:
            items.append(rt + ['='] + [self.string_for(elem.elem, elem.n)])
            self.features.add('range-string')
            if touched: notes.add('maybe-override')
        elif r < 0.7:
            items.append(rt + ['='] + self.braced(elem, False, 2, notes))
            self.features.add('range-braced')
            if touched: notes.add('maybe-override')
        else:
            # a further designator into every element of the range, then one scalar; the next initializer must start with a designator
            toks, t = list(rt), elem
            while not isinstance(t, Sc):
                if isinstance(t, Arr):
                    k = rng.randint(0, t.n - 1)
                    toks.append(('[', k)); t = t.elem
                else:
                    k = rng.randint(0, len(t.members) - 1)
                    toks.append(('.', t.members[k].name)); t = t.members[k].ty
            items.append(toks + ['=', self.value_for(t, None, False)])
            self.features.add('range-with-suffix')
            must_desg_next = True
        if after:
            it, pth = leaf_desg(rng.randint(a, b))
            items.append(it)
            self.features.add('element-designator-after-range')
        elif not must_desg_next and rng.random() < 0.4 and b + 1 < n:
            ex, _ = self.plain(root, True, pre_p + [b + 1], notes, allow_string=False)
            if ex is not None:
                items.append([ex]); self.features.add('brace-elision')
        toks = ['{']
        for i, it in enumerate(items):
            if i: toks.append(',')
            toks += it
        toks.append('}')
        return {'ty': root, 'toks': toks, 'features': sorted(self.features), 'notes': sorted(notes)}

    # ------------------------------------------------------------------ several relocations per object
    def reloc_case(self):
        """address constants inside unions, nested aggregates and arrays, several per object: write_gvar_data threads one
        relocation cursor through the whole object (every branch must return the cursor of its recursive call), emit_data
        consumes the list in address order; the static object is compared with its automatic twin and with gcc"""
        rng = self.rng
        self.features = set(['address-constant', 'several-relocations'])
        notes = set()
        ptr = lambda: rng.choice(PTRS)
        def punion():
            ms = [Mem('p', ptr()), Mem('n', rng.choice([BYNAME['long'], BYNAME['unsigned long'], BYNAME['int']]))]
            if rng.random() < 0.5: ms.reverse()
            return Agg(True, ms)
        def pstruct():
            return Agg(False, [Mem('a', ptr()), Mem('b', rng.choice([ptr(), BYNAME['int'], BYNAME['long']])), Mem('c', ptr())][:rng.choice([2, 3])])
        def sunion():
            return Agg(True, [Mem('s', pstruct()), Mem('n', BYNAME['long'])])
        pieces = [punion, pstruct, sunion, ptr, lambda: Arr(punion(), rng.choice([2, 3])), lambda: Arr(ptr(), rng.choice([2, 3])),
                  lambda: Arr(sunion(), 2)]
        r = rng.random()
        if r < 0.3:
            t = Arr(rng.choice([punion, sunion, pstruct])(), rng.choice([2, 3, 4]))
        else:
            n = rng.choice([2, 3, 4])
            ms = [Mem('m%d' % i, rng.choice(pieces)()) for i in range(n)]
            ms.append(Mem('z', ptr()))
            t = Agg(False, ms)
        self.features.add('union-reloc')
        toks = self.braced(t, True, 4, notes)
        return {'ty': t, 'toks': toks, 'features': sorted(self.features), 'notes': sorted(notes)}

    # ------------------------------------------------------------------ braced string literals (6.7.9p14/p15)
    STR_ELEMS = ['char', 'char', 'char', 'signed char', 'unsigned char', 'unsigned short', 'int', 'unsigned']

    def braced_str_case(self):
        """`{ string-literal }` / `{ string-literal , }` initialising an array of character type of the literal's element width
        (char/signed char/unsigned char with "..."/u8"...", unsigned short with u"...", int with L"...", unsigned with U"..."):
        the whole object, an array of unknown bound, a member of a struct/union, an element of an array of arrays, after a
        designator, and overriding an earlier initializer of the same array (6.7.9p19; the specification flags that as `over`
        exactly as it does for a string without braces).  Lengths as string_for picks them: shorter, exact with and without
        terminator, empty."""
        rng = self.rng
        self.features = set(['braced-string-family'])
        notes = set()
        elem = BYNAME[rng.choice(self.STR_ELEMS)]
        n = rng.choice([1, 2, 3, 4, 4, 6])
        carr = Arr(elem, n)
        other = lambda: rng.choice([BYNAME['int'], BYNAME['char'], BYNAME['long'], BYNAME['short'], BYNAME['double'], BYNAME['unsigned char']])
        bs = lambda nn=n, e=elem: self.braced_str(e, nn, notes)
        lit = lambda nn=n, e=elem: [self.string_for(e, nn)]
        def join(items):
            toks = ['{']
            for i, it in enumerate(items):
                if i: toks.append(',')
                toks += it
            if items and rng.random() < 0.25:
                toks.append(','); self.features.add('trailing-comma')
            return toks + ['}']
        kind = rng.choice(['top', 'top', 'unknown', 'unknown', 'member', 'member', 'rows', 'rows', 'rows-unknown', 'desg-member',
                           'desg-index', 'override-member', 'override-index', 'override-top-level-list', 'union', 'nested', 'flex'])
        self.features.add('braced-string:' + kind)
        if kind == 'top':
            t, toks = carr, bs()
        elif kind == 'unknown':
            self.features.add('unknown-bound')
            t, toks = Arr(elem, None), bs(None)
        elif kind == 'member':
            ms = [Mem('a', other()), Mem('s', carr), Mem('z', other())]
            k = rng.choice([0, 1, 2])
            ms = ms[:1] * (k > 0) + [ms[1]] + ms[2:] * (k < 2) if rng.random() < 0.5 else ms
            t = Agg(False, ms)
            items = []
            for m in t.members:
                if m.name == 's':
                    items.append(bs())
                else:
                    if rng.random() < 0.15:
                        self.features.add('short-list'); break
                    items.append([self.value_for(m.ty, None, False)])
            toks = join(items)
        elif kind in ('rows', 'rows-unknown'):
            rows = rng.choice([2, 2, 3])
            t = Arr(carr, None if kind == 'rows-unknown' else rows)
            if t.n is None: self.features.add('unknown-bound')
            written = rng.randint(1, rows)
            items = []
            for i in range(written):
                r = rng.random()
                # (a positional string literal without braces directly after braces is fine; gcc's quirk needs a designator)
                items.append(bs() if r < 0.7 or i == 0 else lit() if r < 0.85 else self.braced(carr, False, 1, notes))
            if written < rows: self.features.add('short-list')
            toks = join(items)
        elif kind == 'desg-member':
            t = Agg(False, [Mem('a', other()), Mem('s', carr), Mem('z', other()), Mem('w', Arr(elem, rng.choice([2, 3, 5])))])
            self.features.add('designator')
            order = rng.choice([['s'], ['w', 's'], ['z', 's'], ['s', 'a'], ['w', 's', 'z']])
            if order != sorted(order, key='aszw'.index): self.features.add('out-of-order-designator')
            items = []
            for nm in order:
                m = next(x for x in t.members if x.name == nm)
                if isinstance(m.ty, Arr):
                    items.append([('.', nm), '='] + bs(m.ty.n))
                else:
                    items.append([('.', nm), '=', self.value_for(m.ty, None, False)])
            if order[-1] == 's' and rng.random() < 0.5:
                items.append([self.value_for(t.members[2].ty, None, False)])      # the cursor continues after the array: .z
            toks = join(items)
        elif kind == 'desg-index':
            rows = rng.choice([2, 3, 4])
            unknown = rng.random() < 0.3
            t = Arr(carr, None if unknown else rows)
            if unknown: self.features.add('unknown-bound')
            self.features.add('designator')
            idx = rng.sample(range(rows), rng.randint(1, min(rows, 3)))
            if idx != sorted(idx): self.features.add('out-of-order-designator')
            items = [[('[', i)] + ['='] + bs() for i in idx]
            if rng.random() < 0.4 and (unknown or idx[-1] + 1 < rows):
                items.append(bs())                                                   # positional: the row after the designated one
            toks = join(items)
        elif kind == 'override-member':
            t = Agg(False, [Mem('a', other()), Mem('s', carr), Mem('z', other())])
            self.features.add('designator')
            notes.add('maybe-override')
            first = rng.choice(['pos-lit', 'pos-braced', 'desg-lit', 'desg-braced', 'desg-list', 'desg-elem'])
            items = []
            if first.startswith('pos'):
                items.append([self.value_for(t.members[0].ty, None, False)])
                items.append(lit() if first == 'pos-lit' else bs())
            elif first == 'desg-list':
                items.append([('.', 's'), '=', '{'] + sum([[self.int_const(elem), ','] for _ in range(rng.randint(1, n))], []) + ['}'])
            elif first == 'desg-elem':
                items.append([('.', 's'), ('[', rng.randint(0, n - 1)), '=', self.int_const(elem)])
            else:
                items.append([('.', 's'), '='] + (lit() if first == 'desg-lit' else bs()))
            items.append([('.', 's'), '='] + bs())
            if rng.random() < 0.4:
                items.append([self.value_for(t.members[2].ty, None, False)])
            toks = join(items)
        elif kind == 'override-index':
            rows = rng.choice([2, 3])
            t = Arr(carr, rows)
            self.features.add('designator')
            notes.add('maybe-override')
            i = rng.randint(0, rows - 1)
            items = [bs() if rng.random() < 0.5 else lit() for _ in range(i + 1)]   # rows 0..i positionally
            items.append([('[', i), '='] + bs())
            toks = join(items)
        elif kind == 'override-top-level-list':
            # the array is the declared object; an element designator first, then nothing else can name the whole array: instead
            # the array sits in a one-member struct / one-row array and is overridden there
            t = Arr(carr, 1)
            self.features.add('designator')
            notes.add('maybe-override')
            items = [[('[', 0), ('[', rng.randint(0, n - 1)), '=', self.int_const(elem)], [('[', 0), '='] + bs()]
            toks = join(items)
        elif kind == 'union':
            ms = [Mem('s', carr), Mem('n', other())]
            if rng.random() < 0.5: ms.reverse()
            t = Agg(True, ms)
            if ms[0].name == 's' and rng.random() < 0.5:
                toks = join([bs()])
            else:
                self.features.update(['designator', 'union-designator'])
                toks = join([[('.', 's'), '='] + bs()])
        elif kind == 'nested':
            inner = Agg(False, [Mem('s', carr), Mem('b', other())])
            t = Agg(False, [Mem('k', other()), Mem('v', Arr(inner, 2)), Mem('z', other())])
            r = rng.random()
            if r < 0.5:
                toks = join([[self.value_for(t.members[0].ty, None, False)],
                             join([join([bs(), [self.value_for(inner.members[1].ty, None, False)]]), join([bs()])])])
            else:
                self.features.update(['designator', 'nested-designator'])
                j = rng.randint(0, 1)
                toks = join([[('.', 'v'), ('[', j), ('.', 's'), '='] + bs(), [self.value_for(inner.members[1].ty, None, False)]])
        else:
            # flexible array member of character type (GNU static initialization; gcc -std=gnu11 is the judge): first and only initializer
            self.features.add('flexible-member')
            t = Agg(False, [Mem('a', other()), Mem('f', Arr(elem, 0))], flex=True)
            toks = join([[self.value_for(t.members[0].ty, None, False)], bs(None)]) if rng.random() < 0.6 else \
                join([[('.', 'f'), '='] + bs(None)])
            if isinstance(toks[1], tuple): self.features.add('designator')
        return {'ty': t, 'toks': toks, 'features': sorted(self.features), 'notes': sorted(notes)}

    def case_b(self):
        """the braced_str generator (its own Gen with its own random stream): the dedicated shapes, or any case with strings braced in line"""
        if self.rng.random() < 0.7:
            return self.braced_str_case()
        return self.case()

    def case(self):
        r0 = self.rng.random()
        if r0 < 0.07:
            return self.range_case()
        if r0 < 0.12:
            return self.reloc_case()
        self.features = set()
        notes = set()
        t = self.top_type()
        rng = self.rng
        if isinstance(t, Sc):
            if rng.random() < 0.7:
                ex, _ = self.plain(t, True, [], notes)
                toks = [ex]
            else:
                toks = self.braced(t, True, 3, notes)
                self.features.add('braced-scalar')
        elif isinstance(t, Arr) and self.str_elem_ok(t.elem) and rng.random() < 0.5:
            toks = [self.string_for(t.elem, t.n)]
        else:
            toks = self.braced(t, True, 4, notes)
        return {'ty': t, 'toks': toks, 'features': sorted(self.features), 'notes': sorted(notes)}

# ============================================================================================ programs

DUMP_C = r'''
int printf(const char *, ...);
extern char __executable_start, _end;
''' + PRELUDE_OBJS + r'''
static void dump(int id, int kind, void *p, long n) {
  unsigned char *b = p;
  printf("D %d %c %ld ", id, kind, n);
  for (long i = 0; i < n; i++) printf("%02x", b[i]);
  for (long i = 0; i + 8 <= n; i += 8) {
    char *q = *(char **)(b + i);
    if (q >= (char *)&g && q < (char *)&g + sizeof(g)) printf(" %ld=g%+ld", i, (long)(q - (char *)&g));
    else if (q >= (char *)arr && q < (char *)arr + sizeof(arr)) printf(" %ld=arr%+ld", i, (long)(q - (char *)arr));
    else if (q >= carr && q < carr + sizeof(carr)) printf(" %ld=carr%+ld", i, (long)(q - carr));
    else if (q >= &__executable_start && q < &_end - 8) {
      printf(" %ld=S:", i);
      for (int k = 0; k < 8; k++) printf("%02x", (unsigned char)q[k]);
    }
  }
  printf("\n");
}
static void dirty(void) { volatile unsigned char junk[4096]; for (int i = 0; i < 4096; i++) junk[i] = 0xa5; }
'''

def case_source(k, case, size, for_gcc):
    """C text of case k: definitions, static object, function with the automatic object"""
    t = case['ty']
    defs = []
    ty_defs(t, defs, set())
    init = tok_c(case['toks'])
    flex = isinstance(t, Agg) and t.flex
    lines = list(defs)
    lines.append(f"static {decl(t, 's%d' % k)} = {init};")
    body = [f"dump({k}, 's', &s{k}, {size});", f'printf("Z {k} s %ld\\n", (long)sizeof(s{k}));']
    if not (flex and for_gcc):        # gcc: "non-static initialization of a flexible array member"
        body = [f"{decl(t, 'a%d' % k)} = {init};"] + body + [f"dump({k}, 'a', &a{k}, {size});", f'printf("Z {k} a %ld\\n", (long)sizeof(a{k}));']
    lines.append(f"static void case{k}(void) {{ {' '.join(body)} }}")
    return lines

def build_program(cases, sizes, for_gcc):
    """returns (text, line -> case index)"""
    lines = DUMP_C.strip('\n').split('\n')
    owner = {}
    for k, c in enumerate(cases):
        if c is None:
            continue
        for l in case_source(k, c, sizes[k], for_gcc):
            lines.append(l)
            owner[len(lines)] = k
    lines.append('int main(void) {')
    for k, c in enumerate(cases):
        if c is not None:
            lines.append(f'  dirty(); case{k}();')
    lines.append('  return 0; }')
    return '\n'.join(lines) + '\n', owner

def parse_dumps(out):
    """{(case, kind): (bytes, {offset: symbolic})}"""
    res = {}
    for line in out.splitlines():
        w = line.split()
        if len(w) == 4 and w[0] == 'Z':
            res[(int(w[1]), 'sizeof_' + w[2])] = int(w[3])
            continue
        if len(w) < 4 or w[0] != 'D':
            continue
        n = int(w[3])
        data = bytes.fromhex(w[4]) if n > 0 and len(w) > 4 and '=' not in w[4] else b''
        ann = {}
        for a in w[4 if n == 0 else 5:]:
            if '=' in a:
                o, s = a.split('=', 1)
                ann[int(o)] = s
        res[(int(w[1]), w[2])] = (data, ann)
    return res

def model_cells(text):
    """driver cells -> list of ints / ('sym', label, addend, k) / None (junk)"""
    out = []
    for c in text.split():
        if c == '??':
            out.append(None)
        elif c.startswith('@'):
            m = re.match(r'@(.+?)([+-]\d+)#(\d+)$', c)
            out.append(('sym', m.group(1), int(m.group(2)), int(m.group(3))))
        else:
            out.append(int(c, 16))
    return out

def symbolize(data, ann, strings):
    """bytes of a real dump -> same representation as model_cells, using the program's own pointer annotations"""
    cells = list(data)
    for off, s in ann.items():
        if s.startswith('S:'):
            content = bytes.fromhex(s[2:])
            # which string literal (and which offset inside it) starts with these bytes?
            hit = None
            for sid, raw in strings.items():
                for add in (0, 1):
                    want = raw[add:add + 8]
                    if want and content[:len(want)] == want:
                        hit = ('.str%d' % sid, add)
                        break
                if hit:
                    break
            if hit is None:
                continue
            label, add = hit
        else:
            m = re.match(r'(\w+)([+-]\d+)$', s)
            label, add = m.group(1), int(m.group(2))
        for k in range(8):
            cells[off + k] = ('sym', label, add, k)
    return cells

def masked_equal(a, b, mask):
    """compare two cell lists on the bits of mask; returns first differing offset or None"""
    if len(a) != len(b):
        return -1
    for i, (x, y) in enumerate(zip(a, b)):
        m = mask[i] if i < len(mask) else 0
        if m == 0:
            continue
        if isinstance(x, int) and isinstance(y, int):
            if (x ^ y) & m:
                return i
        elif x != y:
            return i
    return None

def show_cells(cells):
    return ' '.join('%02x' % c if isinstance(c, int) else ('??' if c is None else '@%s%+d#%d' % c[1:]) for c in cells)

def parse_answer(line):
    d = {'raw': line}
    for part in line.split(' | '):
        k, _, v = part.partition(' ')
        d[k] = v
    return d

def asm_objects(asm):
    """label -> list of directives ('b', n) / ('q', label, addend) / ('z', n) of every data object in chibicc -S output"""
    objs, cur = {}, None
    for line in asm.splitlines():
        s = line.strip()
        m = re.match(r'^([.\w$]+):$', s)
        if m:
            cur = objs.setdefault(m.group(1), [])
            continue
        if cur is None:
            continue
        m = re.match(r'\.byte (-?\d+)$', s)
        if m:
            cur.append(('b', int(m.group(1)) & 255)); continue
        m = re.match(r'\.quad (.+?)([+-]\d+)$', s)
        if m:
            cur.append(('q', m.group(1), int(m.group(2)))); continue
        m = re.match(r'\.zero (\d+)$', s)
        if m:
            cur.append(('z', int(m.group(1)))); continue
        if s.startswith('.') and not s.startswith('.L'):
            if not (s.startswith('.type') or s.startswith('.size') or s.startswith('.align') or s.startswith('.local') or s.startswith('.globl')
                    or s.startswith('.data') or s.startswith('.bss') or s.startswith('.section')):
                cur = None
        elif s:
            cur = None
    return objs

class Runner:
    def __init__(self, ctx, corr):
        self.ctx, self.corr = ctx, corr
        self.n = 0

    def compile_run(self, cc_cmd, text, owner, tag):
        """compile+run; returns (dumps, rejected case indices or None if compiled)"""
        self.n += 1
        src = os.path.join(self.ctx.scratch, f'p{self.n}_{tag}.c')
        exe = src[:-2]
        open(src, 'w').write(text)
        rc, o, e = sh(cc_cmd + ['-o', exe, src], timeout=120)
        if rc != 0:
            bad = set()
            for m in re.finditer(r'p\d+_\w+\.c:(\d+)', e):
                ln = int(m.group(1))
                if ln in owner and ('error' in e or tag == 'c'):
                    bad.add(owner[ln])
            if tag == 'g':
                bad = set()
                for m in re.finditer(r'p\d+_\w+\.c:(\d+):\d+: error', e):
                    if int(m.group(1)) in owner:
                        bad.add(owner[int(m.group(1))])
            return None, bad, e
        rc, o, e2 = sh([exe], timeout=60)
        if rc != 0:
            return {}, set(), f'program exited with {rc}: {e2[-300:]}'
        return parse_dumps(o), set(), ''

    def run_batch(self, cases):
        """cases: list of case dicts.  Fills in case['result'] for each."""
        ctx, corr = self.ctx, self.corr
        lines = [' '.join(ty_words(c['ty']) + ['|'] + tok_words(c['toks'])) for c in cases]
        answers = ctx.driver(DRIVER_SUB, '\n'.join(lines) + '\n').splitlines()
        if len(answers) != len(cases):
            corr.disagreements.append({'kind': 'driver', 'what': f'{len(answers)} answers for {len(cases)} lines'})
            return
        for c, l, a in zip(cases, lines, answers):
            c['line'] = l
            c['model'] = parse_answer(a)
            c['ctext'] = f"{decl(c['ty'], 'x')} = {tok_c(c['toks'])};"
            defs = []
            ty_defs(c['ty'], defs, set())
            c['cdefs'] = ' '.join(defs)
        sizes = []
        for c in cases:
            m = re.match(r'ok size=(-?\d+)', c['model'].get('parse', ''))
            if m:
                sizes.append(max(0, int(m.group(1))))
            else:
                sm = c['model'].get('spec', '')
                sizes.append(len(sm.split(' over=')[0].split()) if sm and not sm.startswith('fail') else c['ty'].size)
        # the gcc-compiled program dumps as many bytes as the SPECIFICATION's object has (they differ inside the regions only)
        gsizes = []
        for c, sz in zip(cases, sizes):
            sm = c['model'].get('spec', '')
            gsizes.append(len(sm.split(' over=')[0].split()) if sm and not sm.startswith('fail') and ' over=' in sm else sz)
        # ---- chibicc
        live = list(cases)
        cd, crej = self.loop_compile([ctx.cc], live, sizes, False, 'c')
        gd, grej = self.loop_compile(['gcc', '-std=gnu11', '-w', '-O0'], live, gsizes, True, 'g')
        asm_objs = self.asm_of(live, sizes, crej)
        for k, c in enumerate(cases):
            self.judge(k, c, cd, crej, gd, grej, asm_objs)

    def loop_compile(self, cmd, cases, sizes, for_gcc, tag):
        rejected = {}
        cur = list(cases)
        for attempt in range(len(cases) + 1):
            text, owner = build_program([c if i not in rejected else None for i, c in enumerate(cur)], sizes, for_gcc)
            dumps, bad, err = self.compile_run(cmd, text, owner, tag)
            if dumps is not None:
                if err:
                    self.corr.count(f'{tag}_program_crashed')
                    # find the crashing case by running singly
                    dumps = {}
                    for i, c in enumerate(cur):
                        if i in rejected:
                            continue
                        t1, o1 = build_program([c if j == i else None for j in range(len(cur))], sizes, for_gcc)
                        d1, b1, e1 = self.compile_run(cmd, t1, o1, tag)
                        if d1 is None or e1:
                            rejected[i] = 'crash: ' + (e1 or '')[:200]
                        else:
                            dumps.update(d1)
                return dumps, rejected
            if not bad:
                # could not attribute the error: try cases one by one
                for i, c in enumerate(cur):
                    if i in rejected:
                        continue
                    t1, o1 = build_program([c if j == i else None for j in range(len(cur))], sizes, for_gcc)
                    d1, b1, e1 = self.compile_run(cmd, t1, o1, tag)
                    if d1 is None:
                        rejected[i] = e1.strip().splitlines()[-1][:200] if e1.strip() else 'rejected'
                continue
            for i in bad:
                msg = [l for l in err.splitlines() if 'error' in l or '^' in l]
                rejected[i] = (msg[-1] if msg else err.strip().splitlines()[-1] if err.strip() else 'rejected').strip()[:200]
        return {}, rejected

    def asm_of(self, cases, sizes, crej):
        text, owner = build_program([c if i not in crej else None for i, c in enumerate(cases)], sizes, False)
        self.n += 1
        src = os.path.join(self.ctx.scratch, f'p{self.n}_s.c')
        open(src, 'w').write(text)
        rc, o, e = sh([self.ctx.cc, '-S', '-o', '-', src], timeout=120)
        return asm_objects(o) if rc == 0 else {}

    # ------------------------------------------------------------------ verdicts
    def judge(self, k, c, cd, crej, gd, grej, asm_objs):
        corr = self.corr
        corr.evaluations += 1
        m = c['model']
        t = c['ty']
        for f in c['features']:
            corr.count('feature:' + f)
        for f in c['notes']:
            corr.count('note:' + f)
        bstr = 'braced_str' in c['notes']       # contains `{ string-literal [,] }` for a character array of the literal's width
        if bstr:
            corr.count('braced_str')
        key = hashlib.sha1(c['line'].encode()).hexdigest()
        if any(isinstance(x, tuple) for x in c['toks']) or 'brace-elision' in c['features'] or 'string-no-terminator' in c['features']:
            corr.nontrivial.add(key)
        if bstr:
            corr.nontrivial.add(key)
        inp = {'decl': c['ctext'], 'types': c['cdefs'], 'driver_line': c['line']}
        strings = {x.strid: x.strbytes for x in c['toks'] if isinstance(x, Ex) and x.strbytes is not None}
        parse_ok = m.get('parse', '').startswith('ok')
        spec_txt = m.get('spec', '')
        spec_ok = bool(spec_txt) and not spec_txt.startswith('fail')
        over = ' over=1' in spec_txt
        xover = ' xover=1' in spec_txt      # region AggExprOverride (not generated: expressions of struct/union type)
        if over:
            corr.count('region:brace-override')
        if xover:
            corr.count('region:agg-expr-override')
        wide = ' wide=1' in spec_txt
        if wide:
            corr.count('wide-range-designator')
        reinit = ' reinit=1' in spec_txt    # region FlexReinit: a second initializer for the flexible array member

        flexnote = bool({'flex-elided-then-designator', 'flex-designator-into-unresolved'} & set(c['notes']))
        if reinit:
            corr.count('region:flex-reinit')
        # the native driver against two kernel-checked theorems (C05_reloc_cursor, C05_flex_size)
        fx = m.get('flex', '')
        if fx:
            if 'cursor=0' in fx:
                corr.disagreements.append({'kind': 'driver-vs-theorem', 'what': 'C05_reloc_cursor', 'input': {'driver_line': c['line']}})
            mm = re.match(r'(\d+) (-?\d+) ', fx)
            mp = re.match(r'ok size=(-?\d+)', m.get('parse', ''))
            if mm and mp:
                corr.count('flex-size-compared')
                if int(mm.group(2)) != int(mp.group(1)):
                    corr.disagreements.append({'kind': 'flex-size', 'input': inp, 'model': fx, 'resolveTy': mp.group(1)})
        # how much of the generated input the general theorem C05_parse_spec_partial speaks about
        if parse_ok and spec_ok:
            if ' tyok=1' in spec_txt and not (over or xover or wide or reinit):
                corr.count('in-scope-of:C05_parse_spec_partial')
                if not m.get('spec', '').endswith('same=1'):
                    # the theorem (kernel-checked) says this cannot happen: the native driver and the proved definitions differ
                    corr.disagreements.append({'kind': 'driver-vs-theorem', 'input': {'driver_line': c['line']}, 'model': m.get('raw', '')[:300]})
            elif ' tyok=0' in spec_txt:
                corr.count('outside-theorem:flexible-member-type')
            else:
                corr.count('outside-theorem:region')
        # ---- rejected by a compiler
        if bstr and (k in grej or k in crej):
            corr.count('braced_str:' + ('gcc_rejects' if k in grej else 'chibicc_rejects'))
            corr.sample({'braced_str_rejected': c['ctext'], 'types': c['cdefs'], 'gcc': str(grej.get(k)), 'chibicc': str(crej.get(k))}, limit=8)
        if k in grej:
            corr.count('gcc_rejects')
            if k not in crej and parse_ok:
                corr.count('gcc_rejects_chibicc_accepts')
        if k in crej:
            corr.count('chibicc_rejects')
            if str(crej[k]).startswith('crash'):
                corr.violations.append({'what': 'program compiled by chibicc crashes', 'input': inp, 'expected': 'runs', 'got': crej[k]})
                return
            if parse_ok and m.get('static', '').startswith('fail diag'):
                corr.count('both_reject_nonconstant')       # write_gvar_data's "not a compile-time constant"
                return
            if parse_ok:
                corr.disagreements.append({'kind': 'parse', 'input': inp, 'impl': 'rejected: ' + str(crej[k]), 'model': m['parse']})
            if k not in grej and spec_ok:
                # both chibicc and its model reject something gcc and the specification accept
                rc, o, e = self.pedantic(c)
                if reinit or flexnote:
                    self.flex_divergence({'what': 'an initializer that comes back to the flexible array member (or designates into it before it '
                                                  'has a length, or a designator after its elided first initializer) is rejected',
                                          'input': inp, 'expected': 'accepted (gcc -std=gnu11 accepts it: the array grows)',
                                          'got': str(crej[k]).strip()}, c)
                elif rc == 0 or (parse_ok and ({'range-designator', 'flexible-member'} & set(c['features']))):
                    # (range designators and flexible array members are GNU, but the property names them: gcc -std=gnu11 is the judge)
                    corr.violations.append({'what': 'a valid initializer is rejected', 'input': inp, 'expected': 'accepted (gcc accepts it)',
                                            'got': str(crej[k])})
                else:
                    corr.count('chibicc_rejects_gnu_extension')
                    corr.sample({'rejected_extension': c['ctext'], 'msg': str(crej[k])}, limit=10)
            return
        if not parse_ok:
            corr.disagreements.append({'kind': 'parse', 'input': inp, 'impl': 'accepted', 'model': m.get('parse')})
            return
        if (k, 's') not in cd:
            corr.disagreements.append({'kind': 'harness', 'input': inp, 'what': 'no dump from the chibicc-compiled program'})
            return
        cs = symbolize(*cd[(k, 's')], strings)
        ca = symbolize(*cd[(k, 'a')], strings) if (k, 'a') in cd else None
        # ---- sizeof after the initializer (unknown bound = largest index + 1; flexible member: chibicc enlarges the type)
        msize = int(re.match(r'ok size=(-?\d+)', m['parse']).group(1))
        for kind in ('s', 'a'):
            got = cd.get((k, 'sizeof_' + kind))
            if got is not None and got != msize:
                corr.disagreements.append({'kind': 'sizeof', 'input': inp, 'impl': got, 'model': msize})
        flexible = isinstance(t, Agg) and t.flex
        gsz = gd.get((k, 'sizeof_s')) if gd else None
        if gsz is not None and not flexible and k not in grej:
            for kind in ('s', 'a'):
                got = cd.get((k, 'sizeof_' + kind))
                if got is not None and got != gsz:
                    v = {'what': 'sizeof the initialised object differs from gcc (array of unknown bound: largest index + 1)',
                         'input': inp, 'expected': gsz, 'got': got,
                         'replay_case': {'line': c['line'], 'ctext': c['ctext'], 'cdefs': c['cdefs']}}
                    if bstr:
                        self.braced_divergence(v, c)
                    else:
                        corr.violations.append(v)
                    break
        mask = list(bytes.fromhex(m.get('cover', ''))) if m.get('cover') else [255] * len(cs)
        if len(mask) != len(cs):
            mask = (mask + [0] * len(cs))[:len(cs)]
        known = None
        if over:
            known = KNOWN_BRACE
        # ---- the property: static == automatic
        if ca is not None:
            d = masked_equal(cs, ca, mask)
            if d is not None:
                v = {'what': 'static and automatic object differ', 'input': inp, 'expected': 'static ' + show_cells(cs),
                     'got': 'automatic ' + show_cells(ca), 'first_difference_at_byte': d}
                if bstr and not known:
                    self.braced_divergence(v, c)
                else:
                    self.violation(v, c, known)
        # ---- model <-> code (all bytes)
        ms = model_cells(m.get('static', '')) if not m.get('static', 'fail').startswith('fail') else None
        ma = model_cells(m.get('auto', '')) if not m.get('auto', 'fail').startswith('fail') else None
        # what gcc says about the case goes into the record of a broken tie: if the model no longer describes the code AND the code
        # differs from the oracle there, `search` has its failing input at once (also inside a known region, where the difference
        # alone would be attributed to the finding)
        gs0 = symbolize(*gd[(k, 's')], strings) if (gd and k not in grej and (k, 's') in gd) else None
        odiff = {'gcc': show_cells(gs0), 'oracle_differs': masked_equal(cs, gs0, mask) is not None,
                 'replay_case': {'line': c['line'], 'ctext': c['ctext'], 'cdefs': c['cdefs']}} if gs0 is not None else {}
        cs_cmp, ca_cmp = cs, ca
        if ms is None or ms != cs_cmp:
            corr.disagreements.append(dict({'kind': 'static image', 'input': inp, 'impl': show_cells(cs), 'model': m.get('static')}, **odiff))
        if ca is not None and (ma is None or ma != ca_cmp):
            corr.disagreements.append(dict({'kind': 'automatic object', 'input': inp, 'impl': show_cells(ca), 'model': m.get('auto')}, **odiff))
        # ---- emit_data
        obj = asm_objs.get(f's{k}')
        if obj is not None:
            want = []
            for dct in m.get('emit', '').split():
                if dct.startswith('q:'):
                    mm = re.match(r'q:(.+?)([+-]\d+)$', dct)
                    want.append(('q', mm.group(1), int(mm.group(2))))
                elif dct.startswith('b'):
                    want.append(('b', int(dct[1:])))
                elif dct.startswith('z'):
                    want.append(('z', int(dct[1:])))
            got = []
            for dct in obj:
                if dct[0] == 'q' and dct[1].startswith('.L'):
                    raw = bytes(x[1] for x in asm_objs.get(dct[1], []) if x[0] == 'b')
                    sid = next((i for i, r in strings.items() if r == raw), None)
                    got.append(('q', '.str%d' % sid if sid is not None else dct[1], dct[2]))
                else:
                    got.append(dct)
            if got != want:
                corr.disagreements.append({'kind': 'emit_data', 'input': inp, 'impl': got[:40], 'model': want[:40]})
            corr.count('emit_compared')
        # ---- oracle
        if k in grej or (k, 's') not in gd:
            return
        gs = symbolize(*gd[(k, 's')], strings)
        corr.count('oracle_compared')
        d = masked_equal(cs, gs, mask)
        if d is not None:
            v = {'what': 'object value differs from C11 6.7.9 (gcc)', 'input': inp, 'expected': 'gcc    ' + show_cells(gs),
                 'got': 'chibicc ' + show_cells(cs), 'mask': bytes(mask).hex(), 'first_difference_at_byte': d}
            if reinit and not over:
                v['what'] = 'a second initializer for the flexible array member: chibicc keeps the length of the first, gcc lets the array grow'
                self.flex_divergence(v, c)
            elif bstr and not known:
                self.braced_divergence(v, c)
            else:
                self.violation(v, c, known)
        elif ca is not None and over:
            corr.count('region_but_equal')
        # ---- spec <-> gcc
        if spec_ok:
            sc = model_cells(spec_txt.split(' over=')[0])
            d2 = masked_equal(sc, gs, mask)
            if d2 is not None:
                corr.disagreements.append({'kind': 'spec-vs-gcc', 'input': inp, 'spec': show_cells(sc), 'gcc': show_cells(gs), 'at': d2})
            same = m.get('spec', '').endswith('same=1')
            if not same and not over and not xover and not reinit:
                # outside the known regions the parser model must produce the tree of the specification (this includes every
                # generated range designator: braces, strings, or a designator next)
                corr.disagreements.append({'kind': 'model-vs-spec', 'input': inp, 'model': m.get('static'), 'spec': spec_txt})
        else:
            corr.disagreements.append({'kind': 'spec-vs-gcc', 'input': inp, 'spec': spec_txt, 'gcc': 'accepted: ' + show_cells(gs)})

    def flex_divergence(self, v, c):
        """region FlexReinit (GNU extension, no C11 semantics): a known finding once known_findings.json lists it, counted until then"""
        self.corr.count('region:flex-reinit-diverges')
        self.corr.sample({'flex_reinit': c['ctext'], 'types': c['cdefs'], 'what': v.get('what'), 'got': str(v.get('got'))[:120]}, limit=6)
        if known_listed(KNOWN_FLEX):
            self.violation(v, c, KNOWN_FLEX)

    def braced_divergence(self, v, c):
        """a case tagged braced_str fails the property (outside the region BraceOverride, which keeps its own attribution): the
        known finding C05-braced-string-literal when known_findings.json lists it, a plain violation otherwise"""
        self.corr.count('braced_str_diverges')
        v['family'] = 'braced_str'
        self.violation(v, c, KNOWN_BRACED if known_listed(KNOWN_BRACED) else None)

    def violation(self, v, c, known):
        corr = self.corr
        if known:
            v['known_id'] = known
            if known not in corr.known_hits:
                corr.known_hits.append(known)
            corr.count('known:' + known)
        v['replay_case'] = {'line': c['line'], 'ctext': c['ctext'], 'cdefs': c['cdefs']}
        if len([x for x in corr.violations if x.get('known_id') == known]) < 5:
            corr.violations.append(v)

    def pedantic(self, c):
        self.n += 1
        src = os.path.join(self.ctx.scratch, f'p{self.n}_ped.c')
        defs = []
        ty_defs(c['ty'], defs, set())
        open(src, 'w').write(PRELUDE_OBJS + '\n'.join(defs) + f"\nstatic {decl(c['ty'], 'x')} = {tok_c(c['toks'])};\n")
        return sh(['gcc', '-std=c11', '-pedantic-errors', '-fsyntax-only', src], timeout=60)

# ============================================================================================ corpus (hand-written witnesses)

def T(spec):
    """compact type literal -> type object.  'int' | ['a', n|None, T] | ['st'|'un'|'stflex', [[name|None, T, bw?]...]]"""
    if isinstance(spec, str):
        return BYNAME[spec]
    if spec[0] == 'a':
        return Arr(T(spec[2]), spec[1])
    return Agg(spec[0] == 'un', [Mem(m[0], T(m[1]), m[2] if len(m) > 2 else None) for m in spec[1]], flex=spec[0] == 'stflex')

def K(items):
    """compact token literal -> tokens: '{' '}' ',' '=' '.name' ['[',a] ['[..',a,b] int float ['str', text] ['str', text, prefix, esz] ['straddr', text] ['addr', ctext, label, addend]"""
    out = []
    sid = 900
    for x in items:
        if isinstance(x, str):
            out.append(('.', x[1:]) if x.startswith('.') else x)
        elif isinstance(x, int):
            out.append(Ex(str(x), x))
        elif isinstance(x, float):
            out.append(Ex(repr(x), int(x), x))
        elif x[0] == 'str':
            # ['str', text] or ['str', text, prefix, element size] (u"..." 2, U"..."/L"..." 4; ASCII text)
            sid += 1
            prefix, esz = (x[2], x[3]) if len(x) > 2 else ('', 1)
            raw = b''.join(ord(ch).to_bytes(esz, 'little') for ch in x[1] + '\0')
            out.append(Ex('%s"%s"' % (prefix, x[1]), 0, strbytes=raw, strid=sid, esz=esz, as_string=True))
        elif x[0] == 'straddr':           # the address of a string literal (a pointer leaf)
            sid += 1
            out.append(Ex('"%s"' % x[1], 0, label='.str%d' % sid, strbytes=x[1].encode() + b'\0', strid=sid))
        elif x[0] == 'addr':
            out.append(Ex(x[1], x[3], label=x[2]))
        else:
            out.append(tuple(x))
    return out

def load_corpus():
    d = os.path.join(VERIF, 'corpus', 'C05')
    cases = []
    if os.path.isdir(d):
        for fn in sorted(os.listdir(d)):
            if fn.endswith('.json'):
                for e in json.load(open(os.path.join(d, fn))):
                    cases.append({'ty': T(e['type']), 'toks': K(e['init']), 'features': ['corpus:' + e.get('name', fn)] + e.get('features', []),
                                  'notes': e.get('notes', [])})
    return cases

# ============================================================================================ entry points

def correspond(ctx, corr):
    corr.rule = ('each case = a type (scalars incl. all integer types, _Bool, float/double/long double, pointers; arrays; structs; unions; '
                 'bit-fields incl. unnamed and zero-width; anonymous members; flexible array members; arrays of unknown bound; depth <= 4) and an '
                 'initializer spelling derived from it by walking the 6.7.9 cursor (random braces/elision, designator paths incl. nested, '
                 'out-of-order and ranges, short/excess lists, trailing commas, string literals of every prefix incl. exact fit without '
                 'terminator, the same string literals ENCLOSED IN BRACES (6.7.9p14/p15; tag braced_str: whole object, unknown bound, member, '
                 'row of an array of arrays, after designators, overriding, with trailing comma), address constants with offsets, string addresses).  The same initializer initialises a static and an automatic '
                 'object in one program compiled by chibicc and by gcc; all bytes are dumped.  non-trivial = the spelling contains a designator, '
                 'brace elision or an unterminated exact-fit string; distinct = by type+token text.')
    gen = Gen(ctx.rng, ctx.thorough)
    runner = Runner(ctx, corr)
    cases = load_corpus()
    if BRACED_STR_SHARE == 0:             # debugging aid (C05_NO_BRACED_STR): the whole family off, corpus entries and witness included
        cases = [c for c in cases if 'braced_str' not in c['notes']]
    corr.count('corpus', len(cases))
    total = 20000 if ctx.thorough else 1200
    batch = 40
    todo = list(cases)
    while len(todo) < total + len(cases):
        todo.append(gen.case())
    if BRACED_STR_SHARE > 0:
        # the family `{ string-literal }` (6.7.9p14/p15) comes from a generator of its own, seeded from ctx.rng AFTER the main cases
        # have been drawn, so that adding the family does not change which main cases a seed produces
        import random as _random
        gen_b = Gen(_random.Random(ctx.rng.getrandbits(64)), ctx.thorough, brace_strings=True)
        for _ in range(int(total * 2 * BRACED_STR_SHARE)):
            todo.append(gen_b.case_b())
    for i in range(0, len(todo), batch):
        runner.run_batch(todo[i:i + batch])
        if (len(corr.disagreements) > 20 or len([v for v in corr.violations if not v.get('known_id')]) > 10) and not os.environ.get('C05_KEEP_GOING'):
            break
    if os.environ.get('C05_DEBUG_DUMP'):          # debugging aid: every disagreement/violation of the run with the tags of its case
        tags = {c.get('ctext'): c['notes'] for c in todo if 'ctext' in c}
        json.dump({'disagreements': [dict(d, notes=tags.get((d.get('input') or {}).get('decl'))) for d in corr.disagreements],
                   'violations': [dict(v, notes=tags.get((v.get('input') or {}).get('decl')) if isinstance(v.get('input'), dict) else None) for v in corr.violations]},
                  open(os.environ['C05_DEBUG_DUMP'], 'w'), indent=1, default=str)
    for c in todo[:3]:
        if 'ctext' in c:
            corr.sample({'decl': c['ctext'], 'types': c['cdefs'], 'model': c['model'].get('static')})
    corr.extra['compilers'] = 'chibicc snapshot; gcc -std=gnu11 -w -O0 as the 6.7.9 oracle'
    agg_expr_witness(ctx, corr)
    flex_reinit_witness(ctx, corr)
    if BRACED_STR_SHARE > 0:
        braced_str_witness(ctx, corr)


KNOWN_AGGEXPR = 'C05-agg-expr-then-member'
AGGEXPR_WITNESS = r'''#include <stdio.h>
struct T { int a, b; };
struct U { struct T s; int c; };
int main(void) {
  struct T y = {5, 6};
  struct T x[1] = {[0] = y, [0] = 1};
  struct U u = {.s = y, .s = 7, 8};
  printf("%d %d %d %d %d\n", x[0].a, x[0].b, u.s.a, u.s.b, u.c);
  return 0;
}
'''

def agg_expr_witness(ctx, corr):
    """witness of the known finding C05-agg-expr-then-member (region InitSpec.AggExprOverride: a sub-object initialised by an
    expression of struct/union type and then again, member-wise): replayed on the implementation with gcc as the oracle"""
    d = os.path.join(ctx.scratch, 'aggexpr')
    os.makedirs(d, exist_ok=True)
    src = os.path.join(d, 'w.c')
    open(src, 'w').write(AGGEXPR_WITNESS)
    outs = {}
    for name, cmd in (('chibicc', [ctx.cc, '-o', os.path.join(d, 'wc'), src]), ('gcc', ['gcc', '-std=gnu11', '-w', '-O0', '-o', os.path.join(d, 'wg'), src])):
        rc, o, e = sh(cmd, cwd=d, timeout=120)
        if rc != 0:
            outs[name] = f'compile rc={rc} {e.strip()[-200:]}'
            continue
        rc, o, e = sh([os.path.join(d, 'wc' if name == 'chibicc' else 'wg')], cwd=d, timeout=60)
        outs[name] = f'rc={rc} {o.strip()}'
    corr.evaluations += 1
    if outs.get('chibicc') != outs.get('gcc'):
        if KNOWN_AGGEXPR not in corr.known_hits:
            corr.known_hits.append(KNOWN_AGGEXPR)
        corr.violations.append({'known_id': KNOWN_AGGEXPR, 'what': 'a sub-object initialised by a struct-valued expression and then again member-wise keeps the expression',
                                'input': AGGEXPR_WITNESS, 'expected': outs.get('gcc'), 'got': outs.get('chibicc')})

FLEX_WITNESS = 'struct S { int a; int f[]; };\nstruct S s = {1, {1}, .f = 2, 3};\n'

def flex_reinit_witness(ctx, corr):
    """witness of the region InitSpec.FlexReinit (Findings/C05.lean, C05_note_flex_reinit): the size of the emitted object in
    `chibicc -S` and `gcc -S` (4 + 1*4 against 4 + 2*4 bytes)"""
    d = os.path.join(ctx.scratch, 'flexw')
    os.makedirs(d, exist_ok=True)
    src = os.path.join(d, 'w.c')
    open(src, 'w').write(FLEX_WITNESS)
    sizes = {}
    for name, cmd in (('chibicc', [ctx.cc, '-S', '-o', '-', src]), ('gcc', ['gcc', '-std=gnu11', '-w', '-O0', '-S', '-o', '-', src])):
        rc, o, e = sh(cmd, cwd=d, timeout=120)
        mm = re.search(r'\.size\s+s,\s*(\d+)', o)
        sizes[name] = int(mm.group(1)) if (rc == 0 and mm) else f'rc={rc} {e.strip()[-120:]}'
    corr.evaluations += 1
    corr.extra['flex_reinit_witness'] = {'decl': FLEX_WITNESS.strip(), 'object_size': sizes}
    if sizes.get('chibicc') != sizes.get('gcc'):
        corr.count('region:flex-reinit-witness-diverges')
        if known_listed(KNOWN_FLEX):
            if KNOWN_FLEX not in corr.known_hits:
                corr.known_hits.append(KNOWN_FLEX)
            corr.violations.append({'known_id': KNOWN_FLEX, 'what': 'a second initializer for the flexible array member: the object keeps the length of the first',
                                    'input': FLEX_WITNESS, 'expected': f"gcc: {sizes.get('gcc')} bytes", 'got': f"chibicc: {sizes.get('chibicc')} bytes"})

BRACED_WITNESS = r'''int printf(const char *, ...);
char s[6] = {"abc"};
char t[] = {"abcd"};
int w[4] = {L"ab",};
int main(void) {
  char a[6] = {"abc"};
  printf("%d %d %d %d %d %d | %d | %d %d %d %d | %d %d %d %d\n", s[0], s[1], s[2], s[3], s[4], s[5], (int)sizeof(t), w[0], w[1], w[2], w[3], a[0], a[1], a[2], a[3]);
  return 0;
}
'''
BRACED_WITNESS_CASE = {'line': 'a 6 s 1 i | { str 901 1 61626300 }', 'ctext': 'char x[6] = { "abc" };', 'cdefs': ''}

def braced_str_witness(ctx, corr):
    """fixed witness of 6.7.9p14 (`char s[6] = {"abc"};` and friends) replayed on the implementation with gcc as the oracle: the known
    finding C05-braced-string-literal when known_findings.json lists it, a plain violation otherwise"""
    d = os.path.join(ctx.scratch, 'bracedw')
    os.makedirs(d, exist_ok=True)
    src = os.path.join(d, 'w.c')
    open(src, 'w').write(BRACED_WITNESS)
    outs = {}
    for name, cmd in (('chibicc', [ctx.cc, '-o', os.path.join(d, 'wc'), src]), ('gcc', ['gcc', '-std=gnu11', '-w', '-O0', '-o', os.path.join(d, 'wg'), src])):
        rc, o, e = sh(cmd, cwd=d, timeout=120)
        if rc != 0:
            outs[name] = f'compile rc={rc} {e.strip()[-200:]}'
            continue
        rc, o, e = sh([os.path.join(d, 'wc' if name == 'chibicc' else 'wg')], cwd=d, timeout=60)
        outs[name] = f'rc={rc} {o.strip()}'
    corr.evaluations += 1
    corr.count('braced_str')
    corr.extra['braced_str_witness'] = outs
    if outs.get('chibicc') != outs.get('gcc'):
        corr.count('braced_str_witness_diverges')
        v = {'what': 'a string literal enclosed in braces does not initialise the character array (C11 6.7.9p14/p15)', 'family': 'braced_str',
             'input': BRACED_WITNESS, 'expected': outs.get('gcc'), 'got': outs.get('chibicc'), 'replay_case': dict(BRACED_WITNESS_CASE)}
        if known_listed(KNOWN_BRACED):
            v['known_id'] = KNOWN_BRACED
            if KNOWN_BRACED not in corr.known_hits:
                corr.known_hits.append(KNOWN_BRACED)
        corr.violations.append(v)

def search(ctx, broken, corr):
    """the proof or the tie broke without a direct violation: (a) a disagreeing input on which the code also differs from gcc,
    (b) an oracle failure on more cases"""
    for b in broken:
        d = b.get('what') if isinstance(b, dict) else None
        if isinstance(d, dict) and d.get('oracle_differs'):
            return {'what': 'object value differs from C11 6.7.9 (gcc) on an input where the model no longer describes the code',
                    'input': d.get('input'), 'expected': 'gcc    ' + str(d.get('gcc')), 'got': 'chibicc ' + str(d.get('impl')),
                    'replay_case': d.get('replay_case')}
    gen = Gen(ctx.rng, True)
    c2 = Corr()
    runner = Runner(ctx, c2)
    for r in range(30):
        runner.run_batch([gen.case() for _ in range(40)])
        for v in c2.violations:
            if not v.get('known_id'):
                return v
    return None

def replay(ctx, corr, path):
    payload = json.load(open(path))
    rc = payload.get('replay_case')
    if not rc:
        corr.extra['replay'] = 'replay file carries no case'
        return
    print('replay: declaration', rc['cdefs'], rc['ctext'])
    print('replay: model answer', ctx.driver(DRIVER_SUB, rc['line'] + '\n').strip())
    src = os.path.join(ctx.scratch, 'replay.c')
    decl_s = rc['ctext'].replace(' x', ' s0', 1)
    open(src, 'w').write(DUMP_C + rc['cdefs'] + '\nstatic ' + rc['ctext'].replace('x', 's0', 1) +
                         '\nint main(void) { ' + rc['ctext'].replace('x', 'a0', 1) +
                         ' dump(0, \'s\', &s0, sizeof(s0)); dump(0, \'a\', &a0, sizeof(a0)); return 0; }\n')
    out = {}
    for tag, cmd in (('chibicc', [ctx.cc]), ('gcc', ['gcc', '-std=gnu11', '-w'])):
        r, o, e = sh(cmd + ['-o', src[:-2] + tag, src], timeout=60)
        if r == 0:
            r, o, e = sh([src[:-2] + tag], timeout=30)
        out[tag] = o.strip() if r == 0 else 'failed: ' + e[-200:]
        print(f'replay: {tag}:', out[tag])
    corr.evaluations = 1
    cl = [l.split()[4] for l in out['chibicc'].splitlines() if l.startswith('D ') and len(l.split()) > 4]
    gl = [l.split()[4] for l in out['gcc'].splitlines() if l.startswith('D ') and len(l.split()) > 4]
    if len(cl) == 2 and cl[0] != cl[1]:
        corr.violations.append({'what': 'static and automatic object differ (raw bytes)', 'input': rc, 'expected': cl[0], 'got': cl[1]})
    elif cl and gl and cl[0] != gl[0]:
        corr.violations.append({'what': 'object differs from gcc (raw bytes, padding included)', 'input': rc, 'expected': gl[0], 'got': cl[0]})

MANIFEST = {
    'level_text': 'Lean 4 theorems on a one-for-one model of the initializer machinery of parse.c and of emit_data.  Proved for ALL laid-out types '
                  'and ALL initializer trees of their shape: the static back end (write_gvar_data + relocations) and the automatic back end '
                  '(create_lvar_init executed with the stores and the bit-field read-modify-write codegen emits, on the ND_MEMZERO-ed slot) produce '
                  'the same object and both succeed (C05_backends_agree); every bit not covered by an initialised leaf is zero in both (C05_zero); '
                  'emit_data prints exactly the image, one .quad per relocation, one .byte per other byte, sizeof bytes in total (C05_emit); the '
                  'recursion fuel of the transcription of the 12 mutually recursive parser functions never changes an answer (C05_fuel_mono).  '
                  'Parser = C11 6.7.9: PROVED BY INDUCTION for every declared type (scalars, arrays, arrays of unknown bound, structs incl. a '
                  'declared struct with FLEXIBLE ARRAY MEMBER, unions, bit-fields, unnamed bit-fields, anonymous members, any depth) and EVERY token '
                  'list outside four regions computed by the run of the specification (C05_parse_spec_partial: same Initializer tree, same rest; '
                  'the fourth region FlexReinit is empty for types without flexible member: C05_parse_spec_three_regions): simulation of each of '
                  'the 12 parser functions (initializer2, designation, array/struct_initializer1/2, union_initializer, string_initializer ...) by '
                  'steps of a cursor-machine specification of 6.7.9p17-p22, brace elision, designators incl. anonymous members, continuation '
                  'after a designator, excess elements, strings, union member selection (p10).  Unknown bound = largest index + 1 (p22): proved '
                  '(C05_count_partial) by running count_array_init_elements (a dry run on a dummy tree), the real loop and the specification in '
                  'lockstep; the dry run consumes the same tokens as the real run because every parser function commutes with erasing the tree.  '
                  'A union\'s list may hold several initializers (union_rest of /repo e1837fd, model unionRest, a loop in the simulation): '
                  'covered while they stay with the member initialised so far; a member switch is noted by the specification as `over` (agreement '
                  'there when it happens in the union\'s own list: tested tie + exhaustive scope Findings C05_union_scope).  '
                  'Flexible array member: new_initializer(is_flexible) leaves the length open, the first initializer fixes it - a brace-enclosed '
                  'list (the lockstep of unknown bounds again), a string literal, or elided braces (array_initializer2 counts over the rest of '
                  'the struct\'s list: a second lockstep, flexLoop) - and the re-typed object has sizeof(struct) + n*sizeof(elem) bytes in both '
                  'storage classes (C05_flex_count, C05_flex_size).  The relocation cursor of write_gvar_data is modelled explicitly (linked list + '
                  'cursor, Model/InitCursor.lean) and proved to be the appended list when every arm (array, struct incl. bit-field skip, union) hands '
                  'its recursive cursor on (C05_reloc_cursor); an arm that keeps its cursor loses relocations (Findings: C05_cursor_arms).  '
                  'The exhaustive small scopes (~76,000 token lists, kernel-evaluated) are kept; they also cover a flexible-member type and GNU ranges.  '
                  'The model is tied to the code on every run by compiling type-directed generated declarations with chibicc and comparing all bytes '
                  'of the static and the automatic object, sizeof, and the .data directives of -S; the specification is validated against gcc on the '
                  'same cases; chibicc is compared with gcc on member bits.',
    'level_note': 'Trusted: Lean kernel; the hand model (tied by differential execution, which is testing); the token/expression abstraction done by the '
                  'generator; the 6.7.9 specification (validated against gcc 12); python layout of generated types (cross-checked by sizeof). '
                  'C05_parse_spec_Statement / C05_count_Statement stay open exactly for the four regions BraceOverride (known finding C05-brace-override-keeps-old), AggExprOverride (new finding: an '
                  'initializer for a member reached without designator after a struct-valued expression initialised the struct is ignored), WideRange '
                  '(GNU range over more than one element: chibicc re-parses per element; agrees with gcc when the initializer is braced/a string or a '
                  'designator follows - those spellings are generated and compared), FlexReinit (GNU: a second initializer for the flexible array '
                  'member of the declared object: gcc lets the array grow, chibicc keeps the length of the first initializer; generated, model and '
                  'specification compared with their compilers, chibicc <-> gcc counted), and for type terms no C declaration produces.  Known '
                  'findings: C05-brace-override-keeps-old, C05-agg-expr-then-member, C05-flex-reinit (C05-union-second-initializer repaired: /repo e1837fd).',
    'technique': 'Lean 4: both back ends reduced to folds over one leaf list by structural recursion over the initializer tree; bit-level frame '
                 'reasoning over little-endian storage units for the bit-field merge; interval arithmetic over layouts; monotonicity of a 12-function '
                 'mutual fuel recursion; forward simulation (14 mutually dependent statements, induction on fuel) of the recursive-descent parser by a '
                 'cursor machine, with monotone region flags making out-of-region runs vacuous; logical relation (same skeleton) through all parser '
                 'functions; three-way lockstep for unknown bounds; executable 6.7.9 specification; whole-scope `decide +kernel`; three-way '
                 'differential tie (model / chibicc / gcc)',
    'design_ref': 'DESIGN.md section 6, C05',
}
