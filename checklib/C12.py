"""C12 - self-hosting fixpoint and determinism.

Proved (Lean): confinement of environment reads over the regenerated import/call-site lists (determinism half).
NOT proved: stage 1 = stage 2 = stage 3 behaviour.  That half is exercised here as a correspondence leg only
(differential execution of the stage-1 and stage-2 compilers on a corpus); DESIGN.md C12 says so."""
import os, hashlib, time
from .framework import *

PROPERTY = 'C12'
GEN_MODULES = ['envreads']
LEAN_TARGETS = ['ChibiVerif.Props.C12', 'ChibiVerif.Findings.C12']
PROPS_FILES = ['ChibiVerif/Props/C12.lean']
NEEDS_HOOKS = False
TRUSTED_BASE = [
    'Lean 4.33.0 kernel; axioms admitted: propext, Classical.choice, Quot.sound (audited per theorem on every run)',
    'translator tools/extract/envreads.py: nm on the object files of the built snapshot (libc imports) and a brace-tracking scan '
    'of the nine sources for call sites of clock / stat / temp-name functions and for %p conversions',
    'the classification table lean/ChibiVerif/Model/EnvDep.lean of libc functions by what their result depends on (my reading of POSIX)',
    'NOT covered by any theorem: equality of stage-1/2/3 behaviour and absence of address-dependent control flow in the compiler; '
    'these are only sampled by the differential leg (stage-1 vs stage-2 binaries on the corpus; ASLR on/off; different pid, cwd, environment, time)',
]
ASSUMPTIONS = ['gcc 12 (the reference compiler building stage 1) compiles chibicc correctly',
               'file_exists()/stat on include candidates is a function of the input file system, which counts as input']

SRC = ['main.c', 'tokenize.c', 'preprocess.c', 'parse.c', 'type.c', 'codegen.c', 'hashmap.c', 'strings.c', 'unicode.c']

def build_stage(ctx, compiler, name):
    """build the compiler from the snapshot's sources with `compiler`; returns path of the new binary"""
    d = os.path.join(ctx.scratch, name)
    os.makedirs(d, exist_ok=True)
    objs = []
    jobs = []
    import subprocess
    for s in SRC + (['verif_dump.c'] if os.path.exists(os.path.join(ctx.snapshot, 'verif_dump.c')) else []):
        o = os.path.join(d, s[:-2] + '.o')
        objs.append(o)
        jobs.append((s, subprocess.Popen([compiler, '-c', '-o', o, s], cwd=ctx.snapshot, stdout=subprocess.PIPE, stderr=subprocess.PIPE, text=True)))
    for s, p in jobs:
        out, err = p.communicate(timeout=600)
        if p.returncode != 0:
            return None, f'{name}: {os.path.basename(compiler)} failed on {s}: rc={p.returncode} {err[-400:]}'
    exe = os.path.join(d, 'chibicc')
    rc, o, e = sh(['cc', '-o', exe] + objs, timeout=300)
    if rc != 0:
        return None, f'{name}: link failed: {e[-400:]}'
    # chibicc finds its own headers in <dir of argv[0]>/include
    os.symlink(os.path.join(ctx.snapshot, 'include'), os.path.join(d, 'include'))
    return exe, ''

def run_cc(exe, args, cwd, env=None, prefix=()):
    rc, o, e = sh(list(prefix) + [exe] + args, cwd=cwd, timeout=120, env=env)
    # the binaries live in different directories and find their headers in <dir of argv[0]>/include:
    # neutralise that one path (it is an option-like input of each binary, not behaviour)
    inc = os.path.dirname(exe) + '/include'
    return rc, o.replace(inc, '<bindir>/include'), e.replace(inc, '<bindir>/include').replace(os.path.dirname(exe), '<bindir>')

def corpus(ctx):
    snap = ctx.snapshot
    items = []   # (label, args before the file, file, cwd)
    for s in SRC:
        items.append(('src:' + s, [], s))
    tdir = os.path.join(snap, 'test')
    for f in sorted(os.listdir(tdir)):
        if f.endswith('.c'):
            items.append(('test:' + f, ['-Iinclude', '-Itest'], 'test/' + f))
    return items

def gen_programs(ctx, n):
    """programs whose translation exercises the compiler's own arithmetic: constant folding over integer and floating
    operands of every type (negative fractions, boundary values, conversions in both directions), literals of every
    base/suffix/escape, layouts with bit-fields and alignment, switch ranges, designated initializers.  A miscompilation
    of the compiler's own code shows up as different folded values / offsets / labels in stage 2."""
    rng = ctx.rng
    ityp = ['char', 'signed char', 'unsigned char', 'short', 'unsigned short', 'int', 'unsigned', 'long', 'unsigned long', '_Bool']
    ftyp = ['float', 'double', 'long double']
    ilit = ['0', '1', '-1', '2', '7', '127', '128', '255', '256', '32767', '65535', '2147483647', '2147483648u', '4294967295u',
            '9223372036854775807L', '18446744073709551615UL', '0x7f', '0xff', '0x8000', '0xdeadbeef', '0777', '0b1011', "'a'", "'\\377'", "L'x'"]
    flit = ['0.0', '-0.5', '0.5', '1.5', '-1.5', '2.5', '-2.5', '-7.75', '1e10', '-1e10', '3.999999', '-3.999999', '1.0f', '-0.1f', '16777217.0f',
            '0x1.8p1', '1e-3L', '-123456.789L', '4294967296.0', '-2147483648.5', '0.1', '1e300', '9007199254740993.0']
    def iexpr(d):
        if d == 0 or rng.random() < 0.25:
            return rng.choice(ilit)
        k = rng.random()
        if k < 0.45:
            op = rng.choice(['+', '-', '*', '&', '|', '^', '<', '<=', '==', '!=', '&&', '||'])
            return f'({iexpr(d-1)} {op} {iexpr(d-1)})'
        if k < 0.55:
            return f'({iexpr(d-1)} {rng.choice(["/", "%"])} ({iexpr(d-1)} | 1))'
        if k < 0.65:
            return f'({iexpr(d-1)} {rng.choice(["<<", ">>"])} {rng.randrange(0, 31)})'
        if k < 0.8:
            return f'(({rng.choice(ityp)}){rng.choice([iexpr, fexpr])(d-1)})'
        if k < 0.9:
            return f'({rng.choice(["-", "~", "!"])}{iexpr(d-1)})'
        return f'({iexpr(d-1)} ? {iexpr(d-1)} : {iexpr(d-1)})'
    def fexpr(d):
        if d == 0 or rng.random() < 0.3:
            return rng.choice(flit)
        k = rng.random()
        if k < 0.5:
            return f'({fexpr(d-1)} {rng.choice(["+", "-", "*"])} {fexpr(d-1)})'
        if k < 0.6:
            return f'({fexpr(d-1)} / ({fexpr(d-1)} + 1000.25))'
        if k < 0.8:
            return f'(({rng.choice(ftyp)}){rng.choice([iexpr, fexpr])(d-1)})'
        return f'(-{fexpr(d-1)})'
    progs = []
    for k in range(n):
        L = []
        for j in range(25):
            t = rng.choice(ityp + ['long'])
            e = rng.choice([iexpr, fexpr])(rng.randrange(1, 4)) if t != '_Bool' else iexpr(2)
            if any(x in e for x in ('1e300', '1e10')) and 'fexpr' :
                e = f'(({rng.choice(ftyp)}){e} != 0)'      # out-of-range fp->int conversions are undefined: keep them out of integer contexts
            L.append(f'static {t} i{j} = ({t})({e});' if t != '_Bool' else f'static _Bool i{j} = {e};')
        for j in range(8):
            L.append(f'static {rng.choice(ftyp)} f{j} = {fexpr(rng.randrange(1, 4))};')
        L.append('enum E { ' + ', '.join(f'e{j} = (int)({iexpr(2)})' for j in range(5)) + ' };')
        L.append(f'char arr[1 + ((unsigned char)({iexpr(2)}))];')
        L.append('struct S { char c; int b1 : %d; unsigned b2 : %d; long l; _Alignas(%d) short s; char tail[%d]; } sv = { .l = %s, .b1 = %s, 3 };'
                 % (rng.randrange(1, 31), rng.randrange(1, 31), rng.choice([2, 4, 8, 16]), rng.randrange(1, 9), iexpr(1), iexpr(1)))
        L.append('int sw(long x) { switch (x) { ' + ' '.join(f'case {v}: return {j};' for j, v in enumerate(sorted(set(rng.randrange(-5000000000, 5000000000) for _ in range(6))))) +
                 f' case 6000000000L ... 6000000009L: return 77; default: return -1; }} }}')
        L.append('char *str = "\\x41\\101\\n\\t\\\\ \\u00e9 \\U0001F600" "tail"; unsigned short u16[] = u"\\u20ac x"; int w32[] = L"\\U0001F600";')
        L.append(f'double conv(void) {{ return (double)({fexpr(2)}) + (long)({fexpr(1)}) ; }}')
        L.append('int main(void) { return sizeof(arr) + sizeof(struct S) + e3; }')
        progs.append('\n'.join(L) + '\n')
    return progs

def mutate(ctx, text):
    """a malformed stream: delete / duplicate / swap a token-ish chunk; both stages must answer identically"""
    rng = ctx.rng
    toks = re.findall(r'\s+|[A-Za-z_]\w*|\d+|.', text)
    if len(toks) < 10:
        return text
    i = rng.randrange(len(toks))
    op = rng.choice(['del', 'dup', 'swap', 'ins'])
    if op == 'del':
        del toks[i]
    elif op == 'dup':
        toks.insert(i, toks[i])
    elif op == 'swap' and i + 1 < len(toks):
        toks[i], toks[i + 1] = toks[i + 1], toks[i]
    else:
        toks.insert(i, rng.choice(['(', ')', '{', '}', ';', '#', '"', 'int', '1e', ',', '->', '...']))
    return ''.join(toks)

def correspond(ctx, corr):
    snap = ctx.snapshot
    stage1 = ctx.cc
    corr.rule = ('stage 2 = the sources compiled by the stage-1 binary (gcc-built), stage 3 = the sources compiled by stage 2.  Every corpus '
                 'input (the nine sources, test/*.c, token-mutated variants as a malformed stream) x option set (-S, -E, -S -fPIC, -S -fcommon) '
                 "plus generated programs that exercise the compiler's own arithmetic (constant folding, literals, layouts, switch ladders) and the C files kept in the other properties' corpora, is run through stage 1 and stage 2: stdout/output file, diagnostics and exit status must be identical; for the nine sources this "
                 'is also stage-2 output = stage-3 output.  Determinism: stage 1 is re-run with ASLR disabled, a different environment, cwd and '
                 'wall-clock second; outputs must be identical.  non-trivial = the output contains at least one function or 40 lines of text; '
                 'distinct = by (input text, options).')
    stage2, err = build_stage(ctx, stage1, 'stage2')
    if stage2 is None:
        corr.violations.append({'what': 'the compiler cannot compile itself', 'detail': err, 'input': 'make stage2/chibicc'})
        return
    stage3, err = build_stage(ctx, stage2, 'stage3')
    if stage3 is None:
        corr.violations.append({'what': 'the self-compiled compiler cannot compile the compiler', 'detail': err, 'input': 'stage2/chibicc -c *.c'})
        return
    optsets = [['-S'], ['-E'], ['-S', '-fPIC'], ['-S', '-fcommon']]
    if not ctx.thorough:
        optsets = optsets[:2] + [optsets[2 + ctx.seed % 2]]
    items = corpus(ctx)
    work = []
    for label, pre, f in items:
        for opts in optsets:
            work.append((label, pre + opts, f))
    # malformed stream
    nmut = 40 if not ctx.thorough else 600
    mdir = os.path.join(ctx.scratch, 'mut')
    os.makedirs(mdir, exist_ok=True)
    tests = [i for i in items if i[0].startswith('test:')]
    for k in range(nmut):
        label, pre, f = ctx.rng.choice(tests)
        txt = open(os.path.join(snap, f), errors='replace').read()
        p = os.path.join(mdir, f'm{k}.c')
        open(p, 'w').write(mutate(ctx, txt))
        work.append((f'mut:{k}:{label}', ['-Iinclude', '-Itest', '-S'], p))
    gdir = os.path.join(ctx.scratch, 'gen')
    os.makedirs(gdir, exist_ok=True)
    for k, txt in enumerate(gen_programs(ctx, 60 if not ctx.thorough else 800)):
        p = os.path.join(gdir, f'g{k}.c')
        open(p, 'w').write(txt)
        work.append((f'gen:{k}', ['-S'], p))
    # programs kept by the other properties' checks (their corpora) are inputs here too
    for root, dirs, files in os.walk(os.path.join(VERIF, 'corpus')):
        for fn in sorted(files):
            if fn.endswith('.c'):
                work.append(('corpus:' + os.path.relpath(os.path.join(root, fn), VERIF), ['-Iinclude', '-S'], os.path.join(root, fn)))
    from concurrent.futures import ThreadPoolExecutor
    def one(w):
        label, args, f = w
        res = []
        for exe in (stage1, stage2, stage3 if label.startswith('src:') else None):
            if exe is None:
                res.append(None); continue
            res.append(run_cc(exe, args + ['-o', '-', f], snap))
        return w, res
    with ThreadPoolExecutor(max_workers=NPROC) as ex:
        results = list(ex.map(one, work))
    for (label, args, f), res in results:
        corr.evaluations += 1
        corr.count(label.split(':')[0])
        r1, r2, r3 = res
        key = hashlib.sha1((label + ' '.join(args)).encode()).hexdigest()
        if r1[1].count('\n') >= 40 or '.globl' in r1[1]:
            corr.nontrivial.add(key)
        if r1 != r2:
            which = 'exit status' if r1[0] != r2[0] else ('output' if r1[1] != r2[1] else 'diagnostics')
            corr.violations.append({'what': f'stage 1 and stage 2 compilers differ in {which}', 'input': f, 'options': args,
                                    'stage1': {'rc': r1[0], 'out_sha1': hashlib.sha1(r1[1].encode()).hexdigest(), 'err': r1[2][-300:]},
                                    'stage2': {'rc': r2[0], 'out_sha1': hashlib.sha1(r2[1].encode()).hexdigest(), 'err': r2[2][-300:]},
                                    'first_diff': first_diff(r1[1], r2[1]),
                                    'input_text': open(f if os.path.isabs(f) else os.path.join(snap, f), errors='replace').read() if label.startswith(('mut:', 'gen:')) else None})
            return
        if r3 is not None and r2 != r3:
            corr.violations.append({'what': 'stage 2 output differs from stage 3 output', 'input': f, 'options': args, 'first_diff': first_diff(r2[1], r3[1])})
            return
        if r1[0] not in (0, 1):
            corr.count('signal-or-odd-status')
    corr.sample({'input': work[0][2], 'options': work[0][1], 'stage1_rc': results[0][1][0][0], 'output_lines': results[0][1][0][1].count('\n')})
    # determinism of stage 1
    det = [w for w in work if w[0].startswith(('src:', 'test:')) and '-S' in w[1]]
    det = det if ctx.thorough else ctx.rng.sample(det, min(24, len(det)))
    junk_env = dict(os.environ, CHIBICC_VERIF_JUNK='x' * 4096, TZ='Pacific/Kiritimati', LANG='tr_TR.UTF-8', COLUMNS='13')
    time.sleep(1.1)
    prefix = ['setarch', 'x86_64', '-R'] if sh(['setarch', 'x86_64', '-R', 'true'])[0] == 0 else []
    corr.extra['aslr_disabled_leg'] = bool(prefix)
    def two(w):
        label, args, f = w
        txt = open(os.path.join(snap, f), errors='replace').read()
        if re.search(r'__DATE__|__TIME__|__TIMESTAMP__', txt):
            return w, None
        a = run_cc(stage1, args + ['-o', '-', f], snap)
        b = run_cc(stage1, args + ['-o', '-', f], snap, env=junk_env, prefix=prefix)
        return w, (a, b)
    with ThreadPoolExecutor(max_workers=NPROC) as ex:
        for (label, args, f), ab in ex.map(two, det):
            if ab is None:
                corr.count('skipped_date_time'); continue
            corr.evaluations += 1
            corr.count('determinism')
            if ab[0] != ab[1]:
                corr.violations.append({'what': 'output depends on the process environment / address-space layout / time', 'input': f, 'options': args,
                                        'first_diff': first_diff(ab[0][1], ab[1][1])})
                return

def first_diff(a, b):
    la, lb = a.splitlines(), b.splitlines()
    for i, (x, y) in enumerate(zip(la, lb)):
        if x != y:
            return {'line': i + 1, 'a': x[:200], 'b': y[:200]}
    return {'line': min(len(la), len(lb)) + 1, 'a': '<end>' if len(la) <= len(lb) else la[len(lb)][:200], 'b': '<end>' if len(lb) <= len(la) else lb[len(la)][:200]}

def search(ctx, broken, corr):
    """a confinement theorem broke: look for an observable dependence on the environment"""
    snap = ctx.snapshot
    items = corpus(ctx)
    envs = [dict(os.environ, TZ='UTC'), dict(os.environ, TZ='Asia/Tokyo', FOO='bar' * 1000)]
    for label, pre, f in items:
        txt = open(os.path.join(snap, f), errors='replace').read()
        if re.search(r'__DATE__|__TIME__|__TIMESTAMP__', txt):
            continue
        outs = []
        for i in range(3):
            outs.append(run_cc(ctx.cc, pre + ['-S', '-o', '-', f], snap, env=envs[i % 2]))
            time.sleep(0.4)
        if any(o != outs[0] for o in outs[1:]):
            j = next(i for i, o in enumerate(outs) if o != outs[0])
            return {'what': 'two runs of the same command differ', 'input': f, 'options': pre + ['-S'], 'first_diff': first_diff(outs[0][1], outs[j][1])}
    return None

def replay(ctx, corr, path):
    payload = json.load(open(path))
    f, args = payload.get('input'), payload.get('options')
    if not f or not args:
        corr.extra['replay'] = 'replay file names a broken theorem, not an input'
        return
    stage2, err = build_stage(ctx, ctx.cc, 'stage2')
    a = run_cc(ctx.cc, args + ['-o', '-', f], ctx.snapshot)
    b = run_cc(stage2, args + ['-o', '-', f], ctx.snapshot)
    corr.evaluations = 1
    print('replay: stage1 rc', a[0], 'stage2 rc', b[0], 'equal' if a == b else 'DIFFERENT')
    if a != b:
        corr.violations.append({'what': 'stage 1 and stage 2 differ', 'input': f, 'options': args, 'first_diff': first_diff(a[1], b[1])})

MANIFEST = {
    'level_text': 'PARTIAL. Lean 4 theorems (whole-list decide over lists regenerated from the object files and sources on every run) show the '
                  'determinism half structurally: the compiler imports no libc function outside a classified table, nothing ambient (pid, '
                  'environment, random, cwd, host), reads the clock and file metadata only in the handlers of __DATE__/__TIME__/__TIMESTAMP__ and in '
                  'include lookup, makes temp names only in the driver, and never formats a pointer. The fixpoint half (stage 1 = stage 2 = stage 3 '
                  'behaviour) is NOT a theorem: no verified semantics of the C that chibicc is written in is available offline; it is exercised as a '
                  'correspondence leg only (stage-1 vs stage-2 vs stage-3 binaries on the nine sources, the bundled tests and a malformed stream; '
                  'ASLR/env/cwd/time variation).',
    'level_note': 'Trusted: Lean kernel (3 standard axioms), tools/extract/envreads.py (nm + source scan), the libc classification table, gcc 12 as the '
                  'reference compiler. The differential leg is testing, not proof, and is labelled as such; address-dependent control flow inside '
                  'the compiler is not excluded by any theorem.',
    'technique': 'Lean 4 whole-table decide over translator-regenerated import/call-site lists (environment-read confinement); '
                 'stage-1/2/3 differential execution as the correspondence leg',
    'design_ref': 'DESIGN.md section 6, C12',
}
