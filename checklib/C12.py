"""C12 - self-hosting fixpoint and determinism.

Proved (Lean): confinement of environment reads over the regenerated import/call-site lists (determinism half), and -
fixpoint half, static part - that chibicc's own source has no expression whose unsequenced operands conflict, no
unaccounted uninitialised storage, no pointer used as an ordered or integer value, no order-unstable library call
(whole-list decide over the audit regenerated from clang-14's typed AST of the nine sources).
NOT proved: stage 1 = stage 2 = stage 3 behaviour as such.  That is exercised here as a correspondence leg
(differential execution of the stage-1 / stage-2 / stage-3 compilers on a corpus whose line coverage of the compiler
is measured with a gcov build on every run); DESIGN.md C12 says so."""
import os, hashlib, time, shutil
from .framework import *
from . import c12_inputs

PROPERTY = 'C12'
GEN_MODULES = ['envreads', 'c12audit']
LEAN_TARGETS = ['ChibiVerif.Props.C12', 'ChibiVerif.Findings.C12']
PROPS_FILES = ['ChibiVerif/Props/C12.lean']
NEEDS_HOOKS = False
TRUSTED_BASE = [
    'Lean 4.33.0 kernel; axioms admitted: propext, Classical.choice, Quot.sound (audited per theorem on every run)',
    'translator tools/extract/envreads.py: nm on the object files of the built snapshot (libc imports) and a brace-tracking scan '
    'of the nine sources for call sites of clock / stat / temp-name functions and for %p conversions',
    'the classification table lean/ChibiVerif/Model/EnvDep.lean of libc functions by what their result depends on (my reading of POSIX)',
    'translator tools/extract/c12audit.py: effect analysis over clang-14\'s typed AST of the nine sources (call-graph fixpoint; field/type based alias '
    'classes; objects private to the allocating function; libc effect table).  Its soundness is NOT proved; it is self-tested on every run: 18 planted '
    'expressions (12 order-dependent, 6 harmless) are appended to a scratch copy of strings.c, run through the analysis and through the Lean decision '
    'function (drv_c12 verdict), and must come out as expected',
    'the reviewed tables in lean/ChibiVerif/Model/C12Audit.lean (4 expression sites, 24 uninitialised locals, 2 reallocs, 15 pointer comparisons/subtractions): '
    'my reading of the code, keyed by file, function and source text',
    'NOT covered by any theorem: equality of stage-1/2/3 behaviour as such; undefined behaviour of the compiler\'s own arithmetic (signed overflow, '
    'out-of-range shifts and conversions); these are only sampled by the differential leg (stage-1 vs stage-2 binaries on the corpus, directed inputs; '
    'ASLR on/off; different pid, cwd, environment, time)',
]
ASSUMPTIONS = ['gcc 12 (the reference compiler building stage 1) compiles chibicc correctly',
               'file_exists()/stat on include candidates is a function of the input file system, which counts as input']

SRC = ['main.c', 'tokenize.c', 'preprocess.c', 'parse.c', 'type.c', 'codegen.c', 'hashmap.c', 'strings.c', 'unicode.c']

def build_stage(ctx, compiler, name):
    """build the compiler from the snapshot's sources with `compiler`; returns path of the new binary"""
    d = os.path.join(ctx.scratch, name)
    os.makedirs(d, exist_ok=True)
    objs = []
    jobs = []
    import subprocess
    for s in SRC + (['verif_dump.c'] if os.path.exists(os.path.join(ctx.snapshot, 'verif_dump.c')) else []):
        o = os.path.join(d, s[:-2] + '.o')
        objs.append(o)
        jobs.append((s, subprocess.Popen([compiler, '-c', '-o', o, s], cwd=ctx.snapshot, stdout=subprocess.PIPE, stderr=subprocess.PIPE, text=True)))
    for s, p in jobs:
        out, err = p.communicate(timeout=600)
        if p.returncode != 0:
            return None, f'{name}: {os.path.basename(compiler)} failed on {s}: rc={p.returncode} {err[-400:]}'
    exe = os.path.join(d, 'chibicc')
    rc, o, e = sh(['cc', '-o', exe] + objs, timeout=300)
    if rc != 0:
        return None, f'{name}: link failed: {e[-400:]}'
    # chibicc finds its own headers in <dir of argv[0]>/include
    os.symlink(os.path.join(ctx.snapshot, 'include'), os.path.join(d, 'include'))
    return exe, ''

TIME_RE = re.compile(r'"\d\d:\d\d:\d\d"|"[A-Z][a-z]{2} [ \d]\d \d{4}"')

def run_cc(exe, args, cwd, env=None, prefix=(), stdin=None, mask_time=False):
    rc, o, e = sh(list(prefix) + [exe] + args, cwd=cwd, timeout=120, env=env, input=stdin)
    # the binaries live in different directories and find their headers in <dir of argv[0]>/include:
    # neutralise that one path (it is an option-like input of each binary, not behaviour)
    inc = os.path.dirname(exe) + '/include'
    o = o.replace(inc, '<bindir>/include')
    if mask_time:
        # __DATE__ / __TIME__ are excepted by the property; two runs may straddle a second
        o = TIME_RE.sub('"<date-or-time>"', o)
    return rc, o, e.replace(inc, '<bindir>/include').replace(os.path.dirname(exe), '<bindir>')

COVDIR = os.path.join(VERIF, 'corpus', 'C12', 'cov')

def cov_corpus():
    """corpus/C12/cov/*.c: inputs written to reach the lines of the compiler that nothing else in the corpus executes.
    First line `// args: <options> | <options> ...` ($D = that directory) or `// stdin: <options> | ...` (the file is
    fed on standard input); default: -S and -E."""
    items = []
    for fn in sorted(os.listdir(COVDIR)):
        if not fn.endswith('.c'):
            continue
        path = os.path.join(COVDIR, fn)
        raw = open(path, 'rb').read()
        first = raw[:400].decode('utf-8', 'replace').lstrip('\ufeff').split('\n')[0]
        m = re.match(r'//\s*(args|stdin):\s*(.*)', first)
        kind, sets = ('args', [['-S'], ['-E']]) if not m else (m.group(1), [x.split() for x in m.group(2).replace('$D', COVDIR).split('|')])
        for a in sets:
            if kind == 'stdin':
                items.append((f'cov:{fn}', a, '-', raw.decode('utf-8', 'replace')))
            else:
                items.append((f'cov:{fn}', a, path, None))
    return items

def corpus(ctx):
    snap = ctx.snapshot
    items = []   # (label, args before the file, file, cwd)
    for s in SRC:
        items.append(('src:' + s, [], s))
    tdir = os.path.join(snap, 'test')
    for f in sorted(os.listdir(tdir)):
        if f.endswith('.c'):
            items.append(('test:' + f, ['-Iinclude', '-Itest'], 'test/' + f))
    return items

def gen_programs(ctx, n):
    """programs whose translation exercises the compiler's own arithmetic: constant folding over integer and floating
    operands of every type (negative fractions, boundary values, conversions in both directions), literals of every
    base/suffix/escape, layouts with bit-fields and alignment, switch ranges, designated initializers.  A miscompilation
    of the compiler's own code shows up as different folded values / offsets / labels in stage 2."""
    rng = ctx.rng
    ityp = ['char', 'signed char', 'unsigned char', 'short', 'unsigned short', 'int', 'unsigned', 'long', 'unsigned long', '_Bool']
    ftyp = ['float', 'double', 'long double']
    ilit = ['0', '1', '-1', '2', '7', '127', '128', '255', '256', '32767', '65535', '2147483647', '2147483648u', '4294967295u',
            '9223372036854775807L', '18446744073709551615UL', '0x7f', '0xff', '0x8000', '0xdeadbeef', '0777', '0b1011', "'a'", "'\\377'", "L'x'"]
    flit = ['0.0', '-0.5', '0.5', '1.5', '-1.5', '2.5', '-2.5', '-7.75', '1e10', '-1e10', '3.999999', '-3.999999', '1.0f', '-0.1f', '16777217.0f',
            '0x1.8p1', '1e-3L', '-123456.789L', '4294967296.0', '-2147483648.5', '0.1', '1e300', '9007199254740993.0']
    def iexpr(d):
        if d == 0 or rng.random() < 0.25:
            return rng.choice(ilit)
        k = rng.random()
        if k < 0.45:
            op = rng.choice(['+', '-', '*', '&', '|', '^', '<', '<=', '==', '!=', '&&', '||'])
            return f'({iexpr(d-1)} {op} {iexpr(d-1)})'
        if k < 0.55:
            return f'({iexpr(d-1)} {rng.choice(["/", "%"])} ({iexpr(d-1)} | 1))'
        if k < 0.65:
            return f'({iexpr(d-1)} {rng.choice(["<<", ">>"])} {rng.randrange(0, 31)})'
        if k < 0.8:
            return f'(({rng.choice(ityp)}){rng.choice([iexpr, fexpr])(d-1)})'
        if k < 0.9:
            return f'({rng.choice(["-", "~", "!"])}{iexpr(d-1)})'
        return f'({iexpr(d-1)} ? {iexpr(d-1)} : {iexpr(d-1)})'
    def fexpr(d):
        if d == 0 or rng.random() < 0.3:
            return rng.choice(flit)
        k = rng.random()
        if k < 0.5:
            return f'({fexpr(d-1)} {rng.choice(["+", "-", "*"])} {fexpr(d-1)})'
        if k < 0.6:
            return f'({fexpr(d-1)} / ({fexpr(d-1)} + 1000.25))'
        if k < 0.8:
            return f'(({rng.choice(ftyp)}){rng.choice([iexpr, fexpr])(d-1)})'
        return f'(-{fexpr(d-1)})'
    progs = []
    for k in range(n):
        L = []
        for j in range(25):
            t = rng.choice(ityp + ['long'])
            e = rng.choice([iexpr, fexpr])(rng.randrange(1, 4)) if t != '_Bool' else iexpr(2)
            if any(x in e for x in ('1e300', '1e10')) and 'fexpr' :
                e = f'(({rng.choice(ftyp)}){e} != 0)'      # out-of-range fp->int conversions are undefined: keep them out of integer contexts
            L.append(f'static {t} i{j} = ({t})({e});' if t != '_Bool' else f'static _Bool i{j} = {e};')
        for j in range(8):
            L.append(f'static {rng.choice(ftyp)} f{j} = {fexpr(rng.randrange(1, 4))};')
        L.append('enum E { ' + ', '.join(f'e{j} = (int)({iexpr(2)})' for j in range(5)) + ' };')
        L.append(f'char arr[1 + ((unsigned char)({iexpr(2)}))];')
        L.append('struct S { char c; int b1 : %d; unsigned b2 : %d; long l; _Alignas(%d) short s; char tail[%d]; } sv = { .l = %s, .b1 = %s, 3 };'
                 % (rng.randrange(1, 31), rng.randrange(1, 31), rng.choice([2, 4, 8, 16]), rng.randrange(1, 9), iexpr(1), iexpr(1)))
        L.append('int sw(long x) { switch (x) { ' + ' '.join(f'case {v}: return {j};' for j, v in enumerate(sorted(set(rng.randrange(-5000000000, 5000000000) for _ in range(6))))) +
                 f' case 6000000000L ... 6000000009L: return 77; default: return -1; }} }}')
        L.append('char *str = "\\x41\\101\\n\\t\\\\ \\u00e9 \\U0001F600" "tail"; unsigned short u16[] = u"\\u20ac x"; int w32[] = L"\\U0001F600";')
        L.append(f'double conv(void) {{ return (double)({fexpr(2)}) + (long)({fexpr(1)}) ; }}')
        L.append('int main(void) { return sizeof(arr) + sizeof(struct S) + e3; }')
        progs.append('\n'.join(L) + '\n')
    return progs

def mutate(ctx, text):
    """a malformed stream: delete / duplicate / swap a token-ish chunk; both stages must answer identically"""
    rng = ctx.rng
    toks = re.findall(r'\s+|[A-Za-z_]\w*|\d+|.', text)
    if len(toks) < 10:
        return text
    i = rng.randrange(len(toks))
    op = rng.choice(['del', 'dup', 'swap', 'ins'])
    if op == 'del':
        del toks[i]
    elif op == 'dup':
        toks.insert(i, toks[i])
    elif op == 'swap' and i + 1 < len(toks):
        toks[i], toks[i + 1] = toks[i + 1], toks[i]
    else:
        toks.insert(i, rng.choice(['(', ')', '{', '}', ';', '#', '"', 'int', '1e', ',', '->', '...']))
    return ''.join(toks)

def read_input(snap, f):
    try:
        return open(f if os.path.isabs(f) else os.path.join(snap, f), errors='replace').read()
    except OSError:
        return ''

def run_item(exe, w, snap):
    label, args, f, stdin = w
    txt = stdin if stdin is not None else read_input(snap, f)
    return run_cc(exe, args + ['-o', '-', f], snap, stdin=stdin, mask_time=('__TIME__' in txt or '__DATE__' in txt))

# ------------------------------------------------------------------------------------------------------ driver battery
def run_battery(exe, d, extra_env=None):
    """run c12_inputs.BATTERY with `exe` in the fresh directory d; returns one record per command:
    (rc, stdout, stderr, {file: sha1 of every file created or changed by the command}, output of a produced program)"""
    for name, text in c12_inputs.FIXTURES.items():
        path = os.path.join(d, name)
        os.makedirs(os.path.dirname(path), exist_ok=True)
        open(path, 'w').write(text)
    bindir = os.path.dirname(exe)
    def norm(t):
        t = t.replace(bindir + '/include', '<bindir>/include').replace(bindir, '<bindir>')
        return re.sub(r'/tmp/chibicc-[A-Za-z0-9]{6}', '/tmp/chibicc-XXXXXX', t)
    def digest(pth):
        """hash of a produced file, up to what legitimately differs between two compilers living in different directories:
        the <bindir>/include path (in -M / -E output and in DWARF line tables) and the random names of the driver's temporary
        files, which ld copies into the symbol table of a linked program (STT_FILE of an object without one)"""
        data = open(pth, 'rb').read()
        if data[:4] == b'\x7fELF' and len(data) > 18:
            tmp = pth + '.c12strip'
            opt = '--strip-debug' if data[16] == 1 else '--strip-all'
            if sh(['objcopy', opt, pth, tmp])[0] == 0:
                data = open(tmp, 'rb').read()
                os.unlink(tmp)
        else:
            data = data.replace((bindir + '/include').encode(), b'<bindir>/include').replace(bindir.encode(), b'<bindir>')
        return hashlib.sha1(data).hexdigest()
    def state():
        st = {}
        for root, dirs, files in os.walk(d):
            for fn in files:
                pth = os.path.join(root, fn)
                if fn.endswith(('.gcda', '.gcno', '.c12strip')):
                    continue
                try:
                    sig = (os.path.getsize(pth), os.stat(pth).st_mtime_ns)
                    if cache.get(pth, (None, None))[0] != sig:
                        cache[pth] = (sig, digest(pth))
                    st[os.path.relpath(pth, d)] = cache[pth][1]
                except OSError:
                    pass
        return st
    cache = {}
    out = []
    before = state()
    for k, (args, stdin) in enumerate(c12_inputs.BATTERY):
        if args and args[-1] == 'libb.a' and os.path.exists(os.path.join(d, 'obj.o')) and not os.path.exists(os.path.join(d, 'libb.a')):
            sh(['ar', 'rcs', 'libb.a', 'obj.o'], cwd=d)
            before = state()
        rc, o, e = sh([exe] + args, cwd=d, timeout=120, input=stdin, env=extra_env)
        after = state()
        changed = {f: h for f, h in after.items() if before.get(f) != h}
        ran = None
        for f in sorted(changed):
            if re.fullmatch(r'prog\d', f):
                r2 = sh([os.path.join(d, f)], cwd=d, timeout=20)
                ran = (f, r2[0], r2[1])
        out.append((rc, norm(o), norm(e), changed, ran))
        before = after
    return out

def link_reproducibility(ctx, corr, stage1):
    """second sentence of the property on the link step: the same command twice must give the same bytes.  (ld copies the name of
    an input object into the symbol table as STT_FILE when the object has none; chibicc's objects have none, and the driver's
    temporary objects have random names.)  Reported through the known-findings mechanism when the finding is listed; otherwise
    recorded in the evidence as a candidate for the lead."""
    fid = 'C12-link-tmpname'
    d = os.path.join(ctx.scratch, 'battery_stage1')
    outs = []
    for k in (1, 2):
        rc, o, e = sh([stage1, '-o', f'repro{k}', 'a.c', 'b.c'], cwd=d, timeout=120)
        try:
            outs.append(open(os.path.join(d, f'repro{k}'), 'rb').read())
        except OSError:
            outs.append(None)
    corr.evaluations += 1
    corr.count('link-reproducibility')
    if outs[0] is None or outs[0] == outs[1]:
        return
    names = sorted(set(re.findall(rb'chibicc-[A-Za-z0-9]{6}', outs[0])) | set(re.findall(rb'chibicc-[A-Za-z0-9]{6}', outs[1])))
    v = {'what': 'two runs of the same link command produce different executables: the random names of the driver\'s temporary object files are in the symbol table',
         'input': 'chibicc -o repro a.c b.c (twice)', 'expected': 'byte-identical output', 'got': 'STT_FILE symbols ' + ', '.join(n.decode() for n in names[:4]), 'known_id': fid}
    listed = any(f.get('id') == fid for f in load_known().get('findings', []))
    if listed:
        corr.violations.append(v)
        corr.known_hits.append(fid)
    else:
        corr.extra.setdefault('candidate_findings_not_listed', []).append(v)

# ------------------------------------------------------------------------------------------------------- coverage leg
def coverage_leg(ctx, corr, work):
    """Which lines of the compiler does the stage comparison drive?  The snapshot is built a third time with gcc --coverage and
    run on exactly the inputs that were compared; the line coverage per file, the lines never executed, and the rarely used
    constructs (Gen/C12AuditGen.rareConstructs) that no input reaches go into the evidence.  Stage 1 executing a source line is
    the same event as stage 2 executing the code chibicc generated for that line (as long as the two stages agree, which is what
    is being checked)."""
    snap = ctx.snapshot
    d = os.path.join(ctx.scratch, 'covbuild')
    rc, o, e = sh(['rsync', '-a', '--exclude=*.o', '--exclude=/chibicc', '--exclude=*.gcda', '--exclude=*.gcno', snap + '/', d + '/'])
    cflags = '-std=c11 -g -fno-common -Wall -Wno-switch -O0 --coverage'
    rc, o, e = sh(['make', f'-j{NPROC}', 'chibicc', f'CFLAGS={cflags}', 'LDFLAGS=--coverage'], cwd=d, timeout=600)
    if rc != 0:
        ctx.notes.append('coverage build failed: ' + (e or o)[-300:])
        return
    exe = os.path.join(d, 'chibicc')
    from concurrent.futures import ThreadPoolExecutor
    with ThreadPoolExecutor(max_workers=NPROC) as ex:
        list(ex.map(lambda w: run_item(exe, w, snap), work))
    bd = os.path.join(ctx.scratch, 'battery_cov')
    os.makedirs(bd, exist_ok=True)
    run_battery(exe, bd)
    rc, o, e = sh(['gcov'] + SRC, cwd=d, timeout=300)
    per_file, missing, executed, coded = {}, [], set(), set()
    tot = hit = 0
    for src in SRC:
        gp = os.path.join(d, src + '.gcov')
        if not os.path.exists(gp):
            ctx.notes.append(f'no gcov output for {src}')
            continue
        n = h = 0
        for line in open(gp, errors='replace'):
            m = re.match(r'\s*([^:]+):\s*(\d+):(.*)', line)
            if not m or m.group(2) == '0':
                continue
            c = m.group(1).strip()
            if c == '-':
                continue
            n += 1
            coded.add((src, int(m.group(2))))
            if c.startswith(('#####', '=====')):
                missing.append(f'{src}:{m.group(2)}: {m.group(3).strip()[:90]}')
            else:
                h += 1
                executed.add((src, int(m.group(2))))
        per_file[src] = {'lines': n, 'executed': h, 'percent': round(100.0 * h / max(1, n), 2)}
        tot += n; hit += h
    rare = []
    gen = os.path.join(ctx.lean_dir, 'ChibiVerif/Gen/C12AuditGen.lean')
    if os.path.exists(gen):
        txt = open(gen).read()
        blk = txt[txt.find('def rareConstructs'):txt.find('def featureCount')]
        rare = [(a, b, int(c)) for a, b, c in re.findall(r'\("((?:[^"\\]|\\.)*)", "([\w.]+)", (\d+)\)', blk)]
    def reached(f, ln):
        # gcov attaches no code to lines such as `do {`: the construct counts as reached when the next line that has code was executed
        for k in range(ln, ln + 4):
            if (f, k) in executed:
                return True
            if (f, k) in coded:
                return False
        return False
    rare_missing = [f'{f}:{ln}: {feat}' for feat, f, ln in rare if not reached(f, ln)]
    # a call that does not return (error_tok, unreachable) ends its basic block: gcov then has no arc to count and reports the
    # line as not executed even when it ran; such lines are listed separately
    noreturn = [m for m in missing if re.search(r'\b(error|error_at|error_tok|unreachable|exit|_exit|usage)\s*\(', m)]
    corr.extra['stage_comparison_line_coverage'] = {
        'how': 'gcc --coverage build of the snapshot run on every input of the stage comparison (corpus + directed + generated + driver battery); gcov line counts',
        'total': {'lines': tot, 'executed': hit, 'percent': round(100.0 * hit / max(1, tot), 2)},
        'per_file': per_file,
        'not_executed': [m for m in missing if m not in noreturn][:250],
        'not_executed_noreturn_calls': noreturn[:120],
        'rare_constructs': {'listed': len(rare), 'executed': len(rare) - len(rare_missing), 'not_executed': rare_missing},
    }
    corr.count('coverage-runs', len(work) + len(c12_inputs.BATTERY))
    if rare_missing:
        ctx.notes.append(f'{len(rare_missing)} rarely used construct(s) of the compiler are not reached by any input of the stage comparison: ' + '; '.join(rare_missing[:8]))

# ------------------------------------------------------------------------------------------ self-test of the audit
def audit_selftest(ctx, corr):
    """tie of the static audit: planted order-dependent (and harmless) expressions in a scratch copy of the sources must be
    listed (not listed) by tools/extract/c12audit.py and get the expected verdict from the Lean decision function"""
    import importlib
    snap = ctx.snapshot
    d = os.path.join(ctx.scratch, 'aud')
    os.makedirs(d, exist_ok=True)
    for f in SRC + ['chibicc.h']:
        shutil.copy(os.path.join(snap, f), os.path.join(d, f))
    open(os.path.join(d, 'strings.c'), 'a').write(c12_inputs.PLANTED_C)
    sys.path.insert(0, os.path.join(VERIF, 'tools/extract'))
    try:
        mod = importlib.import_module('c12audit')
        a = mod.Audit(d).run()
    except Exception as ex:
        corr.disagreements.append({'kind': 'audit-selftest', 'note': f'audit failed on the planted copy: {type(ex).__name__}: {ex}'[:400]})
        return
    finally:
        sys.path.pop(0)
    by_fn = {}
    for s in a.sites:
        if s['file'] == 'strings.c' and s['fn'].startswith('c12'):
            by_fn.setdefault(s['fn'], []).append(s)
    lines, order = [], []
    for fn, ss in sorted(by_fn.items()):
        for s in ss:
            locs = sorted({x for op in s['ops'] for x in op[2] + op[3] + op[4]} | set(s['store']))
            idx = {x: i for i, x in enumerate(locs)}
            io = ','.join(str(idx[x]) for x in locs if x.startswith('io:'))
            ops = ';'.join('%d/%d/%s/%s/%s' % (op[0], op[1], ','.join(str(idx[x]) for x in op[2]), ','.join(str(idx[x]) for x in op[3]),
                                                ','.join(str(idx[x]) for x in op[4])) for op in s['ops'])
            lines.append('\t'.join([s['file'], fn, s['text'].replace('\t', ' '), io, ','.join(str(idx[x]) for x in s['store']), ops]))
            order.append(fn)
    out = ctx.driver('verdict', '\n'.join(lines) + '\n').splitlines() if lines else []
    got = {}
    for fn, v in zip(order, out):
        got.setdefault(fn, []).append(v)
    for fn, exp in c12_inputs.PLANTED_EXPECT.items():
        corr.evaluations += 1
        corr.count('audit-selftest')
        g = got.get(fn)
        ok = (g is None) if exp == 'absent' else (g is not None and (('NONE' in g) if exp is None else all(v == exp for v in g)))
        if ok:
            corr.nontrivial.add('planted:' + fn)
        else:
            corr.disagreements.append({'kind': 'audit-selftest', 'input': fn, 'model': str(g), 'impl': 'expected ' + str(exp if exp else 'listed without verdict'),
                                       'note': 'planted expression in strings.c: static audit + Lean decision do not classify it as expected'})
    # the verdict table of the real sources goes into the evidence
    tbl = ctx.driver('sites', '').splitlines()
    corr.extra['unsequenced_sites'] = [' | '.join(l.split('\t')[:4]) + ' | ' + l.split('\t')[-1][:100] for l in tbl]
    corr.extra['audit_entries_without_verdict'] = [l.replace('\t', ' | ') for l in ctx.driver('unaccounted', '').splitlines()]

def correspond(ctx, corr):
    snap = ctx.snapshot
    stage1 = ctx.cc
    corr.rule = ('stage 2 = the sources compiled by the stage-1 binary (gcc-built), stage 3 = the sources compiled by stage 2.  Every corpus '
                 'input (the nine sources, test/*.c, token-mutated variants as a malformed stream) x option set (-S, -E, -S -fPIC, -S -fcommon), '
                 'the coverage corpus corpus/C12/cov (inputs written for the lines of the compiler nothing else executes; own option sets, one on stdin), '
                 'directed inputs (both operands of every operator / call / initializer list not constant, ill-typed or undeclared; the reviewed sites of the '
                 "audit; operations whose result C leaves undefined in the compiler's own arithmetic), generated programs that exercise the compiler's own "
                 "arithmetic (constant folding, literals, layouts, switch ladders) and the C files kept in the other properties' corpora, is run through stage 1 "
                 'and stage 2: stdout/output file, diagnostics and exit status must be identical; for the nine sources this is also stage-2 output = stage-3 '
                 'output.  Driver battery: 50 command lines (-c/-S/-E/-o, -M family, -x, -include, -D/-U, stdin, assembling, linking static/shared, error exits) '
                 'in a fresh directory per stage: exit status, stdout, stderr, every file produced (byte-identical) and the output of the linked programs must agree.  '
                 'Determinism: stage 1 is re-run with ASLR disabled, a different environment, cwd and wall-clock second; outputs must be identical.  '
                 'Static audit self-test: 18 planted expressions.  non-trivial = the output contains at least one function or 40 lines of text, or a '
                 'diagnostic with a source position; distinct = by (input text, options).')
    t0 = time.time()
    audit_selftest(ctx, corr)
    log(f'audit self-test {time.time() - t0:.1f}s')
    stage2, err = build_stage(ctx, stage1, 'stage2')
    if stage2 is None:
        corr.violations.append({'what': 'the compiler cannot compile itself', 'detail': err, 'input': 'make stage2/chibicc'})
        return
    stage3, err = build_stage(ctx, stage2, 'stage3')
    if stage3 is None:
        corr.violations.append({'what': 'the self-compiled compiler cannot compile the compiler', 'detail': err, 'input': 'stage2/chibicc -c *.c'})
        return
    optsets = [['-S'], ['-E'], ['-S', '-fPIC'], ['-S', '-fcommon']]
    if not ctx.thorough:
        optsets = optsets[:2] + [optsets[2 + ctx.seed % 2]]
    items = corpus(ctx)
    work = []     # (label, options, file, stdin text or None)
    # past failures and the coverage corpus first
    work += cov_corpus()
    for label, pre, f in items:
        for opts in optsets:
            work.append((label, pre + opts, f, None))
    ddir = os.path.join(ctx.scratch, 'dir')
    os.makedirs(ddir, exist_ok=True)
    for k, (kind, txt) in enumerate(c12_inputs.directed()):
        p = os.path.join(ddir, f'd{k}.c')
        open(p, 'w').write(txt)
        work.append((f'dir:{kind}', ['-S'], p, None))
        if kind == 'order-pp':
            work.append((f'dir:{kind}', ['-E'], p, None))
    for k, txt in enumerate(c12_inputs.random_order(ctx.rng, 150 if not ctx.thorough else 4000)):
        p = os.path.join(ddir, f'r{k}.c')
        open(p, 'w').write(txt)
        work.append(('dir:order-random', ['-S'], p, None))
    # malformed stream
    nmut = 40 if not ctx.thorough else 600
    mdir = os.path.join(ctx.scratch, 'mut')
    os.makedirs(mdir, exist_ok=True)
    tests = [i for i in items if i[0].startswith('test:')]
    for k in range(nmut):
        label, pre, f = ctx.rng.choice(tests)
        txt = open(os.path.join(snap, f), errors='replace').read()
        p = os.path.join(mdir, f'm{k}.c')
        open(p, 'w').write(mutate(ctx, txt))
        work.append((f'mut:{k}:{label}', ['-Iinclude', '-Itest', '-S'], p, None))
    gdir = os.path.join(ctx.scratch, 'gen')
    os.makedirs(gdir, exist_ok=True)
    for k, txt in enumerate(gen_programs(ctx, 60 if not ctx.thorough else 800)):
        p = os.path.join(gdir, f'g{k}.c')
        open(p, 'w').write(txt)
        work.append((f'gen:{k}', ['-S'], p, None))
    # programs kept by the other properties' checks (their corpora) are inputs here too
    for root, dirs, files in os.walk(os.path.join(VERIF, 'corpus')):
        if root.startswith(COVDIR):
            continue
        for fn in sorted(files):
            if fn.endswith('.c'):
                work.append(('corpus:' + os.path.relpath(os.path.join(root, fn), VERIF), ['-Iinclude', '-S'], os.path.join(root, fn), None))
    log(f'stages built {time.time() - t0:.1f}s; {len(work)} inputs')
    from concurrent.futures import ThreadPoolExecutor
    def one(w):
        res = []
        for exe in (stage1, stage2, stage3 if w[0].startswith('src:') else None):
            res.append(None if exe is None else run_item(exe, w, snap))
        return w, res
    with ThreadPoolExecutor(max_workers=NPROC) as ex:
        results = list(ex.map(one, work))
    for (label, args, f, stdin), res in results:
        corr.evaluations += 1
        corr.count(label.split(':')[0] if not label.startswith('dir:') else label)
        r1, r2, r3 = res
        key = hashlib.sha1((label + ' '.join(args) + f).encode()).hexdigest()
        if r1[1].count('\n') >= 40 or '.globl' in r1[1] or re.search(r':\d+: ', r1[2]):
            corr.nontrivial.add(key)
        if r1 != r2:
            which = 'exit status' if r1[0] != r2[0] else ('output' if r1[1] != r2[1] else 'diagnostics')
            keep_text = stdin is not None or label.startswith(('mut:', 'gen:', 'dir:'))
            corr.violations.append({'what': f'stage 1 and stage 2 compilers differ in {which}', 'input': f, 'options': args,
                                    'stage1': {'rc': r1[0], 'out_sha1': hashlib.sha1(r1[1].encode()).hexdigest(), 'err': r1[2][-300:]},
                                    'stage2': {'rc': r2[0], 'out_sha1': hashlib.sha1(r2[1].encode()).hexdigest(), 'err': r2[2][-300:]},
                                    'first_diff': first_diff(r1[1], r2[1]) if r1[1] != r2[1] else first_diff(r1[2], r2[2]),
                                    'stdin': stdin is not None,
                                    'input_text': (stdin if stdin is not None else read_input(snap, f)) if keep_text else None})
            return
        if r3 is not None and r2 != r3:
            corr.violations.append({'what': 'stage 2 output differs from stage 3 output', 'input': f, 'options': args, 'first_diff': first_diff(r2[1], r3[1])})
            return
        if r1[0] not in (0, 1):
            corr.count('signal-or-odd-status')
    src0 = next(i for i, w in enumerate(work) if w[0].startswith('src:'))
    corr.sample({'input': work[src0][2], 'options': work[src0][1], 'stage1_rc': results[src0][1][0][0], 'output_lines': results[src0][1][0][1].count('\n')})
    dk = next(i for i, w in enumerate(work) if w[0] == 'dir:order-const-int')
    corr.sample({'input_text': read_input(snap, work[dk][2]), 'options': work[dk][1], 'stage1_rc': results[dk][1][0][0], 'stage1_diagnostic': results[dk][1][0][2][-160:]})
    log(f'stage comparison done {time.time() - t0:.1f}s')
    # driver battery (main.c): same commands in a fresh directory per stage
    bres = []
    for name, exe in (('stage1', stage1), ('stage2', stage2)):
        bd = os.path.join(ctx.scratch, 'battery_' + name)
        os.makedirs(bd, exist_ok=True)
        bres.append(run_battery(exe, bd))
    for k, (x, y) in enumerate(zip(*bres)):
        corr.evaluations += 1
        corr.count('driver-battery')
        if x[3] or x[1]:
            corr.nontrivial.add(f'battery:{k}')
        if x != y:
            what = 'exit status' if x[0] != y[0] else 'stdout' if x[1] != y[1] else 'stderr' if x[2] != y[2] else 'files produced' if x[3] != y[3] else 'behaviour of the linked program'
            corr.violations.append({'what': f'driver battery: stage 1 and stage 2 differ in {what}', 'input': ' '.join(c12_inputs.BATTERY[k][0]), 'battery_index': k,
                                    'stage1': {'rc': x[0], 'out': x[1][-300:], 'err': x[2][-300:], 'files': x[3], 'ran': x[4]},
                                    'stage2': {'rc': y[0], 'out': y[1][-300:], 'err': y[2][-300:], 'files': y[3], 'ran': y[4]}})
            return
    corr.sample({'driver_battery_command': ' '.join(c12_inputs.BATTERY[0][0]), 'files_produced': sorted(bres[0][0][3]), 'program_output': bres[0][0][4]})
    link_reproducibility(ctx, corr, stage1)
    log(f'driver battery done {time.time() - t0:.1f}s')
    # line coverage of the compiler under the inputs that were just compared
    coverage_leg(ctx, corr, work)
    log(f'coverage leg done {time.time() - t0:.1f}s')
    # determinism of stage 1
    det = [w for w in work if w[0].startswith(('src:', 'test:')) and '-S' in w[1]]
    det = det if ctx.thorough else ctx.rng.sample(det, min(24, len(det)))
    junk_env = dict(os.environ, CHIBICC_VERIF_JUNK='x' * 4096, TZ='Pacific/Kiritimati', LANG='tr_TR.UTF-8', COLUMNS='13')
    time.sleep(1.1)
    prefix = ['setarch', 'x86_64', '-R'] if sh(['setarch', 'x86_64', '-R', 'true'])[0] == 0 else []
    corr.extra['aslr_disabled_leg'] = bool(prefix)
    def two(w):
        label, args, f, stdin = w
        txt = open(os.path.join(snap, f), errors='replace').read()
        if re.search(r'__DATE__|__TIME__|__TIMESTAMP__', txt):
            return w, None
        a = run_cc(stage1, args + ['-o', '-', f], snap)
        b = run_cc(stage1, args + ['-o', '-', f], snap, env=junk_env, prefix=prefix)
        return w, (a, b)
    with ThreadPoolExecutor(max_workers=NPROC) as ex:
        for (label, args, f, stdin), ab in ex.map(two, det):
            if ab is None:
                corr.count('skipped_date_time'); continue
            corr.evaluations += 1
            corr.count('determinism')
            if ab[0] != ab[1]:
                corr.violations.append({'what': 'output depends on the process environment / address-space layout / time', 'input': f, 'options': args,
                                        'first_diff': first_diff(ab[0][1], ab[1][1])})
                return

def first_diff(a, b):
    la, lb = a.splitlines(), b.splitlines()
    for i, (x, y) in enumerate(zip(la, lb)):
        if x != y:
            return {'line': i + 1, 'a': x[:200], 'b': y[:200]}
    return {'line': min(len(la), len(lb)) + 1, 'a': '<end>' if len(la) <= len(lb) else la[len(lb)][:200], 'b': '<end>' if len(lb) <= len(la) else lb[len(la)][:200]}

def search(ctx, broken, corr):
    """a theorem or the tie broke.  (a) audit theorem: name the sites without verdict and look for an input on which the two stages
    differ with a larger directed battery (random operand shapes at every operator); (b) confinement theorem: look for an
    observable dependence on the environment"""
    snap = ctx.snapshot
    try:
        bad = ctx.driver('unaccounted', '').splitlines()
        if bad:
            ctx.notes.append('entries of the audit of the compiler\'s own source without a verdict: ' + ' ;; '.join(b.replace('\t', ' | ')[:200] for b in bad[:8]))
            log('audit entries without verdict:', bad[:8])
    except Exception as ex:
        ctx.notes.append(f'drv_c12 unaccounted failed: {ex}'[:200])
    stage2, err = build_stage(ctx, ctx.cc, 'stage2s')
    if stage2:
        d = os.path.join(ctx.scratch, 'search')
        os.makedirs(d, exist_ok=True)
        from concurrent.futures import ThreadPoolExecutor
        def probe(kt):
            k, txt = kt
            p = os.path.join(d, f's{k}.c')
            open(p, 'w').write(txt)
            w = ('search', ['-S'], p, None)
            a, b = run_item(ctx.cc, w, snap), run_item(stage2, w, snap)
            os.unlink(p)
            return (p, txt, a, b) if a != b else None
        with ThreadPoolExecutor(max_workers=NPROC) as ex:
            for r in ex.map(probe, enumerate(c12_inputs.random_order(ctx.rng, 1500 if not ctx.thorough else 8000))):
                if r:
                    p, txt, a, b = r
                    return {'what': 'stage 1 and stage 2 compilers differ (directed search after a broken audit theorem)', 'input': p, 'options': ['-S'], 'input_text': txt,
                            'stage1': {'rc': a[0], 'err': a[2][-300:]}, 'stage2': {'rc': b[0], 'err': b[2][-300:]},
                            'first_diff': first_diff(a[1], b[1]) if a[1] != b[1] else first_diff(a[2], b[2])}
    items = corpus(ctx)
    envs = [dict(os.environ, TZ='UTC'), dict(os.environ, TZ='Asia/Tokyo', FOO='bar' * 1000)]
    for label, pre, f in items:
        txt = open(os.path.join(snap, f), errors='replace').read()
        if re.search(r'__DATE__|__TIME__|__TIMESTAMP__', txt):
            continue
        outs = []
        for i in range(3):
            outs.append(run_cc(ctx.cc, pre + ['-S', '-o', '-', f], snap, env=envs[i % 2]))
            time.sleep(0.4)
        if any(o != outs[0] for o in outs[1:]):
            j = next(i for i, o in enumerate(outs) if o != outs[0])
            return {'what': 'two runs of the same command differ', 'input': f, 'options': pre + ['-S'], 'first_diff': first_diff(outs[0][1], outs[j][1])}
    return None

def replay(ctx, corr, path):
    payload = json.load(open(path))
    f, args = payload.get('input'), payload.get('options')
    if payload.get('battery_index') is not None:
        stage2, err = build_stage(ctx, ctx.cc, 'stage2')
        res = []
        for name, exe in (('stage1', ctx.cc), ('stage2', stage2)):
            bd = os.path.join(ctx.scratch, 'battery_' + name)
            os.makedirs(bd, exist_ok=True)
            res.append(run_battery(exe, bd))
        k = payload['battery_index']
        corr.evaluations = 1
        print('replay: driver battery command', k, ' '.join(c12_inputs.BATTERY[k][0]), 'equal' if res[0][k] == res[1][k] else 'DIFFERENT')
        if res[0][k] != res[1][k]:
            corr.violations.append({'what': 'driver battery: stage 1 and stage 2 differ', 'input': payload.get('input'), 'stage1': res[0][k][:3], 'stage2': res[1][k][:3]})
        return
    if not f or args is None:
        corr.extra['replay'] = 'replay file names a broken theorem, not an input'
        return
    stdin = None
    if payload.get('input_text') is not None:
        if payload.get('stdin'):
            stdin, f = payload['input_text'], '-'
        else:
            f = os.path.join(ctx.scratch, 'replay_input.c')
            open(f, 'w').write(payload['input_text'])
    stage2, err = build_stage(ctx, ctx.cc, 'stage2')
    w = ('replay', args, f, stdin)
    a = run_item(ctx.cc, w, ctx.snapshot)
    b = run_item(stage2, w, ctx.snapshot)
    corr.evaluations = 1
    print('replay: stage1 rc', a[0], 'stage2 rc', b[0], 'equal' if a == b else 'DIFFERENT')
    if a != b:
        corr.violations.append({'what': 'stage 1 and stage 2 differ', 'input': f, 'options': args, 'first_diff': first_diff(a[1], b[1]) if a[1] != b[1] else first_diff(a[2], b[2]),
                                'input_text': payload.get('input_text')})

MANIFEST = {
    'level_text': 'PARTIAL. Lean 4 theorems (whole-list decide over lists regenerated from the object files and sources on every run) show (a) the '
                  'determinism half structurally: the compiler imports no libc function outside a classified table, nothing ambient (pid, '
                  'environment, random, cwd, host), reads the clock and file metadata only in the handlers of __DATE__/__TIME__/__TIMESTAMP__ and in '
                  'include lookup, makes temp names only in the driver, and never formats a pointer; (b) for the fixpoint half, that chibicc\'s own source does '
                  'not depend on what C leaves unspecified where that can be audited statically: every expression of the nine sources whose unsequenced / '
                  'indeterminately sequenced operands both have side effects (or one writes what another reads) is conflict-free by its effect sets or reviewed '
                  '(C12_no_unsequenced_effects; the class of the eval3 defect repaired in 7b517d1), every uninitialised local / realloc is accounted for, pointers '
                  'are ordered or subtracted only inside one character buffer and never converted to integers, no order-unstable library call. The fixpoint '
                  'itself (stage 1 = stage 2 = stage 3 behaviour) is NOT a theorem: no verified semantics of the C that chibicc is written in is available '
                  'offline; it is exercised as a correspondence leg (stage-1 vs stage-2 vs stage-3 binaries on the nine sources, the bundled tests, a '
                  'coverage corpus, directed and generated inputs, a malformed stream and a 55-command driver battery; line coverage of the compiler under these '
                  'inputs is measured with a gcov build on every run and recorded in the evidence; ASLR/env/cwd/time variation).',
    'level_note': 'Trusted: Lean kernel (3 standard axioms), tools/extract/envreads.py (nm + source scan), the libc classification table, the effect analysis '
                  'tools/extract/c12audit.py (self-tested on planted expressions each run, soundness not proved) and the reviewed tables of Model/C12Audit.lean, '
                  'gcc 12 as the reference compiler. The differential leg is testing, not proof, and is labelled as such; undefined behaviour of the compiler\'s '
                  'own arithmetic is covered by directed inputs only.',
    'technique': 'Lean 4 whole-table decide over translator-regenerated lists (environment-read confinement; unsequenced-effect / uninitialised-storage / '
                 'pointer-order audit of the compiler\'s own source from clang-14\'s typed AST); stage-1/2/3 differential execution with measured line coverage '
                 'as the correspondence leg',
    'design_ref': 'DESIGN.md section 6, C12',
}
