"""Exact binary floating-point helpers for checklib/C02.py (python3 stdlib only).

Formats: f32 = IEEE binary32, f64 = IEEE binary64, f80 = x87 double extended (explicit integer bit).
Values are `fractions.Fraction`; rounding is round-to-nearest, ties to even (the only mode C11 programs
run in on x86-64 unless they change it, and neither the generated programs nor chibicc do).

This is the *specification side* of the oracle: it is compared with gcc/the CPU on every case (a
difference there is a bug of this file, reported as a broken tie, never as a violation of chibicc).
"""
from fractions import Fraction

FMT = {
    'f32': {'p': 24, 'w': 8, 'size': 4, 'nbytes': 4},
    'f64': {'p': 53, 'w': 11, 'size': 8, 'nbytes': 8},
    'f80': {'p': 64, 'w': 15, 'size': 16, 'nbytes': 10},
}


def bias(fmt):
    return (1 << (FMT[fmt]['w'] - 1)) - 1


def emin(fmt):
    return 1 - bias(fmt)


def emax(fmt):
    return bias(fmt)


def pow2(e):
    return Fraction(1 << e) if e >= 0 else Fraction(1, 1 << -e)


def fields(fmt, bits):
    p, w = FMT[fmt]['p'], FMT[fmt]['w']
    if fmt == 'f80':
        return bits >> 79 & 1, bits >> 64 & 0x7fff, bits & ((1 << 64) - 1)
    return bits >> (p - 1 + w) & 1, bits >> (p - 1) & ((1 << w) - 1), bits & ((1 << (p - 1)) - 1)


def decode(fmt, bits):
    """-> ('nan', sign, quiet) | ('inf', sign) | ('fin', sign, Fraction magnitude) | ('invalid',)"""
    p, w = FMT[fmt]['p'], FMT[fmt]['w']
    s, e, m = fields(fmt, bits)
    top = (1 << w) - 1
    if fmt == 'f80':
        if e == top:
            if m >> 63 == 0:
                return ('invalid',)
            if m & ((1 << 63) - 1) == 0:
                return ('inf', s)
            return ('nan', s, bool(m >> 62 & 1))
        if e == 0:
            return ('fin', s, m * pow2(emin(fmt) - 63))
        if m >> 63 == 0:
            return ('invalid',)
        return ('fin', s, m * pow2(e - bias(fmt) - 63))
    if e == top:
        if m == 0:
            return ('inf', s)
        return ('nan', s, bool(m >> (p - 2) & 1))
    if e == 0:
        return ('fin', s, m * pow2(emin(fmt) - (p - 1)))
    return ('fin', s, ((1 << (p - 1)) + m) * pow2(e - bias(fmt) - (p - 1)))


def pack(fmt, s, e, m):
    p, w = FMT[fmt]['p'], FMT[fmt]['w']
    if fmt == 'f80':
        return s << 79 | e << 64 | m
    return s << (p - 1 + w) | e << (p - 1) | m


def inf_bits(fmt, s):
    top = (1 << FMT[fmt]['w']) - 1
    return pack(fmt, s, top, 1 << 63 if fmt == 'f80' else 0)


def qnan_bits(fmt, s=0, payload=0):
    p = FMT[fmt]['p']
    top = (1 << FMT[fmt]['w']) - 1
    if fmt == 'f80':
        return pack(fmt, s, top, 3 << 62 | payload)
    return pack(fmt, s, top, 1 << (p - 2) | payload)


def snan_bits(fmt, s=0, payload=1):
    top = (1 << FMT[fmt]['w']) - 1
    if fmt == 'f80':
        return pack(fmt, s, top, 1 << 63 | payload)
    return pack(fmt, s, top, payload)


def ilog2(x):
    """floor(log2 x) for a positive Fraction"""
    n, d = x.numerator, x.denominator
    e = n.bit_length() - d.bit_length()
    # 2^e <= x < 2^(e+1) up to one step
    if pow2(e) > x:
        e -= 1
    elif pow2(e + 1) <= x:
        e += 1
    return e


def round_mag(fmt, x):
    """round the non-negative Fraction x to the format: -> ('inf',) | ('fin', Fraction)"""
    p = FMT[fmt]['p']
    if x == 0:
        return ('fin', Fraction(0))
    e = max(ilog2(x), emin(fmt))
    q = pow2(e - (p - 1))
    n = x / q
    fl = n.numerator // n.denominator
    rem = n - fl
    if rem > Fraction(1, 2) or (rem == Fraction(1, 2) and fl % 2 == 1):
        fl += 1
    v = fl * q
    if v >= pow2(emax(fmt) + 1):
        return ('inf',)
    return ('fin', v)


def encode_exact(fmt, s, x):
    """bits of the finite value (-1)^s * x, or None when x is not representable"""
    p = FMT[fmt]['p']
    if x == 0:
        return pack(fmt, s, 0, 0)
    e = ilog2(x)
    if e > emax(fmt):
        return None
    ee = max(e, emin(fmt))
    n = x / pow2(ee - (p - 1))
    if n.denominator != 1:
        return None
    n = n.numerator
    if n >> p:
        return None
    if fmt == 'f80':
        if n >> 63:
            return pack(fmt, s, ee + bias(fmt), n)
        return pack(fmt, s, 0, n)
    if n >> (p - 1):
        return pack(fmt, s, ee + bias(fmt), n - (1 << (p - 1)))
    return pack(fmt, s, 0, n)


def round_bits(fmt, s, x):
    """bits of round-to-nearest-even((-1)^s * x) in the format (overflow -> infinity)"""
    r = round_mag(fmt, x)
    if r[0] == 'inf':
        return inf_bits(fmt, s)
    b = encode_exact(fmt, s, r[1])
    assert b is not None
    return b


def to_bytes(fmt_or_size, bits):
    n = FMT[fmt_or_size]['size'] if fmt_or_size in FMT else fmt_or_size
    return [(bits >> (8 * i)) & 0xff for i in range(n)]


def parse_literal(text):
    """C floating constant (without suffix) -> Fraction (exact value)"""
    t = text.lower()
    if t.startswith('0x'):
        t = t[2:]
        mant, _, ex = t.partition('p')
        ip, _, fp = mant.partition('.')
        n = int(ip + fp or '0', 16)
        return n * pow2(int(ex or '0') - 4 * len(fp))
    mant, _, ex = t.partition('e')
    ip, _, fp = mant.partition('.')
    n = int(ip + fp or '0')
    return Fraction(n) * Fraction(10) ** (int(ex or '0') - len(fp))


def trunc(x):
    """integer part of a (signed) Fraction toward zero"""
    n, d = x.numerator, x.denominator
    return n // d if n >= 0 else -((-n) // d)
