"""C13 - every input is answered with output or a located diagnostic.

Two halves (DESIGN.md section 6, C13):
  * Lean: Props/C13.lean proves totality / no-crash / located-diagnostic theorems on the component models
    (Model/LexTotal.lean is this property's own byte-level scanner with line numbers and explicit over-read outcomes).
  * real process: outcome-class campaign.  `chibicc -cc1` is run DIRECTLY (signals visible) twice per input - the plain
    snapshot binary and an ASan/UBSan build of the same snapshot - and the outcome is classified
        ok | diag(file,line) | signal | stack-overflow | internal-error | assertion | timeout | oom | silent-nonzero |
        sanitizer(kind) | bad-location | unlocated-diag | as-reject | valid-rejected
    Everything but ok / diag is a violation, clustered by signature = class@site (site = innermost chibicc function of the
    ASan/gdb backtrace, the function containing `internal error at file:line`, the asserting function, ...), shrunk by
    delta debugging and reported once per signature - or tagged with the known finding that lists that signature.
"""
import base64, threading, concurrent.futures, resource as _resource
from .framework import *
import itertools
from . import c13_gen as G

PROPERTY = 'C13'
# the component theorems of Props/C13Components.lean / C13Sites.lean / C13Codegen.lean are corollaries of the owners' theorems over the
# REGENERATED models: regenerate every one of them here too, so that a change of a translated function (e.g. the division guard of the
# constant folder) breaks the C13 obligation that rests on it and not only the owner's check
# (c10ifparse: C13_ifparse_nocrash / C13_ifline_nocrash; c14args: C13_args_nocrash; strjoin: C13_join_in_bounds; literals:
#  C13_phases_in_bounds rests on Gen/LitReadersGen; hashmap: C13_hashmap_nocrash / C13_rehash_nocrash)
GEN_MODULES = ['lexgen', 'literals', 'consteval', 'hashmap', 'pp', 'c10incl', 'c10ifparse', 'declspec', 'casttable', 'templates',
               'c14args', 'strjoin']
LEAN_TARGETS = ['ChibiVerif.Props.C13', 'ChibiVerif.Props.C13Components', 'ChibiVerif.Props.C13Sites', 'ChibiVerif.Props.C13Codegen',
                'ChibiVerif.Props.C13InitHang', 'ChibiVerif.Findings.C13', 'ChibiVerif.Findings.C13Sites']
PROPS_FILES = ['ChibiVerif/Props/C13.lean', 'ChibiVerif/Props/C13Components.lean', 'ChibiVerif/Props/C13Sites.lean',
               'ChibiVerif/Props/C13Codegen.lean', 'ChibiVerif/Props/C13InitHang.lean']
NEEDS_HOOKS = False
TRUSTED_BASE = [
    'Lean 4.33.0 kernel; axioms admitted: propext, Classical.choice, Quot.sound (audited per theorem on every run)',
    'hand-written model lean/ChibiVerif/Model/LexTotal.lean (read_file, BOM, canonicalize_newline, remove_backslash_newline, '
    'convert_universal_chars, the scanning loop of tokenize() with decode_utf8, error_at line counting, add_line_numbers) over '
    'arbitrary byte lists with positions as indices; tied on every run by outcome equality (ok / message id + line) with '
    '`chibicc -cc1 -E` on directive-free byte noise through drv_c13',
    'the component models of the sibling properties imported read-only by Props/C13Components.lean and Props/C13Sites.lean '
    '(Model/Lex, HashMap, Layout, Init, Literals, PP, CondIncl, PPExpr, IncludeSearch, IfParse, C14Args/C14Compose, StrJoin, and the '
    'translated Gen/StrJoinGen, Gen/LitReadersGen, Gen/C10IfParseGen, Gen/C14ArgsGen, which this check regenerates from the snapshot '
    'before the proofs are checked): their own ties are run by their owners\' '
    'checks, not here; the instrumented doubles of Model/C13Sites.lean are proved equal to the originals (lexLiteralI = lexLiteral '
    'for every byte list) and lexLiteralI is additionally run against `chibicc -cc1 -E` on generated literal texts (drv_c13 literal)',
    'gcov (gcc 12) on a --coverage build of the snapshot, used only to COUNT which error_tok/error_at/error call sites the seeds '
    'and a sample of the campaign reached (evidence; no verdict depends on it)',
    'python: generators, the classification of wait status and stderr, the signature extraction from ASan/UBSan/gdb text, '
    'delta debugging; gcc 12 -std=c11 -fsyntax-only as the conforming compiler of the "accepted" half; GNU as',
    'ASan/UBSan (gcc 12, -O1) as memory-error detector: this is testing, not proof; strict_memcmp is switched off after the '
    'equal() over-read has been reported once (known finding or violation)',
    'the parser, the type checker and the code generator as a whole are NOT modelled: for them the property is only sampled '
    'by the campaign (stated in DESIGN.md section 4 item 6)',
]
ASSUMPTIONS = [
    'a diagnostic line is accepted when 1 <= line <= (number of line terminators of the file as read_file sees it) + 1: the '
    'EOF token lives on the line after the last newline; lone CR counts as a terminator (canonicalize_newline)',
    'inputs containing a #line / # N directive are exempt from the line bound (diagnostics use presumed line numbers)',
    'diagnostics about the command line (unknown argument, -include file missing, <built-in> for -D text) cannot name a source line '
    'and are accepted as located',
    '"supported language" of the accepted half = what tools/gen/cprog.py and checklib/C13_gen.py generate (features exercised by '
    'test/*.c; no _Static_assert, _Complex, K&R definitions) and gcc -std=c11 -fsyntax-only accepts',
    'hang = no exit within 10 s of CPU-wall time or more than 3.5 GB resident',
    'latitude: invalid input that cc1 ACCEPTS is not a C13 violation (the property demands termination with output or a located '
    'diagnostic): e.g. duplicate labels, duplicate or overlapping case values, `void x;` at file scope, bit-field widths beyond the '
    'type, negative array sizes; the "accepted half" only judges programs gcc -std=c11 accepts, so these never reach it',
]

TIMEOUT = 10
ASAN_TIMEOUT = 40
RSS_LIMIT_KB = 3_500_000
BAD = ('signal', 'stack-overflow', 'internal-error', 'assertion', 'timeout', 'oom', 'silent-nonzero', 'sanitizer',
       'bad-location', 'unlocated-diag', 'as-reject', 'valid-rejected')

# ------------------------------------------------------------------------------------------------ builds

def build_asan(ctx):
    dst = os.path.join(ctx.scratch, 'repo_asan')
    exe = os.path.join(dst, 'chibicc')
    if os.path.exists(exe):
        return exe
    rc, o, e = sh(['rsync', '-a', '--exclude=*.o', '--exclude=/chibicc', '--exclude=*.exe', ctx.snapshot + '/', dst + '/'])
    if rc != 0:
        raise RuntimeError('rsync failed: ' + e)
    cflags = '-std=c11 -g -fno-common -Wall -Wno-switch -O1 -fsanitize=address,undefined -fno-sanitize-recover=all'
    rc, o, e = sh(['make', f'-j{NPROC}', 'chibicc', 'CC=gcc', f'CFLAGS={cflags}', 'LDFLAGS=-fsanitize=address,undefined'],
                  cwd=dst, timeout=900)
    if rc != 0:
        raise BuildFailure('/repo does not build with ASan/UBSan: ' + (e or o)[-1500:])
    return exe


# ------------------------------------------------------------------------------------------------ running one process

def run_proc(cmd, timeout, env=None, vlimit_kb=None, cwd=None):
    """returns (status, stderr bytes, maxrss_kb); status: ('exit', n) | ('signal', n) | ('timeout', 0)"""
    pre = 'ulimit -c 0; '
    if vlimit_kb:
        pre += f'ulimit -v {vlimit_kb}; '
    p = subprocess.Popen(['/bin/sh', '-c', pre + 'exec "$0" "$@"'] + cmd, stdin=subprocess.DEVNULL, stdout=subprocess.DEVNULL,
                         stderr=subprocess.PIPE, env=env, cwd=cwd)
    timed_out = [False]

    def kill():
        timed_out[0] = True
        try:
            os.kill(p.pid, signal.SIGKILL)      # not p.kill(): that polls and would reap the child before wait4
        except OSError:
            pass
    tm = threading.Timer(timeout, kill)
    tm.start()
    chunks = []
    total = 0
    try:
        while True:
            b = p.stderr.read(65536)
            if not b:
                break
            if total < 400000:
                chunks.append(b)
                total += len(b)
        _, st, ru = os.wait4(p.pid, 0)
    finally:
        tm.cancel()
        p.stderr.close()
    p.returncode = 0   # reaped by wait4; keep Popen.__del__ quiet
    err = b''.join(chunks)
    if timed_out[0]:
        return ('timeout', 0), err, ru.ru_maxrss
    if os.WIFSIGNALED(st):
        return ('signal', os.WTERMSIG(st)), err, ru.ru_maxrss
    return ('exit', os.WEXITSTATUS(st)), err, ru.ru_maxrss


def n_lines_max(data):
    """largest line number a diagnostic may carry for this file (see ASSUMPTIONS)"""
    if not data.endswith(b'\n'):
        data = data + b'\n'
    n = data.count(b'\n') + len(re.findall(rb'\r(?!\n)', data))
    return n + 1


LINE_DIRECTIVE = re.compile(rb'(?m)^[ \t]*#[ \t]*(?:line\b|[0-9])|%:|\?\?=')
FUNC_DEF = re.compile(r'^[A-Za-z_][\w\s\*]*?\b([A-Za-z_]\w*)\s*\(')


def enclosing_function(repo_dir, fname, line):
    try:
        lines = open(os.path.join(repo_dir, fname), errors='replace').read().splitlines()
    except OSError:
        return f'{fname}:{line}'
    for i in range(min(line, len(lines)) - 1, -1, -1):
        s = lines[i]
        if s[:1].isalpha() or s[:1] == '_':
            m = FUNC_DEF.match(s)
            if m and not s.rstrip().endswith(';'):
                return m.group(1)
    return f'{fname}:{line}'


FRAME = re.compile(r'#\d+\s+(?:0x[0-9a-f]+\s+in\s+)?([A-Za-z_]\w*)\s*(?:\(.*?\)\s+at\s+|\s)\s*(\S*?)([A-Za-z_]\w*\.c):(\d+)')
CHIBI_FILES = {'tokenize.c', 'preprocess.c', 'parse.c', 'type.c', 'codegen.c', 'main.c', 'unicode.c', 'hashmap.c', 'strings.c',
               'verif_dump.c'}


def innermost_frame(text):
    """first backtrace frame (ASan/UBSan/gdb) that lies in a chibicc source file -> (function, file, line)"""
    for m in FRAME.finditer(text):
        if m.group(3) in CHIBI_FILES:
            return m.group(1), m.group(3), int(m.group(4))
    return None


def recursing_function(text):
    """the chibicc function that occurs most often in a backtrace: names the recursion that overflowed the stack"""
    cnt = {}
    for m in FRAME.finditer(text):
        if m.group(3) in CHIBI_FILES:
            cnt[m.group(1)] = cnt.get(m.group(1), 0) + 1
    if not cnt:
        return None
    return sorted(cnt.items(), key=lambda kv: (-kv[1], kv[0]))[0][0]


DECL_NEST = re.compile(rb'(?:\(\s*\*?\s*){16,}[A-Za-z_]\w*')
INCLUDE = re.compile(rb'(?m)^[ \t]*#[ \t]*include(?:_next)?[ \t]*(?:"([^"\n]*)"|<([^>\n]*)>|(__FILE__))')


def include_cycle(case):
    """the files of the case include each other in a cycle that is reachable from the main file"""
    main = case.get('name', 'f.c')
    files = dict(case.get('files') or {})
    files[main] = case['data']
    graph = {}
    for name, data in files.items():
        outs = set()
        for m in INCLUDE.finditer(data):
            if m.group(3):
                outs.add(name)
            else:
                tgt = (m.group(1) or m.group(2) or b'').decode('utf-8', 'replace')
                for cand in files:
                    if cand == tgt or os.path.basename(cand) == os.path.basename(tgt):
                        outs.add(cand)
        graph[name] = outs
    seen, stack = set(), set()

    def dfs(n):
        seen.add(n)
        stack.add(n)
        for m in graph.get(n, ()):
            if m in stack or (m not in seen and dfs(m)):
                return True
        stack.discard(n)
        return False
    return dfs(main)


HUGE_INDEX = re.compile(rb'\[\s*(0[xX][0-9a-fA-F]+|[0-9]+)[uUlL]*\s*(?:\.\.\.\s*(0[xX][0-9a-fA-F]+|[0-9]+)[uUlL]*\s*)?\]')


def huge_array_init(case):
    """region of the known finding C13-huge-designator-index: the input contains `[N]` or `[M ... N]` (an array bound or an array
    designator) with N >= 2^24 AND an initializer (`=` followed by `{` or a string): new_initializer allocates one node per
    element, so cc1 needs gigabytes and minutes (timeout / oom), or calloc fails under the address-space limit of the
    harness and cc1 dies in new_initializer"""
    data = case['data']
    if len(data) > 200000 or not re.search(rb'=\s*(\{|[LuU8]*")', data):
        return False
    for m in HUGE_INDEX.finditer(data):
        for g in (m.group(1), m.group(2)):
            if g:
                try:
                    if int(g, 0 if g[:2].lower() == b'0x' else 10) >= (1 << 24):
                        return True
                except ValueError:
                    pass
    return False


def hang_site(case):
    """site of a timeout / memory exhaustion, decided on the input: a declarator nested in >= 16 parentheses (an identifier
    directly after 16 or more '(' each optionally followed by '*'), a cyclic #include graph, else the generator family"""
    if include_cycle(case):
        return 'include-cycle'
    if huge_array_init(case):
        return 'huge-array-initializer'
    if DECL_NEST.search(case['data']):
        return 'declarator-paren-nesting'
    return 'other:' + case.get('family', case['gen'])


def norm_msg(s):
    s = re.sub(r"'[^']*'", "'_'", s)
    s = re.sub(r'"[^"]*"', '"_"', s)
    s = re.sub(r'\d+', 'N', s)
    return s.strip()[:80]


class Runner:
    def __init__(self, ctx):
        self.ctx = ctx
        self.plain = ctx.cc
        self.asan = build_asan(ctx)
        self.asan_dir = os.path.dirname(self.asan)
        self.root = os.path.join(ctx.scratch, 'c13')
        os.makedirs(self.root, exist_ok=True)
        self.ctr = itertools.count()
        self.lock = threading.Lock()
        self.strict_memcmp = False
        self.base_env = {k: v for k, v in os.environ.items() if not k.startswith(('ASAN_', 'UBSAN_'))}

    def env_asan(self):
        e = dict(self.base_env)
        e['ASAN_OPTIONS'] = 'detect_leaks=0:abort_on_error=0:detect_stack_use_after_return=0:' \
                            'strict_memcmp=' + ('1' if self.strict_memcmp else '0')
        e['UBSAN_OPTIONS'] = 'print_stacktrace=1:halt_on_error=1'
        return e

    def case_dir(self, case):
        with self.lock:
            k = next(self.ctr)
        d = os.path.join(self.root, f'k{k}')
        os.makedirs(d)
        for name, content in (case.get('files') or {}).items():
            p = os.path.join(d, name)
            os.makedirs(os.path.dirname(p), exist_ok=True)
            with open(p, 'wb') as f:
                f.write(content)
        src = case.get('path')
        if not src:
            src = os.path.join(d, case.get('name', 'f.c'))
            with open(src, 'wb') as f:
                f.write(case['data'])
        return d, src

    def cmd(self, exe, src, d, case):
        opts = [o.replace('@DIR@', d).replace('@SNAP@', self.ctx.snapshot) for o in case.get('opts', [])]
        out = os.path.join(d, 'out.i' if '-E' in opts else 'out.s')
        c = [exe, '-cc1', '-cc1-input', src, '-cc1-output', out] + opts
        if '-E' in opts or '-M' in opts:
            c += ['-o', out]
        return c + [src], out

    # -------------------------------------------------------------------------------- classification
    def classify(self, status, err, rss, src, d, case, out, sanitized):
        """-> dict(cls, site, detail, line, msg)"""
        full = err.decode('utf-8', 'replace')
        # the diagnostics echo the offending source line, which can be 100 kB of one character: every regular expression
        # below runs on a copy with bounded line length (a quadratic `\w+` scan would stall all worker threads)
        text = '\n'.join(l[:600] for l in full.splitlines()[:3000])
        kind, n = status
        r = {'cls': None, 'site': '', 'detail': '', 'line': None, 'msg': ''}
        if kind == 'timeout':
            r['cls'] = 'oom' if rss > RSS_LIMIT_KB else 'timeout'
            r['site'] = hang_site(case)
            return r
        if 'AddressSanitizer' in text or 'runtime error:' in text or 'LeakSanitizer' in text:
            fr = innermost_frame(text)
            m = re.search(r'SUMMARY: AddressSanitizer: ([\w-]+)', text) or re.search(r'AddressSanitizer: ([\w-]+)', text)
            if m:
                k = m.group(1)
            else:
                m = re.search(r'runtime error: (.*)', text)
                k = 'ub:' + norm_msg(m.group(1)) if m else 'unknown'
            if k == 'stack-overflow':
                r['cls'] = 'stack-overflow'
                r['site'] = recursing_function(text) or '?'
            elif k in ('SEGV', 'FPE', 'ABRT', 'BUS', 'ILL'):
                r['cls'] = 'signal'
                r['detail'] = k
                r['site'] = fr[0] if fr else '?'
            elif k in ('out-of-memory', 'requested'):
                r['cls'] = 'oom'
                r['site'] = hang_site(case)
            else:
                r['cls'] = 'sanitizer'
                r['detail'] = k
                r['site'] = fr[0] if fr else '?'
            if fr:
                r['detail'] += f' {fr[1]}:{fr[2]}'
            return r
        if kind == 'signal':
            if rss > RSS_LIMIT_KB:
                r['cls'] = 'oom'
                r['site'] = hang_site(case)
                return r
            m = re.search(r'(\w+\.c):(\d+): (\w+): Assertion', text)
            if m:
                r['cls'] = 'assertion'
                r['site'] = m.group(3)
                r['detail'] = text.strip().splitlines()[-1][:160]
                return r
            r['cls'] = 'signal'
            r['detail'] = f'signal {n}'
            r['site'] = '?'
            return r
        if n == 0:
            r['cls'] = 'ok'
            return r
        m = re.search(r'internal error at (\S+?):(\d+)', text)
        if m:
            r['cls'] = 'internal-error'
            r['site'] = enclosing_function(self.ctx.snapshot, os.path.basename(m.group(1)), int(m.group(2)))
            r['detail'] = m.group(0)
            return r
        m = re.search(r'(\w+\.c):(\d+): (\w+): Assertion', text)
        if m:
            r['cls'] = 'assertion'
            r['site'] = m.group(3)
            r['detail'] = text.strip().splitlines()[-1][:160]
            return r
        if not text.strip():
            if rss > RSS_LIMIT_KB:
                r['cls'] = 'oom'
                r['site'] = hang_site(case)
                return r
            r['cls'] = 'silent-nonzero'
            r['site'] = f'rc{n}'
            return r
        lines = text.splitlines()
        first = full.split('\n', 1)[0][:8192]
        msg = ''
        for ln in full.split('\n')[1:6]:
            ln = ln.lstrip(' ')
            if ln.startswith('^ '):
                msg = ln[2:600]
                break
        r['msg'] = msg
        # the file name may contain ':'; the input path is known
        m = None
        cands = [src] + sorted((os.path.join(d, nme) for nme in (case.get('files') or {})), key=len, reverse=True)
        for c in cands:
            if first.startswith(c + ':'):
                m = re.match(r'(\d+): ', first[len(c) + 1:])
                if m:
                    fname = c
                    break
        if not m:
            m2 = re.match(r'(.*?):(-?\d+): ', first)
            if m2:
                fname, m = m2.group(1), re.match(r'(-?\d+)', m2.group(2))
        if not m:
            if re.match(r'(unknown argument|-include:|<command line>|no input files|cannot open output file|chibicc \[ -o <path> \] <file>)', first) \
               or first.startswith(src + ': ') \
               or any(first.startswith(o.replace('@DIR@', d) + ': ') for o in case.get('opts', []) if not o.startswith('-')):
                r['cls'] = 'diag'
                r['detail'] = 'command-line'
                return r
            r['cls'] = 'unlocated-diag'
            r['site'] = norm_msg(first)
            r['detail'] = first[:160]
            return r
        line = int(m.group(1))
        r['line'] = line
        if fname == '<built-in>' and any(o.startswith('-D') for o in case.get('opts', [])):
            r['cls'] = 'diag'
            r['detail'] = 'command-line'
            return r
        try:
            # a diagnostic names the file as cc1 was given it or as an #include spelled it: relative names are relative to the
            # working directory of the run (the case's cwd, else its scratch directory d)
            cwd = (case.get('cwd') or '').replace('@SNAP@', self.ctx.snapshot) or d
            data = open(fname if os.path.isabs(fname) else os.path.join(cwd, fname), 'rb').read()
        except OSError:
            r['cls'] = 'bad-location'
            r['site'] = 'file'
            r['detail'] = first[:160]
            return r
        exempt = bool(LINE_DIRECTIVE.search(data)) or bool(LINE_DIRECTIVE.search(case.get('data') or b''))
        if not exempt and not (1 <= line <= n_lines_max(data)):
            r['cls'] = 'bad-location'
            r['site'] = 'line0' if line == 0 else ('negative' if line < 0 else 'beyond-eof')
            r['detail'] = f'{os.path.basename(fname)}:{line} of {n_lines_max(data) - 1} lines: {msg}'
            return r
        r['cls'] = 'diag'
        r['detail'] = 'exempt' if exempt else ('eof-line' if line == n_lines_max(data) else '')
        return r

    def run_one(self, exe, case, d, src, sanitized):
        c, out = self.cmd(exe, src, d, case)
        if os.path.exists(out):
            os.unlink(out)
        cwd = case.get('cwd')
        if cwd:
            cwd = cwd.replace('@SNAP@', self.ctx.snapshot)
        else:
            cwd = d     # -MD / -MMD / default output names write into the working directory: keep that inside the scratch area
        if sanitized:
            st, err, rss = run_proc(c, ASAN_TIMEOUT, env=self.env_asan(), cwd=cwd)
        else:
            st, err, rss = run_proc(c, TIMEOUT, env=self.base_env, vlimit_kb=4_000_000, cwd=cwd)
        r = self.classify(st, err, rss, src, d, case, out, sanitized)
        r['stderr'] = err[:1500].decode('utf-8', 'replace')
        if r['cls'] == 'ok' and not sanitized and not ({'-E', '-M'} & set(case.get('opts', []))):
            if not os.path.exists(out):
                r['cls'] = 'silent-nonzero'
                r['site'] = 'no-output'
            else:
                rc, o, e = sh(['as', out, '-o', os.path.join(d, 'out.o')], timeout=120)
                if rc != 0 and re.search(rb'\basm\b|__asm__', case.get('data') or b''):
                    r['detail'] = 'as-rejects-user-asm'       # the text inside asm("…") is the user's, not the compiler's
                elif rc != 0:
                    em = [l for l in e.splitlines() if 'Error' in l or 'error' in l]
                    r['cls'] = 'as-reject'
                    r['site'] = norm_msg(re.sub(r'^.*?Error: ', '', em[0])) if em else 'as'
                    r['detail'] = (em[0] if em else e)[:200]
        return r

    def gdb_site(self, case, d, src):
        c, out = self.cmd(self.plain, src, d, case)
        rc, o, e = sh(['gdb', '-batch', '-nx', '-ex', 'run', '-ex', 'bt 300', '--args'] + c, timeout=90, env=self.base_env,
                      cwd=(case.get('cwd') or '').replace('@SNAP@', self.ctx.snapshot) or None)
        o = '\n'.join(l[:400] for l in o.splitlines())
        fr = innermost_frame(o)
        cnt = {}
        for m in FRAME.finditer(o):
            if m.group(3) in CHIBI_FILES:
                cnt[m.group(1)] = cnt.get(m.group(1), 0) + 1
        rec = max(cnt.items(), key=lambda kv: kv[1]) if cnt else None
        return fr, rec

    def run_case(self, case, which='both', keep=False):
        """-> outcome dict: cls, site, sig, plain{...}, asan{...}"""
        d, src = self.case_dir(case)
        try:
            res = {'plain': None, 'asan': None}
            if which in ('both', 'plain'):
                res['plain'] = self.run_one(self.plain, case, d, src, False)
            p = res['plain']
            skip_asan = p is not None and p['cls'] in ('timeout', 'oom')
            if which in ('both', 'asan') and not skip_asan:
                res['asan'] = self.run_one(self.asan, case, d, src, True)
            a = res['asan']
            # decide
            final = None
            if p and p['cls'] in BAD:
                final = dict(p)
                if p['cls'] == 'signal':
                    if a and a['cls'] in ('signal', 'stack-overflow', 'sanitizer'):
                        final = dict(a)
                        final['detail'] = p['detail'] + ' / asan: ' + a['detail']
                        if a['cls'] == 'sanitizer':
                            final['cls'] = 'signal'
                    elif which == 'both':
                        fr, rec = self.gdb_site(case, d, src)
                        if rec and rec[1] >= 40:
                            # the -O0 binary overflowed its stack where the sanitized -O1 build did not
                            final['cls'] = 'stack-overflow'
                            final['site'] = rec[0]
                            final['detail'] += f' gdb: {rec[1]} frames of {rec[0]} in the innermost 300'
                        elif fr:
                            final['site'] = fr[0]
                            final['detail'] += f' gdb {fr[1]}:{fr[2]}'
            elif a and a['cls'] in BAD:
                if a['cls'] in ('timeout', 'oom'):
                    final = None      # the sanitized build is slower; not a verdict
                    res['asan_slow'] = True
                elif a['cls'] == 'sanitizer' and a['detail'].startswith('ub:'):
                    final = None      # UBSan-only: undefined behaviour inside the compiler that neither kills nor misleads it
                    res['ubsan_only'] = a['detail'].split(' ')[0] + '@' + a['site']
                else:
                    final = dict(a)
            if final is None:
                base = p or a
                final = dict(base)
            # expectation of the "accepted" half
            if case.get('expect') == 'ok' and final['cls'] == 'diag':
                final = dict(final)
                final['cls'] = 'valid-rejected'
                final['site'] = norm_msg(final.get('msg') or '?')
                final['detail'] = (p or a)['stderr'][:300]
            if final['cls'] == 'signal' and final.get('site') in ('new_initializer', 'array_of', '?', 'calloc') and huge_array_init(case):
                final = dict(final)
                final['detail'] = f"in {final['site']}: " + final.get('detail', '')
                final['site'] = 'huge-array-initializer'      # calloc(…) returned NULL under the harness' address-space limit
            final['sig'] = final['cls'] + ('@' + final['site'] if final['cls'] in BAD else '')
            res['final'] = final
            return res
        finally:
            if not keep:
                shutil.rmtree(d, ignore_errors=True)


# ------------------------------------------------------------------------------------------------ shrinking

def ddmin(atoms, test, budget):
    n = 2
    while len(atoms) >= 2 and budget[0] > 0:
        chunk = max(1, len(atoms) // n)
        subsets = [atoms[i:i + chunk] for i in range(0, len(atoms), chunk)]
        reduced = False
        for i in range(len(subsets)):
            if budget[0] <= 0:
                break
            comp = [a for j, s in enumerate(subsets) if j != i for a in s]
            budget[0] -= 1
            if comp and test(comp):
                atoms = comp
                n = max(n - 1, 2)
                reduced = True
                break
        if not reduced:
            if chunk == 1:
                break
            n = min(len(atoms), n * 2)
    return atoms


def shrink(runner, case, sig, budget_runs):
    cls = sig.split('@')[0]
    which = 'asan' if cls in ('sanitizer', 'stack-overflow') else ('both' if cls == 'signal' else 'plain')
    if cls in ('timeout', 'oom'):
        budget_runs = min(budget_runs, 6)
    deadline = time.time() + (60 if cls in ('timeout', 'oom') else 30)
    data = case['data']
    textual = case.get('textual', True)
    atoms = G.lex_atoms(data) if textual and len(data) < 200000 else None
    if atoms is None:
        if len(data) <= 4096:
            atoms = [bytes([b]) for b in data]
        else:
            step = max(1, len(data) // 2048)
            atoms = [data[i:i + step] for i in range(0, len(data), step)]
    budget = [budget_runs]

    def test(at):
        if time.time() > deadline:
            budget[0] = 0
            return False
        c = dict(case, data=b''.join(at))
        c.pop('path', None)
        if cls == 'valid-rejected':
            d = os.path.join(runner.root, 'g%d' % next(runner.ctr))
            os.makedirs(d)
            ok = gcc_accepts(runner.ctx, c['data'], d, case.get('gcc_opts', []))
            shutil.rmtree(d, ignore_errors=True)
            if not ok:
                return False
        r = runner.run_case(c, which=which)
        return r['final']['sig'] == sig
    c0 = dict(case)
    c0.pop('path', None)
    if not test(atoms):
        return data, 0      # not reproducible through this binary alone: keep the original
    atoms = ddmin(atoms, test, budget)
    if len(b''.join(atoms)) <= 300 and budget[0] > 0:
        by = [bytes([b]) for b in b''.join(atoms)]
        by = ddmin(by, test, budget)
        atoms = by
    return b''.join(atoms), budget_runs - budget[0]


# ------------------------------------------------------------------------------------------------ known findings

def known_map():
    """signature -> id for the C13 entries of known_findings.json.  An entry lists its call sites in
    `signatures` (["class@site", ...]); failing that, the id C13-<site> matches every class at that site."""
    m, by_site = {}, {}
    for f in load_known().get('findings', []):
        if f.get('property') != PROPERTY:
            continue
        for s in f.get('signatures', []) or []:
            m[s] = f['id']
        if not f.get('signatures'):
            by_site[f['id'][len('C13-'):].replace('-', '_')] = f['id']
    return m, by_site


def match_known(sig, km):
    import fnmatch
    m, by_site = km
    if sig in m:
        return m[sig]
    for pat, fid in m.items():
        if pat in ('timeout@*', 'oom@*', 'signal@*', 'sanitizer@*'):
            continue            # too broad: a listed finding must name its call site
        if any(ch in pat for ch in '*?[') and fnmatch.fnmatchcase(sig, pat):
            return fid
    site = sig.split('@', 1)[1] if '@' in sig else ''
    return by_site.get(re.sub(r'\W', '_', site))


# ------------------------------------------------------------------------------------------------ the campaign

def b64(b):
    return base64.b64encode(b).decode()


def show(b, limit=400):
    s = b[:limit].decode('utf-8', 'backslashreplace')
    s = ''.join(ch if (ch.isprintable() or ch in '\n\t') else '\\x%02x' % ord(ch) for ch in s)
    return s + ('...[%d bytes]' % len(b) if len(b) > limit else '')


def load_seeds():
    d = os.path.join(VERIF, 'corpus', PROPERTY, 'seeds')
    exp = json.load(open(os.path.join(d, 'EXPECT.json')))
    out = []
    for name in sorted(exp):
        e = exp[name]
        data = open(os.path.join(d, name + '.c'), 'rb').read()
        out.append({'gen': 'seed', 'family': 'seed', 'id': name, 'data': data, 'opts': e.get('opts', []), 'name': name + '.c',
                    'expect_msg': e['message'], 'expect_line': e.get('line'), 'gcc': e.get('gcc')})
    return out


def load_regress():
    """corpus/C13/regress/*.json: minimised past failures {name, data_b64, opts, files_b64, textual, note}"""
    d = os.path.join(VERIF, 'corpus', PROPERTY, 'regress')
    out = []
    if os.path.isdir(d):
        for fn in sorted(os.listdir(d)):
            if fn.endswith('.json'):
                j = json.load(open(os.path.join(d, fn)))
                out.append({'gen': 'corpus', 'family': 'corpus', 'id': fn[:-5], 'data': base64.b64decode(j['data_b64']),
                            'opts': j.get('opts', []), 'textual': j.get('textual', True),
                            'files': {k: base64.b64decode(v) for k, v in (j.get('files_b64') or {}).items()},
                            'expect': j.get('expect')})
    return out


GCC_CONSTRAINT = re.compile(r'excess elements|braces around scalar|incompatible pointer|without a cast|read-only|'
                            r'initializer element is not|discards .* qualifier|incompatible types|too many arguments|too few arguments|'
                            r'implicit declaration|returning .* from a function with|initialized field overwritten')


def gcc_accepts(ctx, data, d, opts=()):
    p = os.path.join(d, 'g.c')
    with open(p, 'wb') as f:
        f.write(data)
    rc, o, e = sh(['gcc', '-std=c11', '-fsyntax-only', '-x', 'c'] + list(opts) + [p], timeout=60)
    # gcc only warns about some constraint violations; a program with one of them is not "valid"
    return rc == 0 and not GCC_CONSTRAINT.search(e)


def campaign(ctx, corr, cases, runner, km, budget_shrink=120, label=''):
    """run the cases, cluster failures, shrink one witness per signature, report.  Returns clusters."""
    t0 = time.time()
    results = [None] * len(cases)

    def work(i):
        try:
            results[i] = runner.run_case(cases[i])
        except Exception as ex:     # harness trouble is not a verdict about chibicc
            results[i] = {'final': {'cls': 'harness-error', 'site': type(ex).__name__, 'sig': 'harness-error', 'detail': str(ex)[:200]}}
    with concurrent.futures.ThreadPoolExecutor(max_workers=NPROC) as ex:
        list(ex.map(work, range(len(cases))))
    slow = [i for i, r in enumerate(results) if r['final']['cls'] in ('timeout', 'oom')]
    if slow:
        def again(i):
            r2 = runner.run_case(cases[i], which='plain')
            if r2['final']['cls'] not in ('timeout', 'oom'):
                results[i] = runner.run_case(cases[i])
                return 1
            return 0
        with concurrent.futures.ThreadPoolExecutor(max_workers=4) as ex:
            n = sum(ex.map(again, slow))
        # what is still slow is run once more with nothing else running: a loaded machine must not turn into a verdict
        still = [i for i in slow if results[i]['final']['cls'] in ('timeout', 'oom')]
        for i in still:
            if not match_known(results[i]['final']['sig'], km):
                n += again(i)
        if n:
            corr.count('timeout_not_reproduced_rerun', n)
    clusters = {}
    for case, res in zip(cases, results):
        f = res['final']
        corr.evaluations += 1
        corr.count('gen:' + case['gen'])
        corr.count('outcome:' + f['cls'])
        if res.get('asan_slow'):
            corr.count('asan_run_too_slow_ignored')
        if res.get('ubsan_only'):
            corr.count('ubsan_only')
            corr.count('ubsan_only:' + re.sub(r'[^\w@:.-]+', '_', res['ubsan_only'])[:70])
        if f['cls'] == 'ok' and f.get('detail'):
            corr.count('ok:' + f['detail'])
        if f['cls'] == 'diag':
            if f.get('detail'):
                corr.count('diag:' + f['detail'])
            if f.get('msg'):
                corr.extra.setdefault('_msgs', set()).add(norm_msg(f['msg']))
        if f['cls'] in BAD:
            clusters.setdefault(f['sig'], []).append((case, res))
        elif f['cls'] == 'harness-error':
            ctx.notes.append(f"harness error on {case['gen']}/{case.get('id')}: {f['detail']}")
        key = hashlib.sha1(case['data'] + b'\0' + ' '.join(case.get('opts', [])).encode('utf-8', 'surrogateescape')).hexdigest()
        # non-trivial: the run got past the command line, i.e. produced assembly or a diagnostic about the text, or crashed
        if f['cls'] != 'harness-error' and f.get('detail') != 'command-line':
            corr.nontrivial.add(key)
    log(f'C13 {label}: {len(cases)} inputs in {time.time() - t0:.1f}s, {len(clusters)} failing signatures')
    return clusters


def report_clusters(ctx, corr, runner, clusters, km, budget_shrink):
    """shrink a witness per signature (in parallel) and file it as violation / known hit"""
    items = sorted(clusters.items())

    def do(item):
        sig, lst = item
        lst = sorted(lst, key=lambda cr: len(cr[0]['data']))
        case, res = lst[0]
        c = dict(case)
        if res['final']['cls'] == 'signal' and not (res.get('asan') and res['asan']['cls'] in BAD):
            c['_plain_only'] = True
        if case.get('path'):
            c['opts'] = list(c.get('opts', [])) + ['-I' + os.path.dirname(os.path.join(
                (case.get('cwd') or '').replace('@SNAP@', runner.ctx.snapshot), case['path']))]
        try:
            if match_known(sig, km):
                small, used = c['data'], 0          # listed call site: no need to minimise again
            else:
                small, used = shrink(runner, c, sig, budget_shrink)
        except Exception as ex:
            small, used = c['data'], -1
            ctx.notes.append(f'shrink failed for {sig}: {ex}')
        return sig, lst, small, used
    with concurrent.futures.ThreadPoolExecutor(max_workers=max(2, NPROC // 2)) as ex:
        done = list(ex.map(do, items))
    out = []
    for sig, lst, small, used in done:
        case, res = lst[0]
        f = res['final']
        kid = match_known(sig, km)
        entry = {
            'what': f'cc1 outcome {f["cls"]} at {f["site"] or "?"} ({f.get("detail", "")})',
            'signature': sig, 'count': len(lst), 'generators': sorted({c['gen'] for c, _ in lst}),
            'input': show(small), 'input_b64': b64(small) if len(small) < 20000 else b64(small[:20000]),
            'input_len': len(small), 'opts': case.get('opts', []),
            'files_b64': {k: b64(v) for k, v in (case.get('files') or {}).items()},
            'textual': case.get('textual', True), 'expect': case.get('expect'),
            'expected': 'exit 0 with assembly that `as` accepts' if case.get('expect') == 'ok'
                        else 'exit 0 with assembly that `as` accepts, or a diagnostic <file>:<line>: with 1 <= line <= lines of the file',
            'got': f"{f['cls']} {f.get('detail', '')}; stderr: " + (res.get('plain') or res.get('asan') or {}).get('stderr', '')[:300],
            'shrink_runs': used,
        }
        if kid:
            entry['known_id'] = kid
            if kid not in corr.known_hits:
                corr.known_hits.append(kid)
        corr.violations.append(entry)
        out.append(entry)
    return out


def check_seeds(ctx, corr, runner, seeds):
    """the seeds carry their expected outcome (message id and line): the recorded expectation is the tie for the diagnostic
    sites.  A seed that crashes is a violation (through the campaign); one that answers differently is a disagreement."""
    sites = set()
    for s in seeds:
        r = runner.run_case(s, which='plain')
        f = r['final']
        if f['cls'] in BAD:
            continue
        got = f"{f['cls']} line {f.get('line')}: {f.get('msg')}"
        want = f"diag line {s['expect_line']}: ...{s['expect_msg']}..."
        ok = f['cls'] == 'diag' and s['expect_msg'] in (r['plain']['stderr'] or '') and \
            (s['expect_line'] is None or f.get('line') == s['expect_line'] or f.get('detail') == 'command-line')
        if ok:
            sites.add(s['expect_msg'])
        else:
            corr.disagreements.append({'kind': 'seed-expectation', 'input': show(s['data']), 'seed': s['id'], 'opts': s['opts'],
                                       'model': want, 'impl': got,
                                       'note': 'corpus/C13/seeds/EXPECT.json records the diagnostic each seed must produce'})
    corr.extra['diagnostic_messages_reached_by_seeds'] = len(sites)


def lex_tie(ctx, corr, runner, cases):
    """Model/LexTotal through drv_c13 vs `chibicc -cc1 -E` on directive-free byte strings: same class, same message, same line"""
    sel = [c for c in cases if G.lex_tie_ok(c['data'])]
    if not sel:
        return
    inp = ''.join(' '.join(str(b) for b in c['data']) + '\n' for c in sel)
    try:
        out = ctx.driver('lextotal', inp, timeout=900).splitlines()
    except ModelBuildFailure:
        raise
    except Exception as ex:
        corr.disagreements.append({'kind': 'driver', 'input': '', 'model': str(ex)[:300], 'impl': '', 'note': 'drv_c13 lextotal failed'})
        return
    if len(out) != len(sel):
        corr.disagreements.append({'kind': 'driver', 'input': '', 'model': f'{len(out)} lines', 'impl': f'{len(sel)} cases', 'note': ''})
        return

    def impl(c):
        cc = dict(c, opts=['-E'])
        r = runner.run_case(cc, which='plain')
        f = r['final']
        if f['cls'] == 'ok':
            return 'ok'
        if f['cls'] in ('diag', 'bad-location'):
            return f"diag {f.get('line')} {G.msg_id(f.get('msg') or r['plain']['stderr'])}"
        return f['cls']
    with concurrent.futures.ThreadPoolExecutor(max_workers=NPROC) as ex:
        impls = list(ex.map(impl, sel))
    for c, mo, io in zip(sel, out, impls):
        corr.evaluations += 1
        corr.count('lex_tie')
        mo_c = mo.split(' tokens=')[0]
        corr.count('lex_tie:' + mo_c.split(' ')[0])
        if mo_c.startswith('overread'):
            # the model says the scanner walks past the terminating NUL; the process then does whatever the stale buffer makes it do
            corr.count('lex_tie_overread_inputs')
            continue
        if mo_c != io:
            corr.disagreements.append({'kind': 'lex-outcome', 'input': show(c['data']), 'input_b64': b64(c['data']),
                                       'model': mo, 'impl': io, 'note': 'Model/LexTotal vs chibicc -cc1 -E'})
        else:
            corr.nontrivial.add('lex:' + hashlib.sha1(c['data']).hexdigest())


def literal_tie(ctx, corr, runner, texts):
    """drv_c13 literal (lexLiteralI on the text + newline) vs `chibicc -cc1 -E` on the same bytes: a diagnostic of the model must be
    the diagnostic of cc1 (same message); a literal that the model reads up to the newline must be accepted"""
    texts = [t for t in texts if t and b'\0' not in t and b'\n' not in t and b'\r' not in t and b'#' not in t and b'??' not in t]
    inp = ''.join(' '.join(str(b) for b in t + b'\n') + '\n' for t in texts)      # the model reads the text cc1 reads: literal + newline
    try:
        out = ctx.driver('literal', inp, timeout=600).splitlines()
    except ModelBuildFailure:
        raise
    except Exception as ex:
        corr.disagreements.append({'kind': 'driver', 'input': '', 'model': str(ex)[:300], 'impl': '', 'note': 'drv_c13 literal failed'})
        return
    if len(out) != len(texts):
        corr.disagreements.append({'kind': 'driver', 'input': '', 'model': f'{len(out)} lines', 'impl': f'{len(texts)} texts', 'note': 'drv_c13 literal'})
        return

    def impl(t):
        r = runner.run_case({'gen': 'literal-tie', 'family': 'literal-tie', 'data': t + b'\n', 'opts': ['-E'], 'textual': False}, which='plain')
        f = r['final']
        if f['cls'] == 'ok':
            return 'ok'
        if f['cls'] in ('diag', 'bad-location'):
            return f"diag {G.msg_id(f.get('msg') or r['plain']['stderr'])}"
        return f['cls']
    with concurrent.futures.ThreadPoolExecutor(max_workers=NPROC) as ex:
        impls = list(ex.map(impl, texts))
    for t, mo, io in zip(texts, out, impls):
        corr.evaluations += 1
        corr.count('literal_tie')
        w = mo.split()
        corr.count('literal_tie:' + ' '.join(w[:2]))
        if w[0] == 'overread':
            # the theorem says this never happens; if the executable model disagrees with the theorem the tie is broken
            corr.disagreements.append({'kind': 'literal-overread', 'input': show(t), 'input_b64': b64(t), 'model': mo, 'impl': io,
                                       'note': 'lexLiteralI produced the over-read outcome'})
            continue
        if w[0] == 'diag':
            if w[1] == 'not_a_literal':
                continue
            want = f'diag {w[1]}'          # (the line is the scanner model's business: Props/C13.lean, lex_tie)
        elif int(w[2]) == len(t):
            want = 'ok'
        else:
            corr.count('literal_tie_prefix_only')
            continue                      # the literal ends before the text does: what follows decides the outcome of cc1
        if io != want:
            corr.disagreements.append({'kind': 'literal-outcome', 'input': show(t), 'input_b64': b64(t), 'model': mo + ' => ' + want,
                                       'impl': io, 'note': 'Model/C13Sites.lexLiteralI vs chibicc -cc1 -E'})
        else:
            corr.nontrivial.add('lit:' + hashlib.sha1(t).hexdigest())


SITE_CALL = re.compile(r'\b(error_tok|error_at|error)\s*\(')
ABORT_CALL = re.compile(r'\bunreachable\s*\(\s*\)')
COV_FILES = ['tokenize.c', 'preprocess.c', 'parse.c', 'type.c', 'codegen.c', 'main.c', 'unicode.c', 'hashmap.c', 'strings.c']


def init_fuel_cases(rng, thorough):
    """adversarial declarations for the recursion budget of the initializer parser, in C05's vocabulary (type, tokens, C text)"""
    from . import C05 as c5
    INT = c5.BYNAME['int']
    def one(v=1):
        return c5.Ex(str(v), ival=v)
    def lst(n):
        out = []
        for k in range(n):
            out += ([','] if k else []) + [one(k + 1)]
        return out
    cases = []
    def add(name, ty, toks):
        cases.append({'name': name, 'ty': ty, 'toks': toks})
    depths = [1, 2, 3, 7, rng.randint(8, 24), rng.randint(25, 60)] + ([rng.randint(61, 150), 200] if thorough else [])
    for d in depths:
        add(f'scalar-braces-{d}', INT, ['{'] * d + [one()] + ['}'] * d)
        t = INT
        for _ in range(d):
            t = c5.Arr(t, 1)
        add(f'arr-nest-expr-{d}', t, [one()])
        add(f'arr-nest-braces-{d}', t, ['{'] * d + [one()] + ['}'] * d)
        add(f'arr-nest-desg-{d}', t, ['{'] + [('[', 0)] * d + ['=', one(), '}'])
        add(f'arr-nest-desg-oob-{d}', t, ['{'] + [('[', 0)] * (d - 1) + [('[', 1), '=', one(), '}'])
        t2 = INT
        for _ in range(d - 1):
            t2 = c5.Arr(t2, 1)
        t2 = c5.Arr(t2, None)
        add(f'inc-nest-braces-{d}', t2, ['{'] * d + [one()] + ['}'] * d)
        add(f'inc-nest-expr-{d}', t2, [one()])
        add(f'inc-nest-list-{d}', t2, ['{'] + lst(d) + ['}'])
        s_ = INT
        for _ in range(d):
            s_ = c5.Agg(False, [c5.Mem('m', s_)])
        add(f'st-nest-expr-{d}', s_, [one()])
        add(f'st-nest-brace1-{d}', s_, ['{', one(), '}'])
        add(f'st-nest-braces-{d}', s_, ['{'] * d + [one()] + ['}'] * d)
        add(f'st-nest-desg-{d}', s_, ['{'] + [('.', 'm')] * d + ['=', one(), '}'])
        add(f'st-nest-desg-nomem-{d}', s_, ['{'] + [('.', 'm')] * (d - 1) + [('.', 'zz'), '=', one(), '}'])
        a = c5.Agg(False, [c5.Mem('leaf', INT)])
        for _ in range(d - 1):
            a = c5.Agg(bool(rng.getrandbits(1)), [c5.Mem(None, a)])
        add(f'anon-nest-desg-{d}', a, ['{', ('.', 'leaf'), '=', one(), '}'])
        add(f'anon-nest-desg2-{d}', a, ['{', ('.', 'leaf'), '=', one(), ',', ('.', 'leaf'), '=', one(2), '}'])
        u = INT
        for _ in range(d):
            u = c5.Agg(True, [c5.Mem('m', u), c5.Mem('k', INT)])
        add(f'un-nest-expr-{d}', u, [one()])
        add(f'un-nest-braces-{d}', u, ['{'] * d + [one()] + ['}'] * d)
        add(f'un-nest-desg-{d}', u, ['{'] + [('.', 'm')] * d + ['=', one(), ',', ('.', 'k'), '=', one(2), '}'])
        b = c5.Agg(False, [c5.Mem(None, INT, bw=1) for _ in range(d)] + [c5.Mem('x', INT)])
        add(f'bf-skip-{d}', b, ['{', one(), '}'])
        add(f'bf-skip-nobrace-{d}', c5.Agg(False, [c5.Mem('s', b), c5.Mem('y', INT)]), ['{', one(), ',', one(2), '}'])
        add(f'list-{d}', c5.Arr(INT, d), ['{'] + lst(d) + ['}'])
        add(f'list-trailing-{d}', c5.Arr(INT, d), ['{'] + lst(d) + [',', '}'])
        add(f'list-inc-{d}', c5.Arr(INT, None), ['{'] + lst(d) + ['}'])
        add(f'list-short-{d}', c5.Arr(INT, 1000 * d), ['{'] + lst(d) + ['}'])
        add(f'excess-{d}', c5.Arr(INT, 1), ['{', one()] + [',', '{', '{', one(), '}', '}'] * d + ['}'])
        add(f'excess-deep-{d}', c5.Arr(INT, 0), ['{'] + ['{'] * d + [one()] + ['}'] * d + ['}'])
        add(f'excess-struct-{d}', c5.Agg(False, [c5.Mem('x', INT)]), ['{'] + lst(d + 1) + ['}'])
        add(f'missing-comma-{d}', c5.Arr(INT, d + 1), ['{', one(), one(2), '}'])
        add(f'unclosed-{d}', c5.Arr(INT, d + 1), ['{'] + lst(d))
        add(f'empty-struct-array-{d}', c5.Arr(c5.Agg(False, []), d), ['{', '}'])
        add(f'empty-struct-array-list-{d}', c5.Arr(c5.Agg(False, []), d), ['{'] + [x for k in range(d) for x in (([','] if k else []) + ['{', '}'])] + ['}'])
        add(f'range-{d}', c5.Arr(INT, 10 * d), ['{', ('[..', 0, 10 * d - 1), '=', one(), ',', ('[', d), '=', one(2), '}'])
        add(f'range-nest-{d}', c5.Arr(c5.Arr(INT, 3), 2 * d), ['{', ('[..', 1, 2 * d - 1), ('[..', 0, 2), '=', one(), '}'])
        fx = c5.Agg(False, [c5.Mem('n', INT), c5.Mem('d', c5.Arr(INT, 0))], flex=True)
        add(f'flex-{d}', fx, ['{', one(), ',', '{'] + lst(d) + ['}', '}'])
        add(f'flex-nobrace-{d}', fx, ['{', one(), ','] + lst(d) + ['}'])
    add('big-array-one', c5.Arr(INT, 100000), ['{', one(), '}'])
    add('big-array-last', c5.Arr(INT, 100000), ['{', ('[', 99999), '=', one(), '}'])
    add('big-array-empty', c5.Arr(INT, 100000), ['{', '}'])
    return cases


def init_fuel_tie(ctx, corr, runner, km):
    """the recursion budget of the initializer parser (Lemmas/C13InitFuel: needFuel, proved sufficient) through `drv_c13 initfuel`
    against cc1 on adversarial declarations: the model never answers `fuel`, the minimal budget is at most needFuel, the answer at
    needFuel is parseInit's, and cc1 itself ends (accepts exactly when the model accepts with nothing left, else one diagnostic)"""
    from . import C05 as c5
    cases = init_fuel_cases(ctx.rng, ctx.thorough)
    lines = [' '.join(c5.ty_words(c['ty']) + ['|'] + c5.tok_words(c['toks'])) for c in cases]
    try:
        out = ctx.driver('initfuel', '\n'.join(lines) + '\n', timeout=900).splitlines()
    except ModelBuildFailure:
        raise
    except Exception as ex:
        corr.disagreements.append({'kind': 'driver', 'input': '', 'model': str(ex)[:300], 'impl': '', 'note': 'drv_c13 initfuel failed'})
        return
    if len(out) != len(cases):
        corr.disagreements.append({'kind': 'driver', 'input': '', 'model': f'{len(out)} lines', 'impl': f'{len(cases)} cases', 'note': 'initfuel'})
        return

    def impl(c):
        defs = []
        c5.ty_defs(c['ty'], defs, set())
        text = ' '.join(defs) + '\n' + f"{c5.decl(c['ty'], 'x')} = {c5.tok_c(c['toks'])};\n"
        c['data'] = text.encode()
        r = runner.run_case({'gen': 'init-fuel', 'family': 'init-fuel', 'data': c['data'], 'opts': []}, which='plain')
        return r['final']
    with concurrent.futures.ThreadPoolExecutor(max_workers=NPROC) as ex:
        finals = list(ex.map(impl, cases))
    tight = 0
    for c, line, mo, f in zip(cases, lines, out, finals):
        corr.evaluations += 1
        corr.count('init_fuel_tie')
        m = re.match(r'(ok|diag|crash|fuel) rest=(\S+)(?: msg=\S+)? need=(\d+) std=(\d+) min=(\S+) stable=([01])$', mo)
        note = f"Lemmas/C13InitFuel (needFuel) / Model/Init.parseInit vs chibicc -cc1 [{c['name']}]"
        if not m:
            corr.disagreements.append({'kind': 'init-fuel', 'input': show(c['data']), 'input_b64': b64(c['data']), 'model': mo,
                                       'impl': f['cls'], 'note': note + ' (unparsable answer; line: ' + line[:200] + ')'})
            continue
        cls, rest, need, std, mn, stable = m.group(1), m.group(2), int(m.group(3)), int(m.group(4)), m.group(5), m.group(6)
        corr.count('init_fuel_tie:' + cls)
        if f['cls'] in BAD:
            e = {'what': f'cc1 outcome {f["cls"]} at {f.get("site")} on an initializer', 'signature': f.get('sig'), 'input': show(c['data']),
                 'input_b64': b64(c['data']), 'opts': [], 'expected': 'assembly or one located diagnostic (the parser terminates: C13_init_no_hang)',
                 'got': f"{f['cls']} {f.get('detail', '')}"}
            # no known finding applies here: the declarations are small (nesting <= 200 levels, <= 100000 elements)
            corr.violations.append(e)
            continue
        want = 'ok' if (cls == 'ok' and rest == '0') else 'diag'
        got = 'ok' if f['cls'] == 'ok' else ('diag' if f['cls'] in ('diag', 'bad-location') else f['cls'])
        if cls in ('fuel', 'crash') or mn == 'over' or stable != '1' or need > std or want != got:
            corr.disagreements.append({'kind': 'init-fuel', 'input': show(c['data']), 'input_b64': b64(c['data']), 'model': mo,
                                       'impl': f"{f['cls']} {f.get('msg') or ''}"[:200], 'note': note})
            continue
        if int(mn) + 8 >= need:
            tight += 1
        corr.nontrivial.add('initfuel:' + hashlib.sha1(c['data']).hexdigest())
    corr.extra['init_fuel_tie'] = {'cases': len(cases), 'minimal budget within 8 of needFuel': tight}


def build_cov(ctx):
    dst = os.path.join(ctx.scratch, 'repo_cov')
    exe = os.path.join(dst, 'chibicc')
    if os.path.exists(exe):
        return exe
    rc, o, e = sh(['rsync', '-a', '--exclude=*.o', '--exclude=/chibicc', '--exclude=*.exe', ctx.snapshot + '/', dst + '/'])
    if rc != 0:
        raise RuntimeError('rsync failed: ' + e)
    rc, o, e = sh(['make', f'-j{NPROC}', 'chibicc', 'CC=gcc', 'CFLAGS=-std=c11 -g -fno-common -O0 --coverage', 'LDFLAGS=--coverage'],
                  cwd=dst, timeout=900)
    if rc != 0:
        raise RuntimeError('coverage build failed: ' + (e or o)[-500:])
    return exe


def gcov_counts(cov_dir):
    """{(file, line): (count, text)} for the call sites of error_tok/error_at/error and unreachable()"""
    res = {}
    for f in COV_FILES:
        if not os.path.exists(os.path.join(cov_dir, f)):
            continue
        rc, o, e = sh(['gcov', '-t', f], cwd=cov_dir, timeout=120)
        for line in o.splitlines():
            m = re.match(r'\s*([^:]+):\s*(\d+):(.*)', line)
            if not m:
                continue
            cnt, ln, txt = m.group(1).strip(), int(m.group(2)), m.group(3)
            if cnt == '-' or re.match(r'\s*(void|static|noreturn|_Noreturn|//|#)', txt):
                continue
            kind = 'diag' if SITE_CALL.search(txt) else 'abort' if ABORT_CALL.search(txt) else None
            if not kind:
                continue
            c = 0 if cnt[0] in '#=' else int(re.sub(r'\D', '', cnt) or 0)
            res[(f, ln)] = (c, kind, txt.strip()[:100])
    return res


def site_coverage(ctx, corr, runner, seed_cases, other_cases):
    """run the seeds, then a sample of the other inputs, through a gcov build; count the diagnostic call sites reached"""
    exe = build_cov(ctx)
    cov_dir = os.path.dirname(exe)

    def run(case):
        d, src = runner.case_dir(case)
        try:
            c, out = runner.cmd(exe, src, d, case)
            cwd = (case.get('cwd') or '').replace('@SNAP@', ctx.snapshot) or d
            run_proc(c, TIMEOUT, env=runner.base_env, vlimit_kb=4_000_000, cwd=cwd)
        finally:
            shutil.rmtree(d, ignore_errors=True)

    def run_all(cases):
        with concurrent.futures.ThreadPoolExecutor(max_workers=max(2, NPROC // 2)) as ex:
            list(ex.map(run, cases))
    run_all(seed_cases)
    after_seeds = gcov_counts(cov_dir)
    sample = [c for c in other_cases if len(c['data']) < 20000 and c.get('family') not in ('deep',)]
    ctx.rng.shuffle(sample)
    run_all(sample[:700 if not ctx.thorough else 4000])
    after_all = gcov_counts(cov_dir)
    diag_sites = sorted(k for k, v in after_all.items() if v[1] == 'diag')
    cc1_sites = [k for k in diag_sites if k[0] != 'main.c']
    corr.extra['diagnostic_sites'] = {
        'total': len(diag_sites), 'total_outside_main_c': len(cc1_sites),
        'reached_by_seeds': sum(1 for k in diag_sites if after_seeds.get(k, (0,))[0] > 0),
        'reached_by_seeds_and_campaign_sample': sum(1 for k in diag_sites if after_all[k][0] > 0),
        'unreached': [f'{k[0]}:{k[1]} {after_all[k][2]}' for k in diag_sites if after_all[k][0] == 0],
        'unreachable_calls_executed': [f'{k[0]}:{k[1]}' for k, v in sorted(after_all.items()) if v[1] == 'abort' and v[0] > 0],
        'note': 'call sites of error_tok/error_at/error counted with gcov on a --coverage build of the snapshot; main.c sites belong to the '
                'driver (C14) and are reached only through options; an executed unreachable() would also show up as internal-error',
    }
    corr.count('coverage_runs', len(seed_cases) + min(len(sample), 700 if not ctx.thorough else 4000))


def correspond(ctx, corr):
    rng = ctx.rng
    runner = Runner(ctx)
    km = known_map()
    scale = 10 if ctx.thorough else 1
    corr.rule = ('one case = one byte string (+ options) given to `chibicc -cc1` directly, run on the plain and on the ASan/UBSan '
                 'build; non-trivial when the run got past the command line (assembly, a diagnostic about the text, or a crash); '
                 'distinct by sha1 of bytes+options')

    # 0. the equal() memcmp over-read makes every run of the sanitized binary fail under strict_memcmp; report it once
    probe = {'gen': 'probe', 'family': 'probe', 'data': b'int main(void) { return 0; }\n', 'opts': []}
    runner.strict_memcmp = True
    r = runner.run_case(probe, which='asan')
    runner.strict_memcmp = False
    all_clusters = {}
    if r['final']['cls'] in BAD:
        all_clusters.setdefault(r['final']['sig'], []).append((probe, r))
        corr.count('strict_memcmp_probe_failed')
    corr.evaluations += 1

    # 1. corpus of minimised past failures, then the seeds with their recorded expectation
    reg = load_regress()
    seeds = load_seeds()
    cl = campaign(ctx, corr, reg + seeds, runner, km, label='corpus+seeds')
    for k, v in cl.items():
        all_clusters.setdefault(k, []).extend(v)
    check_seeds(ctx, corr, runner, seeds)

    # 2. (a) the suite's sources and chibicc's own sources must be accepted
    must = G.must_accept_cases(ctx.snapshot)
    cl = campaign(ctx, corr, must, runner, km, label='suite+self')
    for k, v in cl.items():
        all_clusters.setdefault(k, []).extend(v)

    # 3. generated inputs
    bases = G.load_bases(ctx.snapshot, seeds)
    cases = []
    cases += G.gen_token_edits(rng, bases, 1200 * scale)
    cases += G.gen_seed_mutations(rng, seeds, 400 * scale)
    noise = G.gen_byte_noise(rng, 450 * scale)
    cases += noise
    cases += G.gen_deep(rng, ctx.thorough)
    cases += G.gen_pp_stress(rng, 150 * scale)
    cases += G.gen_options(rng, bases, 60 * scale)
    # (f) accepted half: only programs gcc accepts are kept
    valid = G.gen_valid(rng, 380 * scale) + G.gen_boundary(rng, 45 * scale) + G.gen_macro_histories(rng, 6 * scale)
    gdir = os.path.join(ctx.scratch, 'gcccheck')
    os.makedirs(gdir, exist_ok=True)

    def gcheck(i):
        d = os.path.join(gdir, str(i))
        os.makedirs(d, exist_ok=True)
        ok = gcc_accepts(ctx, valid[i]['data'], d, valid[i].get('gcc_opts', []))
        shutil.rmtree(d, ignore_errors=True)
        return ok
    with concurrent.futures.ThreadPoolExecutor(max_workers=NPROC) as ex:
        oks = list(ex.map(gcheck, range(len(valid))))
    for c, ok in zip(valid, oks):
        if ok:
            cases.append(c)
        else:
            corr.count('valid_gen_rejected_by_gcc_dropped')
    cl = campaign(ctx, corr, cases, runner, km, label='generated')
    for k, v in cl.items():
        all_clusters.setdefault(k, []).extend(v)

    # 4. cluster, shrink, report (before the model ties: a model that no longer builds must not hide what the binary did)
    entries = report_clusters(ctx, corr, runner, all_clusters, km, 400 if ctx.thorough else 120)
    msgs = corr.extra.pop('_msgs', set())
    corr.extra['distinct_diagnostic_messages_seen'] = len(msgs)
    corr.extra['clusters'] = [{k: e[k] for k in ('signature', 'count', 'generators', 'input', 'opts', 'known_id') if k in e}
                              for e in entries]
    corr.extra['component_theorems'] = component_theorems(ctx)
    for e in entries[:4]:
        corr.sample(f"{e['signature']} x{e['count']}: {e['input'][:120]!r}")
    for c in cases[:3]:
        corr.sample(f"{c['gen']}: {show(c['data'], 100)!r}")

    # 5. model tie for the scanner
    lex_tie(ctx, corr, runner, G.lex_tie_cases(rng, noise, 300 * scale))

    # 5b. the instrumented literal readers (Model/C13Sites.lexLiteralI, proved equal to C11's lexLiteral) against the tokenizer
    literal_tie(ctx, corr, runner, G.gen_literal_texts(rng, 250 * scale))

    # 5b'. the recursion budget of the initializer parser (Props/C13InitHang.lean) against cc1 on adversarial declarations
    init_fuel_tie(ctx, corr, runner, km)

    # 5c. which diagnostic call sites of the C code did the seeds / the campaign reach (gcov; evidence only)
    try:
        site_coverage(ctx, corr, runner, reg + seeds, must + cases)
    except Exception as ex:
        ctx.notes.append(f'site coverage not measured: {type(ex).__name__}: {str(ex)[:200]}')



def component_theorems(ctx):
    out = []
    for f in PROPS_FILES:
        p = os.path.join(ctx.lean_dir, f)
        if os.path.exists(p):
            out += re.findall(r'^theorem\s+(\S+)', open(p).read(), re.M)
    return out


def search(ctx, broken, corr):
    for b in broken:
        if b.get('kind') == 'correspondence':
            d = b['what']
            return {'what': f"{d.get('kind')}: {d.get('note', '')}", 'input': d.get('input'), 'input_b64': d.get('input_b64'),
                    'opts': d.get('opts', []), 'expected': d.get('model'), 'got': d.get('impl')}
    # a proof over a regenerated component model broke: directed grids for the components whose failure mode is a host trap.
    # Constant folder: every pair of boundary operands under / and % (one declaration per line; the first line that kills cc1 is the replay)
    try:
        runner = Runner(ctx)
        for form in ('static long g = ({a}) {op} ({b});', '#if ({a}) {op} ({b})\nint g;\n#endif', 'enum {{ g = (int)((({a}) {op} ({b})) & 1) }};'):
            for op in ('/', '%'):
                for a in G.CONST_EDGE:
                    for b in G.CONST_EDGE:
                        if b.strip('()ul') == '0':
                            continue
                        text = form.format(a=a, b=b, op=op)
                        if form.startswith('#if'):
                            text = text.replace('u)', ')').replace('l)', ')')
                        case = {'gen': 'search-constfold', 'family': 'search', 'data': (text + '\n').encode(), 'opts': [], 'textual': True}
                        r = runner.run_case(case, which='plain')
                        f = r['final']
                        if f['cls'] in ('signal', 'internal-error', 'assertion', 'timeout', 'silent-nonzero'):
                            return {'what': f'cc1 outcome {f["cls"]} at {f["site"]} (directed constant-folding grid)', 'signature': f['sig'],
                                    'input': text, 'input_b64': b64((text + '\n').encode()), 'opts': [],
                                    'expected': 'exit 0 or a located diagnostic', 'got': f"{f['cls']} {f.get('detail', '')}"}
    except Exception as e:
        ctx.notes.append(f'directed search raised {type(e).__name__}: {e}')
    return None


def replay(ctx, corr, path):
    j = json.load(open(path))
    runner = Runner(ctx)
    km = known_map()
    data = base64.b64decode(j['input_b64']) if j.get('input_b64') else (j.get('input') or '').encode()
    case = {'gen': 'replay', 'family': 'replay', 'data': data, 'opts': j.get('opts', []), 'textual': j.get('textual', True),
            'files': {k: base64.b64decode(v) for k, v in (j.get('files_b64') or {}).items()}, 'expect': j.get('expect')}
    if j.get('signature', '').endswith('MemcmpInterceptorCommon') or 'memcmp' in j.get('signature', ''):
        runner.strict_memcmp = True
    r = runner.run_case(case)
    f = r['final']
    corr.evaluations += 1
    corr.count('outcome:' + f['cls'])
    corr.sample(f"replay -> {f['sig']} {f.get('detail', '')}")
    if f['cls'] in BAD:
        e = {'what': f'cc1 outcome {f["cls"]} at {f["site"]}', 'signature': f['sig'], 'input': show(data), 'input_b64': b64(data),
             'opts': case['opts'], 'expected': j.get('expected'), 'got': f"{f['cls']} {f.get('detail', '')}"}
        kid = match_known(f['sig'], km)
        if kid:
            e['known_id'] = kid
            corr.known_hits.append(kid)
        corr.violations.append(e)


MANIFEST = {
    'level_text': 'proof (partial)',
    'level_note': 'Lean: the byte-level scanner model (read_file .. tokenize, Model/LexTotal) is total on every byte list and '
                  'answers ok or a diagnostic whose line lies in the file; per-component no-abort / located-diagnostic theorems on the '
                  'sibling models with every crash site of the C code an explicit outcome: hashmap, constant folder, lexer, macro '
                  'expansion (object-like), driver, #include machine (corollaries of C17/C07/C19/C09/C14/C10); collected from the '
                  'siblings\' later results, over the regenerated translations: the #if token line -> tree parser never runs out of its '
                  'bound and fails only with located diagnostics (C13_ifparse_nocrash, C13_ifline_nocrash from C10_ifparse_total), no argv '
                  'reaches a NULL dereference in parse_args (C13_args_nocrash from C14_args_total), no memcpy of '
                  'join_adjacent_string_literals leaves its allocation (C13_join_in_bounds from C11_join_bytes), no store of the three '
                  'in-place phase loops of tokenize.c leaves the text (C13_phases_in_bounds from C11_translated_phases), rehash reaches '
                  'no assert on any well-formed table (C13_rehash_nocrash from C17_rehash_spec); struct_decl/union_decl '
                  'division sites characterised exactly and never reached on any type description (with C08); get_struct_member; the '
                  'twelve mutually recursive functions of the initializer parser never index outside an initializer tree for every '
                  'type, token list and recursion budget, and never exhaust the budget: 2*tokens + 4*type nodes calls suffice for every type '
                  'and token list (C13_init_no_hang, C13_init_fuel_bound; `parseInit` is total on front-end inputs: C13_parseInit_total), '
                  'the bound run against cc1 on adversarial declarations; the literal readers never read behind the terminating NUL on any byte '
                  'list (instrumented double proved equal to C11\'s model); read_macro_args, the #if machine and its arithmetic; '
                  'gen_expr/gen_addr/gen_stmt fail only with located diagnostics on trees carrying their types (calls and atomics '
                  'outside).  Open: code generation of calls/atomics; the '
                  'parser and type checker as a whole are not modelled: for them the property is sampled by an outcome-class campaign '
                  'on the plain and the ASan/UBSan binary (about 3k inputs quick, 30k thorough), with one seed per reachable '
                  'error_tok/error_at call site (gcov-counted in the evidence).',
    'technique': 'Lean 4 totality/no-crash theorems on component models + outcome-class correspondence (wait status, stderr, `as`) '
                 'of the real cc1 under token/byte mutation, one seed per diagnostic site, generated valid programs checked by gcc '
                 '(incl. boundary immediates and long macro-table histories); model ties for the scanner and the literal readers',
    'design_ref': 'DESIGN.md section 6, C13',
}
