"""C20 - evaluation leaves no residue on the machine stack or the x87 stack (codegen.c).

Legs on every run:
  model <-> code : asm-text tie (checklib/codegen_tie.py): the Lean model of codegen.c, fed by the AST dump of the hooked
                   build, must print byte for byte what `chibicc -S` prints, on all test/*.c, chibicc's own sources and
                   seeded random programs                                                        -> corr.disagreements
  theorems' hypotheses <-> code : `drv_c20 scope` evaluates the typing side condition of the theorems (`typedS`) on every
                   function body the real front end dumped; a false hypothesis is reported as a disagreement
  property on the emitted code : `drv_c20 effect` runs Effect.checkBody (one stack height per label, nothing below the
                   frame, at most eight x87 registers, rsp back on every return) on the code of every dumped function;
                   because that code *is* the compiler's output (text tie), a failure is a violation on the implementation
  oracle <-> code : probe programs (tools/gen/c20probe.py): every expression/statement form x result type is evaluated
                   1, 9 and 100000 times between probes of %rsp and of the x87 TOP (helper built by gcc); compiled by the
                   snapshot chibicc and by gcc; rsp/x87 residue must be 0 and the long double check value (an expression
                   that needs all eight x87 registers) and the results must equal gcc's               -> corr.violations
"""
import os, sys, json, hashlib
from .framework import *
from . import codegen_tie

sys.path.insert(0, os.path.join(VERIF, 'tools', 'gen'))

PROPERTY = 'C20'
GEN_MODULES = ['casttable']
LEAN_TARGETS = ['ChibiVerif.Props.C20', 'ChibiVerif.Findings.C20']
PROPS_FILES = ['ChibiVerif/Props/C20.lean']
NEEDS_HOOKS = True
TRUSTED_BASE = [
    'Lean 4.33.0 kernel; axioms admitted: propext, Classical.choice, Quot.sound (audited per theorem on every run)',
    'hand-written model lean/ChibiVerif/Model/Codegen.lean of codegen.c (arm by arm), tied on every run by byte-for-byte '
    'equality of the assembly text with `chibicc -S` on test/*.c, chibicc\'s own sources and generated programs; the only '
    'normalisation is deleting the `# float/double/long double <value>` comments (this leg is testing)',
    'the AST dump hook in /repo (verif_dump.c, -verif-dump-ast; guard CHIBICC_VERIF) and its parser Model/Ast.lean: a wrong '
    'dump shows up as a text difference; the hooked and the plain build must print identical -S text for every file',
    'translator tools/extract/casttable.py: cast_table (121 cells parsed into instructions, macros expanded) and getTypeId '
    'are regenerated from the snapshot on every run; C20_cast_table is re-proved over whatever the table says now',
    'effect table Model/Effect.lean (insDelta): push/pop -/+8, sub/add $k,%rsp, fld*/fild*/fldz +1, fstp*/fistp*/f*p/fcomip/'
    'fucomip -1, every other listed mnemonic 0, anything else has no effect value and fails loudly; validated by the rsp / x87 '
    'TOP probes of the oracle leg on the real CPU',
    'gcc 12 (probe helper, gcc-built twin of every probe program), glibc, binutils as/ld, the host CPU',
]
ASSUMPTIONS = [
    'a call returns with %rsp as before it and with the x87 stack as before it, plus one register iff the callee returns '
    'long double (psABI); the model marks such calls (Line.insA "ret:f80")',
    'asm statements and assembler directives have no effect on %rsp and the x87 stack',
    'the typing side condition typedE/typedS (long-double-ness of a node agrees with that of its operands as add_type '
    'builds trees) — evaluated on every dumped tree on every run, not assumed for the corpus',
    'alloca/VLA allocation lowers %rsp by design (the explicit exception of C20); its `sub %rdi, %rsp` counts as 0 '
    'relative to the temporaries it moves',
    'sizes and offsets do not wrap around 32/64 bits in the model (Int arithmetic)',
]

KNOWN_EMPTY = 'C20-empty-struct-arg'
KNOWN_JUMP = 'C20-jump-out-of-stmt-expr'
EMPTY_WITNESS = 'struct E {}; int g(struct E e, int x) { return x; } int main(void) { struct E e; return g(e, 3) - 3; }\n'
JUMP_WITNESS = ('long f(void) { long n = 0; for (int i = 0; i < 9; i++) { n += 1 + ({ if (i % 2) continue; 2; }); } return n; }\n'
                'int main(void) { return f() != 15; }\n')


# ------------------------------------------------------------------------------------------------ dumps: effect + scope

def run_effect_scope(ctx, corr, dump, label, allow_known=False):
    drv = codegen_tie.model_driver(ctx)
    rc, o, e = sh([drv, 'effect', dump], timeout=300)
    bad = []
    for line in o.splitlines():
        w = line.split(' ', 3)
        if w[0] == 'fn':
            corr.count('effect_functions')
            if w[2] == 'VIOLATION':
                bad.append((w[1], w[3] if len(w) > 3 else ''))
            else:
                corr.count('effect_lines', int(w[3]))
        elif w[0] == 'codegen-failure':
            corr.count('effect_codegen_failure')
    rc2, o2, e2 = sh([drv, 'scope', dump], timeout=300)
    for line in o2.splitlines():
        w = line.split()
        if len(w) >= 8 and w[0] == 'fn' and w[2] == 'typed':
            corr.count('scope_stmts', int(w[5]))
            corr.count('scope_stmts_in_theorem_scope', int(w[7]))
            corr.count('scope_functions')
            if len(w) >= 10 and w[8] == 'depth_scope' and w[9] == '1':
                corr.count('scope_functions_in_depth_theorem_scope')
            if w[3] != '1':
                corr.disagreements.append({'kind': 'typing-hypothesis-false', 'file': label, 'function': w[1],
                                           'note': 'typedS is false on a tree the real front end produced: the side condition '
                                                   'of the C20 theorems does not describe parse()/add_type'})
    return bad


def on_file(ctx, corr, res, label):
    """after a successful tie of one file: check the code of every function"""
    dump = os.path.join(ctx.scratch, 'tie_work', 'dump.txt')
    if res['outcome'] != 'ok' or not os.path.exists(dump):
        return
    for fn, why in run_effect_scope(ctx, corr, dump, label):
        corr.violations.append({'what': f'residue on a path through {fn}: {why}', 'input': label,
                                'expected': 'one stack height per label, nothing below the frame, rsp 0 at return',
                                'got': why, 'leg': 'Effect.checkBody on the emitted code'})


# ------------------------------------------------------------------------------------------------ oracle leg (probes)

def build_probe(ctx, cases, tag, counts=(1, 9, 100000)):
    import c20probe
    d = os.path.join(ctx.scratch, 'probe_' + tag)
    os.makedirs(d, exist_ok=True)
    src = c20probe.program(cases, counts)
    open(os.path.join(d, 'p.c'), 'w').write(src)
    open(os.path.join(d, 'probe.c'), 'w').write(c20probe.PROBE_C)
    snap = ctx.take_snapshot(False)
    steps = [['gcc', '-c', 'probe.c', '-o', 'probe.o'],
             [ctx.cc, f'-I{snap}/include', '-c', 'p.c', '-o', 'p.o'],
             ['gcc', '-o', 'p', 'p.o', 'probe.o'],
             ['gcc', '-O0', '-w', '-std=gnu11', '-c', 'p.c', '-o', 'pg.o'],
             ['gcc', '-o', 'pg', 'pg.o', 'probe.o']]
    for cmd in steps:
        rc, o, e = sh(cmd, cwd=d, timeout=600)
        if rc != 0:
            return d, (cmd, rc, e[-600:])
    return d, None


def parse_probe(text):
    out = {}
    for line in text.splitlines():
        w = line.split()
        if len(w) >= 11 and w[0] == 'case' and w[3] == 'n' and w[5] == 'rsp' and w[7] == 'x87' and w[9] == 'chk':
            out[(int(w[1]), int(w[4]))] = {'form': w[2], 'rsp': int(w[6]), 'x87': int(w[8]), 'chk': w[10],
                                          'val': ' '.join(w[12:])}
    return out


def run_probes(ctx, corr, cases, tag, known=False):
    """returns list of violation dicts"""
    import c20probe
    d, err = build_probe(ctx, cases, tag)
    if err:
        cmd, rc, e = err
        if os.path.basename(cmd[0]) == 'chibicc':
            # bisect: a form the compiler rejects or dies on
            if len(cases) > 1:
                h = len(cases) // 2
                return run_probes(ctx, corr, cases[:h], tag + 'a', known) + run_probes(ctx, corr, cases[h:], tag + 'b', known)
            corr.count('probe_compile_failure')
            return [{'what': 'probe form does not compile with chibicc', 'input': cases[0][3], 'expected': 'compiles (gcc accepts it)',
                     'got': f'rc={rc} {e[-200:]}'}]
        raise RuntimeError(f'probe build failed: {cmd} rc={rc} {e}')
    rc1, o1, e1 = sh(['./p'], cwd=d, timeout=900)
    rc2, o2, e2 = sh(['./pg'], cwd=d, timeout=900)
    a, b = parse_probe(o1), parse_probe(o2)
    vio = []
    if rc1 != 0 and len(cases) > 1:
        h = len(cases) // 2
        return run_probes(ctx, corr, cases[:h], tag + 'a', known) + run_probes(ctx, corr, cases[h:], tag + 'b', known)
    for key in sorted(b):
        idx, n = key
        kind, tkey, name, body = cases[idx]
        corr.evaluations += 1
        corr.count(f'probe_n{n}')
        g = b[key]
        c = a.get(key)
        case_src = f'{tkey}.{name}: {body}  (x{n})'
        if c is None:
            vio.append({'what': 'chibicc-built probe program died before this case', 'input': case_src, 'expected': 'runs',
                        'got': f'rc={rc1}'})
            continue
        if g['rsp'] != 0 or g['x87'] != 0:
            corr.count('probe_gcc_nonzero')      # the probe itself would be wrong
            continue
        if n > 1:
            corr.nontrivial.add(f'{tkey}.{name}')
        if c['rsp'] != 0 or c['x87'] != 0:
            vio.append({'what': f'residue after {n} evaluation(s): rsp {c["rsp"]} bytes, x87 {c["x87"]} registers', 'input': case_src,
                        'expected': 'rsp 0 x87 0', 'got': f'rsp {c["rsp"]} x87 {c["x87"]}'})
        elif c['chk'] != g['chk']:
            vio.append({'what': 'long double check value differs from gcc after the loop (x87 stack corrupted)', 'input': case_src,
                        'expected': g['chk'], 'got': c['chk']})
        elif c['val'] != g['val']:
            # a wrong *value* with balanced stacks belongs to another property (C01/C02/C05/C06/C16)
            corr.count('probe_value_differs_other_property')
            ctx.notes.append(f'value differs from gcc (not a C20 matter): {case_src}: chibicc {c["val"]} gcc {g["val"]}')
    return vio


def known_witnesses(ctx, corr):
    """replay the witnesses of the known findings on the implementation"""
    import c20probe
    snap = ctx.take_snapshot(False)
    d = os.path.join(ctx.scratch, 'known')
    os.makedirs(d, exist_ok=True)
    # empty struct argument: cc1 aborts on assert(depth == 0)
    p = os.path.join(d, 'empty.c')
    open(p, 'w').write(EMPTY_WITNESS)
    rc, o, e = sh([ctx.cc, '-S', '-o', os.path.join(d, 'empty.s'), p], timeout=60)
    corr.evaluations += 1
    if rc != 0:
        corr.known_hits.append(KNOWN_EMPTY)
        corr.violations.append({'known_id': KNOWN_EMPTY, 'what': 'empty struct argument: codegen aborts (depth == -1)',
                                'input': EMPTY_WITNESS, 'expected': 'assembly', 'got': f'rc={rc} {e.strip()[-160:]}'})
    # jump out of a statement expression under a pending push
    vio = run_probes(ctx, corr, [c20probe.KNOWN_JUMP_OUT], 'knownjump')
    if vio:
        corr.known_hits.append(KNOWN_JUMP)
        v = dict(vio[0])
        v['known_id'] = KNOWN_JUMP
        corr.violations.append(v)


def in_known_region(src):
    """a program that contains the syntactic shape of a known finding (used for generated programs)"""
    return bool(re.search(r'struct\s+\w*\s*\{\s*\}', src))


# ------------------------------------------------------------------------------------------------ plugin entry points

def correspond(ctx, corr):
    import c20probe
    corr.rule = ('(1) asm-text tie: every test/*.c, every chibicc source and seeded random programs (tools/gen/cprog.py) are compiled '
                 'by the hooked snapshot with -S and -verif-dump-ast; the Lean model must print the same text; non-trivial = the '
                 'file defines at least one function, distinct = by sha1 of the assembly.  (2) Effect.checkBody and the typing side '
                 'condition are evaluated on every dumped function.  (3) probe programs: each expression/statement form x result '
                 'type evaluated 1, 9, 100000 times between rsp/x87 probes, chibicc build vs gcc build; non-trivial = a form run '
                 'more than once, distinct = by type.form.')
    files = [(f, ()) for f in codegen_tie.corpus_files(ctx)]
    ngen = 300 if ctx.thorough else 25
    gen = codegen_tie.generated_files(ctx, ngen)
    t0 = time.time()
    for ent in files + gen:
        res = codegen_tie.asm_text_tie(ctx, corr, [ent])[0]
        on_file(ctx, corr, res, ent[0] if not os.path.isabs(ent[0]) else f'generated:{os.path.basename(ent[0])} seed={ctx.seed}')
        if res['outcome'] == 'disagree':
            break
    corr.extra['tie_wall_s'] = round(time.time() - t0, 1)
    corr.extra['tie_files'] = len(files) + len(gen)
    # fixed -fPIC / -fcommon passes over part of the corpus
    extra = [('test/tls.c', ('-fPIC',)), ('test/function.c', ('-fPIC',)), ('test/commonsym.c', ('-fno-common',)),
             ('test/commonsym.c', ('-fcommon',)), ('test/variable.c', ('-fPIC', '-fno-common'))]
    snap = ctx.take_snapshot(False)
    for f, fl in extra:
        if os.path.exists(os.path.join(snap, f)) and not corr.disagreements:
            codegen_tie.asm_text_tie(ctx, corr, [(f, fl)])
    # oracle leg
    cases = c20probe.all_cases()
    if not ctx.thorough:
        must = [c for c in cases if c[1] in ('ldouble', 'S32') or c[2] in ('for_inc', 'for_inc_call', 'castvoid', 'comma', 'callmany', 'assign2')]
        rest = [c for c in cases if c not in must]
        ctx.rng.shuffle(rest)
        cases = must + rest[:250]
    corr.extra['probe_forms'] = len(cases)
    for v in run_probes(ctx, corr, cases, 'main'):
        corr.violations.append(v)
    known_witnesses(ctx, corr)
    corr.sample({'probe': 'ldouble.callmany x100000 -> rsp 0 x87 0, chk = gcc'})


def search(ctx, broken, corr):
    """a proof or the tie broke: look for a concrete program on which the implementation leaves residue"""
    import c20probe
    vio = run_probes(ctx, Corr(), c20probe.all_cases(), 'search')
    if vio:
        return vio[0]
    # whole-function check on more generated programs
    c2 = Corr()
    for ent in codegen_tie.generated_files(ctx, 60, subdir='gen_search'):
        res = codegen_tie.asm_text_tie(ctx, c2, [ent])[0]
        on_file(ctx, c2, res, ent[0])
        live = [v for v in c2.violations if 'known_id' not in v]
        if live:
            v = live[0]
            try:
                v['input'] = open(ent[0]).read()
            except OSError:
                pass
            return v
    return None


def replay(ctx, corr, path):
    payload = json.load(open(path))
    src = payload.get('input')
    if not isinstance(src, str):
        raise RuntimeError('replay file has no input program')
    import c20probe
    if ': ' in src and src.endswith(')') and '(x' in src:
        # a probe case "type.form: body  (xN)"
        head, rest = src.split(': ', 1)
        body = rest.rsplit('  (x', 1)[0]
        tkey, name = head.split('.', 1)
        kind = 'struct' if tkey in c20probe.STRUCTS else 'scalar'
        for v in run_probes(ctx, corr, [(kind, tkey, name, body)], 'replay'):
            corr.violations.append(v)
        return
    p = os.path.join(ctx.scratch, 'replay.c')
    open(p, 'w').write(src if '\n' in src else open(os.path.join(ctx.take_snapshot(False), src)).read())
    res = codegen_tie.asm_text_tie(ctx, corr, [(p, ())])[0]
    on_file(ctx, corr, res, 'replay')


MANIFEST = {
    'level_text': 'proof (partial): effect semantics + structural induction over the Node tree of the code-generation model. depth half '
                  '(assert(depth == 0), call-alignment parity): all 47 node kinds. rsp/x87 half: every straight-line expression kind '
                  'incl. calls with any argument list, every operand type; whole-function label-height check and rsp/x87 probes on '
                  'the implementation for code with labels',
    'level_note': 'C20_depth_partial / C20_assert hold for every tree whose calls pass no empty struct (all node kinds). C20_expr_partial / '
                  'C20_expr_balanced_partial / C20_addr_partial / C20_stmt_partial / C20_repeat_partial / C20_one_value_partial / '
                  'C20_call_partial / C20_assert_partial / C20_cast_table are proved for all trees in the decidable scope covE/covA/covS; '
                  'C20_expr_Statement, C20_stmt_Statement, C20_function_Statement (COND, LOGAND, LOGOR, STMT_EXPR, CAS, alloca, '
                  'control-flow statements: code with labels) are open and covered by Effect.checkBody on every emitted function plus '
                  'CPU probes; two known findings (empty struct argument, jump out of a statement expression) are kernel-checked '
                  'counterexamples of the full statements',
    'technique': 'Lean 4 machine-checked proof; model tied to codegen.c by byte-for-byte assembly text equality on every run',
    'design_ref': 'DESIGN.md section 6, C20',
}
