"""C20 - evaluation leaves no residue on the machine stack or the x87 stack (codegen.c).

Legs on every run:
  model <-> code : asm-text tie (checklib/codegen_tie.py): the Lean model of codegen.c, fed by the AST dump of the hooked
                   build, must print byte for byte what `chibicc -S` prints, on all test/*.c, chibicc's own sources and
                   seeded random programs                                                        -> corr.disagreements
  theorems' hypotheses <-> code : `drv_c20 scope` evaluates the typing side condition of the theorems (`typedS`) on every
                   function body the real front end dumped; a false hypothesis is reported as a disagreement.
                   `drv_c20 flow` evaluates, per function, the hypotheses of the label-height theorems
                   C20_function_flow_partial / C20_function_check_partial — all three about the TREE: typedS, flowFn and
                   treeDistinct (the labels parse.c gave the loops, switches, cases and labelled statements with
                   new_unique_name() are pairwise distinct) — and their conclusions on the CODE (the parser's labels occur
                   once each; all labels pairwise distinct; Effect.checkBody accepts or complains about the range only): a
                   false hypothesis on a real tree, and a function inside the theorems' scope that contradicts a
                   conclusion, are disagreements; the scope coverage and the x87 register need of every function (region
                   of C20-x87-depth-overflow) are counted
  property on the emitted code : `drv_c20 effect` runs Effect.checkBody (one stack height per label, nothing below the
                   frame, at most eight x87 registers, rsp back on every return) on the code of every dumped function;
                   because that code *is* the compiler's output (text tie), a failure is a violation on the implementation
  oracle <-> code : probe programs (tools/gen/c20probe.py): every expression/statement form x result type is evaluated
                   1, 9 and 100000 times between probes of %rsp and of the x87 TOP (helper built by gcc); compiled by the
                   snapshot chibicc and by gcc; rsp/x87 residue must be 0 and the long double check value (an expression
                   that needs all eight x87 registers) and the results must equal gcc's               -> corr.violations
"""
import os, sys, json, hashlib
from .framework import *
from . import codegen_tie

sys.path.insert(0, os.path.join(VERIF, 'tools', 'gen'))

PROPERTY = 'C20'
GEN_MODULES = ['casttable']
LEAN_TARGETS = ['ChibiVerif.Props.C20', 'ChibiVerif.Findings.C20']
PROPS_FILES = ['ChibiVerif/Props/C20.lean']
NEEDS_HOOKS = True
TRUSTED_BASE = [
    'Lean 4.33.0 kernel; axioms admitted: propext, Classical.choice, Quot.sound (audited per theorem on every run)',
    'hand-written model lean/ChibiVerif/Model/Codegen.lean of codegen.c (arm by arm), tied on every run by byte-for-byte '
    'equality of the assembly text with `chibicc -S` on test/*.c, chibicc\'s own sources and generated programs; the only '
    'normalisation is deleting the `# float/double/long double <value>` comments (this leg is testing)',
    'the AST dump hook in /repo (verif_dump.c, -verif-dump-ast; guard CHIBICC_VERIF) and its parser Model/Ast.lean: a wrong '
    'dump shows up as a text difference; the hooked and the plain build must print identical -S text for every file',
    'translator tools/extract/casttable.py: cast_table (121 cells parsed into instructions, macros expanded) and getTypeId '
    'are regenerated from the snapshot on every run; C20_cast_table is re-proved over whatever the table says now',
    'effect table Model/Effect.lean (insDelta): push/pop -/+8, sub/add $k,%rsp, fld*/fild*/fldz +1, fstp*/fistp*/f*p/fcomip/'
    'fucomip -1, every other listed mnemonic 0, anything else has no effect value and fails loudly; validated by the rsp / x87 '
    'TOP probes of the oracle leg on the real CPU',
    'gcc 12 (probe helper, gcc-built twin of every probe program), glibc, binutils as/ld, the host CPU',
]
ASSUMPTIONS = [
    'a call returns with %rsp as before it and with the x87 stack as before it, plus one register iff the callee returns '
    'long double (psABI); the model marks such calls (Line.insA "ret:f80")',
    'asm statements and assembler directives have no effect on %rsp and the x87 stack',
    'the typing side condition typedE/typedS (long-double-ness of a node agrees with that of its operands as add_type '
    'builds trees) — evaluated on every dumped tree on every run, not assumed for the corpus',
    'alloca/VLA allocation lowers %rsp by design (the explicit exception of C20); its `sub %rdi, %rsp` counts as 0 '
    'relative to the temporaries it moves',
    'sizes and offsets do not wrap around 32/64 bits in the model (Int arithmetic)',
]

KNOWN_JUMP = 'C20-jump-out-of-stmt-expr'
KNOWN_X87 = 'C20-x87-depth-overflow'
# struct returns in registers (/repo 7826748: the second eightbyte of an all-float 12-byte struct is loaded with movss, not
# movsd): part of the tie corpus; the program must also compile, link, run and exit 0, and its gcc-built twin too
STRUCT_RET_PROGRAM = r'''
struct F3 { float a, b, c; };
struct F4 { float a, b, c, d; };
struct FD { float f; double d; };
struct DF { double d; float f; };
struct F2 { float a, b; };
struct F1 { float a; };
struct D2 { double a, b; };
struct IF { int i; float f; };
struct FI3 { float a, b; int c; };
struct LF { long l; float f; };
struct FL { float f; long l; };
struct C12 { char c[9]; char d; };
struct BIG { float a, b, c, d, e; };
struct F3 f3(float x) { struct F3 s = {x, x + 1, x + 2}; return s; }
struct F4 f4(float x) { struct F4 s = {x, x + 1, x + 2, x + 3}; return s; }
struct FD fd(float x) { struct FD s = {x, x + 0.5}; return s; }
struct DF df(float x) { struct DF s = {x + 0.5, x}; return s; }
struct F2 f2(float x) { struct F2 s = {x, x + 1}; return s; }
struct F1 f1(float x) { struct F1 s = {x}; return s; }
struct D2 d2(double x) { struct D2 s = {x, x + 1}; return s; }
struct IF fif(int x) { struct IF s = {x, x + 0.25f}; return s; }
struct FI3 fi3(int x) { struct FI3 s = {x, x + 1, x + 2}; return s; }
struct LF lf(long x) { struct LF s = {x, x + 0.5f}; return s; }
struct FL fl(long x) { struct FL s = {x + 0.5f, x}; return s; }
struct C12 c12(int x) { struct C12 s = {{x, x + 1, x + 2, x + 3, x + 4, x + 5, x + 6, x + 7, x + 8}, x + 9}; return s; }
struct BIG big(float x) { struct BIG s = {x, x + 1, x + 2, x + 3, x + 4}; return s; }
struct F3 pass3(struct F3 s) { return s; }
struct C10 { char c[10]; };
/* small structs of odd size passed on the stack once the registers are used up (stack slots = size rounded up to 8) */
long on_stack(long a, long b, long c, long d, long e, long f, struct C10 s, struct F3 t, double d1, double d2, double d3,
              double d4, double d5, double d6, double d7, double d8, struct F3 u, struct C12 v, struct C10 w) {
  return a + f + s.c[9] + (long)t.c + (long)d8 + (long)u.a + v.d + w.c[0];
}
int main(void) {
  int bad = 0;
  for (int i = 0; i < 12; i++) {
    struct F3 a = f3(i); struct F4 b = f4(i); struct FD c = fd(i); struct DF d = df(i); struct F2 e = f2(i);
    struct F1 f = f1(i); struct D2 g = d2(i); struct IF h = fif(i); struct FI3 j = fi3(i); struct LF k = lf(i);
    struct FL l = fl(i); struct C12 m = c12(i); struct BIG n = big(i); struct F3 o = pass3(f3(i));
    bad += a.a != i || a.b != i + 1 || a.c != i + 2;
    bad += b.a != i || b.b != i + 1 || b.c != i + 2 || b.d != i + 3;
    bad += c.f != i || c.d != i + 0.5;
    bad += d.d != i + 0.5 || d.f != i;
    bad += e.a != i || e.b != i + 1;
    bad += f.a != i;
    bad += g.a != i || g.b != i + 1;
    bad += h.i != i || h.f != i + 0.25f;
    bad += j.a != i || j.b != i + 1 || j.c != i + 2;
    bad += k.l != i || k.f != i + 0.5f;
    bad += l.f != i + 0.5f || l.l != i;
    bad += m.c[0] != i || m.c[8] != i + 8 || m.d != i + 9;
    bad += n.a != i || n.e != i + 4;
    bad += o.a != i || o.b != i + 1 || o.c != i + 2;
    f3(i); (void)f4(i); fd(i), df(i);
    struct C10 p = {{i, 1, 2, 3, 4, 5, 6, 7, 8, i + 1}};
    bad += on_stack(1, 2, 3, 4, 5, 6, p, a, 1, 2, 3, 4, 5, 6, 7, 8, a, m, p) != 1 + 6 + (i + 1) + (i + 2) + 8 + i + (i + 9) + i;
    bad += 1 + on_stack(i, 2, 3, 4, 5, 6, p, a, 1, 2, 3, 4, 5, 6, 7, 8, o, m, p) != 1 + i + 6 + (i + 1) + (i + 2) + 8 + i + (i + 9) + i;
  }
  return bad;
}
'''
# GNU empty structs/unions as arguments, parameters and return values (the former known finding C20-empty-struct-arg, repaired by
# /repo b298aee): part of the tie corpus; the program must also compile, link and exit 0
EMPTY_PROGRAM = r'''
#include <stdarg.h>
struct E {}; union U {}; struct P { struct E e; int x; };
struct E ge; union U gu;
int g(struct E e, int x) { return x; }
int h(int a, struct E e, union U u, double d, struct E e2, long b) { return a + (int)d + b; }
struct E re(struct E e) { return e; }
union U ru(void) { union U u; return u; }
long many(int i1, struct E e, int i2, int i3, int i4, int i5, int i6, struct E e2, int i7, double d1, union U u, long double l) { return i1 + i7; }
int v(int n, ...) { va_list ap; va_start(ap, n); int s = va_arg(ap, int); va_end(ap); return s; }
struct P rp(struct P p) { return p; }
long double ld(struct E e, long double x, union U u) { return x; }
int main(void) {
  struct E e; union U u; struct P p = {{}, 4};
  e = re(e); u = ru(); p = rp(p);
  re(e); (void)ru();
  for (int i = 0; i < 20; i++) { g(e, i); ld(e, 1.0L, u); e = re(e); }
  return g(e, 3) - 3 + h(1, e, u, 2.0, e, 3) - 6 + many(1, e, 2, 3, 4, 5, 6, e, 7, 1.0, u, 2.0L) - 8 + v(1, e, 5) - 5 + p.x - 4
         + (ld(e, 2.5L, u) != 2.5L);
}
'''
X87_WITNESS = ('#include <stdio.h>\n'
               'int main(void) { volatile long double a = 1.0L; long double r = a+(a+(a+(a+(a+(a+(a+(a+a)))))));\n'
               '  long double r8 = a+(a+(a+(a+(a+(a+(a+a)))))); printf("%.1Lf %.1Lf\\n", r8, r); return 0; }\n')
JUMP_WITNESS = ('long f(void) { long n = 0; for (int i = 0; i < 9; i++) { n += 1 + ({ if (i % 2) continue; 2; }); } return n; }\n'
                'int main(void) { return f() != 15; }\n')


# ------------------------------------------------------------------------------------------------ dumps: effect + scope

def run_effect_scope(ctx, corr, dump, label, allow_known=False):
    drv = codegen_tie.model_driver(ctx)
    rc, o, e = sh([drv, 'effect', dump], timeout=300)
    bad = []
    for line in o.splitlines():
        w = line.split(' ', 3)
        if w[0] == 'fn':
            corr.count('effect_functions')
            if w[2] == 'VIOLATION':
                bad.append((w[1], w[3] if len(w) > 3 else ''))
            else:
                corr.count('effect_lines', int(w[3]))
        elif w[0] == 'codegen-failure':
            corr.count('effect_codegen_failure')
    rc2, o2, e2 = sh([drv, 'scope', dump], timeout=300)
    for line in o2.splitlines():
        w = line.split()
        if len(w) >= 8 and w[0] == 'fn' and w[2] == 'typed':
            corr.count('scope_stmts', int(w[5]))
            corr.count('scope_stmts_in_theorem_scope', int(w[7]))
            corr.count('scope_functions')
            if len(w) >= 10 and w[8] == 'depth_scope' and w[9] == '1':
                corr.count('scope_functions_in_depth_theorem_scope')
            if w[3] != '1':
                corr.disagreements.append({'kind': 'typing-hypothesis-false', 'file': label, 'function': w[1],
                                           'note': 'typedS is false on a tree the real front end produced: the side condition '
                                                   'of the C20 theorems does not describe parse()/add_type'})
    # hypotheses and conclusion of the label-height theorem (C20_function_flow_partial), per function
    rc3, o3, e3 = sh([drv, 'flow', dump], timeout=300)
    need = {}
    for line in o3.splitlines():
        w = line.split(' ', 16)
        if (len(w) >= 16 and w[0] == 'fn' and w[2] == 'typed' and w[4] == 'flow' and w[6] == 'tdistinct' and w[8] == 'udistinct'
                and w[10] == 'distinct' and w[12] == 'x87need' and w[14] == 'check'):
            corr.count('flow_functions')
            typed, flow, tdist, udist, dist, chk = w[3] == '1', w[5] == '1', w[7] == '1', w[9] == '1', w[11] == '1', w[15]
            need[w[1]] = int(w[13])
            why = w[16] if len(w) > 16 else ''
            if typed and flow and tdist:
                corr.count('flow_functions_in_theorem_scope')
                if chk == 'FAIL' or not dist or not udist:
                    corr.disagreements.append({'kind': 'label-height-theorem-contradicted', 'file': label, 'function': w[1],
                                               'note': 'the function is in the scope of C20_function_flow_partial / '
                                                       'C20_function_check_partial (typedS, flowFn, treeDistinct hold of the tree) but '
                                                       + ('a parser label is defined twice in its code' if not udist else
                                                          'its labels are not pairwise distinct' if not dist else
                                                          'Effect.checkBody rejects its code for a reason other than the range: ' + why)})
            elif not flow:
                corr.count('flow_functions_out_of_scope')
            if chk == 'range':
                corr.count('flow_range_only')
            if not tdist:
                # not a matter of scope: parse.c gives every loop / switch / case / labelled statement its own new_unique_name()
                corr.disagreements.append({'kind': 'parser-labels-not-distinct-in-tree', 'file': label, 'function': w[1],
                                           'note': 'two nodes of the dumped tree (loops, switches, cases, labelled statements) carry the '
                                                   'same label: hypothesis treeDistinct of the C20 label-height theorems is false on a '
                                                   'tree the real front end produced'})
        elif line.startswith('fn ') and ' typed ' in line:
            corr.disagreements.append({'kind': 'flow-line-not-understood', 'file': label, 'line': line[:200]})
    bad = [(fn, why, need.get(fn, 0)) for fn, why in bad]
    return bad


def on_file(ctx, corr, res, label):
    """after a successful tie of one file: check the code of every function"""
    dump = os.path.join(ctx.scratch, 'tie_work', 'dump.txt')
    if res['outcome'] != 'ok' or not os.path.exists(dump):
        return
    for fn, why, x87need in run_effect_scope(ctx, corr, dump, label):
        v = {'what': f'residue on a path through {fn}: {why}', 'input': label,
             'expected': 'one stack height per label, nothing below the frame, rsp 0 at return',
             'got': why, 'leg': 'Effect.checkBody on the emitted code'}
        # known finding C20-x87-depth-overflow: the check's only complaint is "more than eight x87 registers" and the
        # function is in the region x87Deep (Model/C20Flow.lean: some evaluation needs more than eight x87 registers)
        m = re.match(r'height out of range: rsp (-?\d+), x87 (-?\d+)', why)
        if m and int(m.group(1)) <= 0 and int(m.group(2)) > 8 and x87need > 8:
            v['known_id'] = KNOWN_X87
            corr.count('known_region_x87_depth')
        corr.violations.append(v)


# ------------------------------------------------------------------------------------------------ oracle leg (probes)

def build_probe(ctx, cases, tag, counts=(1, 9, 100000)):
    import c20probe
    d = os.path.join(ctx.scratch, 'probe_' + tag)
    os.makedirs(d, exist_ok=True)
    src = c20probe.program(cases, counts)
    open(os.path.join(d, 'p.c'), 'w').write(src)
    open(os.path.join(d, 'probe.c'), 'w').write(c20probe.PROBE_C)
    snap = ctx.take_snapshot(False)
    steps = [['gcc', '-c', 'probe.c', '-o', 'probe.o'],
             [ctx.cc, f'-I{snap}/include', '-c', 'p.c', '-o', 'p.o'],
             ['gcc', '-o', 'p', 'p.o', 'probe.o'],
             ['gcc', '-O0', '-w', '-std=gnu11', '-c', 'p.c', '-o', 'pg.o'],
             ['gcc', '-o', 'pg', 'pg.o', 'probe.o']]
    for cmd in steps:
        rc, o, e = sh(cmd, cwd=d, timeout=600)
        if rc != 0:
            return d, (cmd, rc, e[-600:])
    return d, None


def parse_probe(text):
    out = {}
    for line in text.splitlines():
        w = line.split()
        if len(w) >= 11 and w[0] == 'case' and w[3] == 'n' and w[5] == 'rsp' and w[7] == 'x87' and w[9] == 'chk':
            out[(int(w[1]), int(w[4]))] = {'form': w[2], 'rsp': int(w[6]), 'x87': int(w[8]), 'chk': w[10],
                                          'val': ' '.join(w[12:])}
    return out


def run_probes(ctx, corr, cases, tag, known=False):
    """returns list of violation dicts"""
    import c20probe
    d, err = build_probe(ctx, cases, tag)
    if err:
        cmd, rc, e = err
        if os.path.basename(cmd[0]) == 'chibicc':
            # bisect: a form the compiler rejects or dies on
            if len(cases) > 1:
                h = len(cases) // 2
                return run_probes(ctx, corr, cases[:h], tag + 'a', known) + run_probes(ctx, corr, cases[h:], tag + 'b', known)
            corr.count('probe_compile_failure')
            return [{'what': 'probe form does not compile with chibicc', 'input': cases[0][3], 'expected': 'compiles (gcc accepts it)',
                     'got': f'rc={rc} {e[-200:]}'}]
        raise RuntimeError(f'probe build failed: {cmd} rc={rc} {e}')
    rc1, o1, e1 = sh(['./p'], cwd=d, timeout=900)
    rc2, o2, e2 = sh(['./pg'], cwd=d, timeout=900)
    a, b = parse_probe(o1), parse_probe(o2)
    vio = []
    if rc1 != 0 and len(cases) > 1:
        h = len(cases) // 2
        return run_probes(ctx, corr, cases[:h], tag + 'a', known) + run_probes(ctx, corr, cases[h:], tag + 'b', known)
    for key in sorted(b):
        idx, n = key
        kind, tkey, name, body = cases[idx]
        corr.evaluations += 1
        corr.count(f'probe_n{n}')
        g = b[key]
        c = a.get(key)
        case_src = f'{tkey}.{name}: {body}  (x{n})'
        if c is None:
            vio.append({'what': 'chibicc-built probe program died before this case', 'input': case_src, 'expected': 'runs',
                        'got': f'rc={rc1}'})
            continue
        if g['rsp'] != 0 or g['x87'] != 0:
            corr.count('probe_gcc_nonzero')      # the probe itself would be wrong
            continue
        if n > 1:
            corr.nontrivial.add(f'{tkey}.{name}')
        if c['rsp'] != 0 or c['x87'] != 0:
            vio.append({'what': f'residue after {n} evaluation(s): rsp {c["rsp"]} bytes, x87 {c["x87"]} registers', 'input': case_src,
                        'expected': 'rsp 0 x87 0', 'got': f'rsp {c["rsp"]} x87 {c["x87"]}'})
        elif c['chk'] != g['chk']:
            vio.append({'what': 'long double check value differs from gcc after the loop (x87 stack corrupted)', 'input': case_src,
                        'expected': g['chk'], 'got': c['chk']})
        elif c['val'] != g['val']:
            # a wrong *value* with balanced stacks belongs to another property (C01/C02/C05/C06/C16)
            corr.count('probe_value_differs_other_property')
            ctx.notes.append(f'value differs from gcc (not a C20 matter): {case_src}: chibicc {c["val"]} gcc {g["val"]}')
    return vio


def known_witnesses(ctx, corr):
    """replay the witnesses of the known findings on the implementation"""
    import c20probe
    snap = ctx.take_snapshot(False)
    d = os.path.join(ctx.scratch, 'known')
    os.makedirs(d, exist_ok=True)
    # empty struct/union arguments, parameters and return values (repaired defect): must compile, link, run, exit 0
    p = os.path.join(d, 'empty.c')
    open(p, 'w').write(EMPTY_PROGRAM)
    rc, o, e = sh([ctx.cc, f'-I{snap}/include', '-o', os.path.join(d, 'empty'), p], timeout=60)
    corr.evaluations += 1
    if rc != 0:
        corr.violations.append({'what': 'empty struct/union arguments: the compiler fails (assert(depth == 0)?)',
                                'input': EMPTY_PROGRAM, 'expected': 'an executable', 'got': f'rc={rc} {e.strip()[-200:]}'})
    else:
        rc1, o1, e1 = sh([os.path.join(d, 'empty')], timeout=30)
        if rc1 != 0:
            corr.violations.append({'what': 'empty struct/union arguments: wrong result', 'input': EMPTY_PROGRAM,
                                    'expected': 'exit status 0', 'got': f'exit status {rc1}'})
    # struct returns in registers (repaired defect /repo 7826748: 12-byte all-float structs): compile, link, run, exit 0
    p = os.path.join(d, 'struct_ret.c')
    open(p, 'w').write(STRUCT_RET_PROGRAM)
    rc, o, e = sh([ctx.cc, f'-I{snap}/include', '-o', os.path.join(d, 'struct_ret'), p], timeout=60)
    rcg, og, eg = sh(['gcc', '-w', '-O0', '-o', os.path.join(d, 'struct_retg'), p], timeout=60)
    corr.evaluations += 1
    if rcg != 0 or sh([os.path.join(d, 'struct_retg')], timeout=30)[0] != 0:
        raise RuntimeError('the struct-return program is wrong (gcc build fails or does not exit 0): ' + eg[-300:])
    if rc != 0:
        corr.violations.append({'what': 'small structs passed and returned by value: the compiler fails', 'input': STRUCT_RET_PROGRAM,
                                'expected': 'an executable', 'got': f'rc={rc} {e.strip()[-200:]}'})
    else:
        rc1, o1, e1 = sh([os.path.join(d, 'struct_ret')], timeout=30)
        if rc1 != 0:
            # a wrong VALUE with balanced stacks is C06's matter; a crash (stack corrupted) would be ours: report both here,
            # the program is tiny
            corr.violations.append({'what': 'small structs passed and returned by value: wrong result or crash', 'input': STRUCT_RET_PROGRAM,
                                    'expected': 'exit status 0 (as the gcc build)', 'got': f'exit status {rc1}'})
    # nine long double operands nested to the right: the x87 register stack overflows (NaN; gcc: 9.0)
    p = os.path.join(d, 'deep.c')
    open(p, 'w').write(X87_WITNESS)
    rc, o, e = sh([ctx.cc, f'-I{snap}/include', '-o', os.path.join(d, 'deep'), p], timeout=60)
    rcg, og, eg = sh(['gcc', '-w', '-o', os.path.join(d, 'deepg'), p], timeout=60)
    if rc == 0 and rcg == 0:
        rc1, o1, e1 = sh([os.path.join(d, 'deep')], timeout=30)
        rc2, o2, e2 = sh([os.path.join(d, 'deepg')], timeout=30)
        corr.evaluations += 1
        if o1 != o2:
            if KNOWN_X87 in {f.get('id') for f in load_known().get('findings', [])}:
                corr.known_hits.append(KNOWN_X87)
                corr.violations.append({'known_id': KNOWN_X87, 'what': 'nine long double operands nested to the right: x87 register '
                                        'stack overflow', 'input': X87_WITNESS, 'expected': o2.strip(), 'got': o1.strip()})
            else:
                corr.count('x87_depth_witness_fails_not_yet_registered')
                ctx.notes.append(f'{KNOWN_X87}: witness fails (chibicc {o1.strip()!r}, gcc {o2.strip()!r}) but the finding is not in '
                                 'known_findings.json yet')
    # jump out of a statement expression under a pending push
    vio = run_probes(ctx, corr, [c20probe.KNOWN_JUMP_OUT], 'knownjump')
    if vio:
        corr.known_hits.append(KNOWN_JUMP)
        v = dict(vio[0])
        v['known_id'] = KNOWN_JUMP
        corr.violations.append(v)


# ------------------------------------------------------------------------------------------------ plugin entry points

def correspond(ctx, corr):
    import c20probe
    corr.rule = ('(1) asm-text tie: every test/*.c, every chibicc source and seeded random programs (tools/gen/cprog.py) are compiled '
                 'by the hooked snapshot with -S and -verif-dump-ast; the Lean model must print the same text; non-trivial = the '
                 'file defines at least one function, distinct = by sha1 of the assembly.  (2) Effect.checkBody and the typing side '
                 'condition are evaluated on every dumped function.  (3) probe programs: each expression/statement form x result '
                 'type evaluated 1, 9, 100000 times between rsp/x87 probes (x87 = TOP of the status word), chibicc build vs gcc '
                 'build, including forms that discard a value while another operand of the type is live (comma, (void), statement '
                 'expression, for increment inside a binary operator / comparison / argument); non-trivial = a form run more than '
                 'once, distinct = by type.form.')
    files = [(f, ()) for f in codegen_tie.corpus_files(ctx)]
    ngen = 300 if ctx.thorough else 25
    gen = codegen_tie.generated_files(ctx, ngen)
    fixed_dir = os.path.join(ctx.scratch, 'fixed_tie')
    os.makedirs(fixed_dir, exist_ok=True)
    open(os.path.join(fixed_dir, 'empty_struct.c'), 'w').write(EMPTY_PROGRAM)
    open(os.path.join(fixed_dir, 'struct_ret.c'), 'w').write(STRUCT_RET_PROGRAM)
    gen = [(os.path.join(fixed_dir, 'empty_struct.c'), ()), (os.path.join(fixed_dir, 'struct_ret.c'), ())] + gen
    t0 = time.time()
    for ent in files + gen:
        res = codegen_tie.asm_text_tie(ctx, corr, [ent])[0]
        on_file(ctx, corr, res, ent[0] if not os.path.isabs(ent[0]) else f'generated:{os.path.basename(ent[0])} seed={ctx.seed}')
        if res['outcome'] == 'disagree':
            break
    corr.extra['tie_wall_s'] = round(time.time() - t0, 1)
    corr.extra['tie_files'] = len(files) + len(gen)
    # fixed -fPIC / -fcommon passes over part of the corpus
    extra = [('test/tls.c', ('-fPIC',)), ('test/function.c', ('-fPIC',)), ('test/commonsym.c', ('-fno-common',)),
             ('test/commonsym.c', ('-fcommon',)), ('test/variable.c', ('-fPIC', '-fno-common'))]
    snap = ctx.take_snapshot(False)
    for f, fl in extra:
        if os.path.exists(os.path.join(snap, f)) and not corr.disagreements:
            codegen_tie.asm_text_tie(ctx, corr, [(f, fl)])
    # oracle leg
    cases = c20probe.all_cases()
    if not ctx.thorough:
        must = [c for c in cases if c[1] in ('ldouble', 'S32', 'S0') or c[2] in ('for_inc', 'for_inc_call', 'castvoid', 'comma', 'callmany', 'assign2')]
        rest = [c for c in cases if c not in must]
        ctx.rng.shuffle(rest)
        cases = must + rest[:250]
    corr.extra['probe_forms'] = len(cases)
    for v in run_probes(ctx, corr, cases, 'main'):
        corr.violations.append(v)
    known_witnesses(ctx, corr)
    corr.sample({'probe': 'ldouble.callmany x100000 -> rsp 0 x87 0, chk = gcc'})


def search(ctx, broken, corr):
    """a proof or the tie broke: look for a concrete program on which the implementation leaves residue"""
    import c20probe
    # the balance assertion of the code generator itself (anchor: emit_text `assert(depth == 0)`) fired on an input of the tie
    for b in broken or []:
        w = b.get('what') if isinstance(b, dict) else None
        if isinstance(w, dict) and "Assertion `depth == 0'" in str(w.get('impl', '')) and isinstance(w.get('input'), str):
            src = w['input']
            if '\n' not in src:
                try:
                    src = open(os.path.join(ctx.take_snapshot(False), src)).read()
                except OSError:
                    pass
            return {'what': 'the push/pop accounting of the code generator is unbalanced on this program: assert(depth == 0) in '
                            'emit_text fails (the compiler aborts)', 'input': src,
                    'expected': 'assembly (depth returns to 0 after every function body: C20_assert)', 'got': str(w.get('impl'))[:300]}
    vio = run_probes(ctx, Corr(), c20probe.all_cases(), 'search')
    if vio:
        return vio[0]
    # whole-function check on more generated programs
    c2 = Corr()
    for ent in codegen_tie.generated_files(ctx, 60, subdir='gen_search'):
        res = codegen_tie.asm_text_tie(ctx, c2, [ent])[0]
        on_file(ctx, c2, res, ent[0])
        live = [v for v in c2.violations if 'known_id' not in v]
        if live:
            v = live[0]
            try:
                v['input'] = open(ent[0]).read()
            except OSError:
                pass
            return v
    return None


def replay(ctx, corr, path):
    payload = json.load(open(path))
    src = payload.get('input')
    if not isinstance(src, str):
        raise RuntimeError('replay file has no input program')
    import c20probe
    if ': ' in src and src.endswith(')') and '(x' in src:
        # a probe case "type.form: body  (xN)"
        head, rest = src.split(': ', 1)
        body = rest.rsplit('  (x', 1)[0]
        tkey, name = head.split('.', 1)
        kind = 'struct' if tkey in c20probe.STRUCTS else 'scalar'
        for v in run_probes(ctx, corr, [(kind, tkey, name, body)], 'replay'):
            corr.violations.append(v)
        return
    p = os.path.join(ctx.scratch, 'replay.c')
    open(p, 'w').write(src if '\n' in src else open(os.path.join(ctx.take_snapshot(False), src)).read())
    res = codegen_tie.asm_text_tie(ctx, corr, [(p, ())])[0]
    on_file(ctx, corr, res, 'replay')


MANIFEST = {
    'level_text': 'proof (partial): effect semantics + structural induction over the Node tree of the code-generation model. depth half '
                  '(assert(depth == 0), call-alignment parity): all 47 node kinds. rsp/x87 half: every node kind - straight-line kinds '
                  'as an equation for the effect, code with labels (?:, &&, ||, if/for/do/switch/case, goto/labels, break/continue, '
                  'return, statement expressions, CAS, alloca) in a label-height calculus: one (rsp, x87) height per label, every jump '
                  'and fall-through arrives at it, rsp = 0 at every return, for every function whose jumps stay in their region '
                  '(hypotheses about the tree only); the executable whole-function check is proved sound and complete; the '
                  'range half (nothing above the frame, at most eight x87 registers) by that check on every emitted function and '
                  'rsp/x87 probes on the implementation',
    'level_note': 'C20_depth_partial / C20_assert hold for every tree whose aggregate argument sizes are not negative (all node kinds; true of every dump). C20_expr_partial / '
                  'C20_expr_balanced_partial / C20_addr_partial / C20_stmt_partial / C20_repeat_partial / C20_one_value_partial / '
                  'C20_call_partial / C20_assert_partial / C20_cast_table are proved for all trees in the decidable scope covE/covA/covS; '
                  'C20_expr_flow_partial / C20_addr_flow_partial / C20_stmt_flow_partial / C20_function_flow_partial cover ALL node '
                  'kinds (scope flowE/flowS/flowFn: jumps stay in their region; evaluated on every dumped function: the whole '
                  'corpus is inside) and conclude Balanced-or-leaves / FnBalanced (Effect.verify without its range test). No '
                  'hypothesis about the emitted lines is left: the distinctness of the labels made up from count() is proved from '
                  'the monotone counter, that of the parser\'s labels (C20_parser_labels_distinct) from treeDistinct - the labels '
                  'parse.c gave the loops, switches, cases and labelled statements of the TREE are pairwise distinct (decidable, '
                  'evaluated on every dumped function). The executable whole-function check is sound and COMPLETE: '
                  'C20_checkBody_sound / _complete / _iff (it accepts exactly the code for which some labelling passes '
                  'Effect.verify; label heights inferred to a fixpoint, any label graph), C20_checkBody_balanced (FnBalanced code is '
                  'rejected only with the range complaint), C20_function_check_partial (every function in scope: accepted, or the '
                  'one complaint is a reachable height out of range). C20_expr_Statement, C20_stmt_Statement, '
                  'C20_function_Statement stay open as stated: false in the known-finding regions (jump out of a statement '
                  'expression; more than eight long double values live on the x87 stack: kernel-checked counterexamples); the range '
                  'half is only checked by Effect.checkBody on every emitted function plus CPU probes. Repaired defects mirrored: '
                  'empty struct argument (/repo b298aee), 12-byte all-float struct return (/repo 7826748, in the tie corpus)',
    'technique': 'Lean 4 machine-checked proof; model tied to codegen.c by byte-for-byte assembly text equality on every run',
    'design_ref': 'DESIGN.md section 6, C20',
}
