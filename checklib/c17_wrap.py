"""C17 - directed histories: probe clusters that WRAP around the end of the bucket array, with tombstones inside,
   carried through a rehash that KEEPS the capacity (define/undefine churn without net growth).

   Why a family of its own: a same-capacity rehash needs >= 70 % occupied buckets with < 50 % live names, i.e. a long
   run of put/delete over DISTINCT names; a wrapping cluster needs names whose hash lands in the last buckets.  Random
   histories over a small pool (names are re-used, tombstones are re-used) reach neither, let alone both.

   * `SimTable` is a python double of hashmap.c used ONLY to steer the generator (which bucket is empty, when the next
     rehash falls).  It is never an oracle: the real hashmap.c is compared with the Lean model (every bucket, every
     answer) and with the abstract dictionary, as for every other history.
   * whether the target event happened is measured on the REAL table's output (`count_events`), per capacity, and a run
     in which it did not happen is reported as a broken tie (coverage), not passed silently.
   * forced family: the harness can call the static `rehash()` directly (`rehash` op; `HM.rehash` in the driver), so
     short exhaustive histories over wrapping names are rehashed in every state, not only at the watermark.
   * macro family: the same through the real compiler (`#define`/`#undef`/`#ifdef`, names of chosen hash) against gcc."""
import os, re, itertools, hashlib
from .framework import sh

MASK = (1 << 64) - 1


def fnv(s, consts):
    h = consts['off']
    for c in s.encode():
        h = (h * consts['prime']) & MASK
        h ^= c
    return h


class Names:
    """names <prefix><N> indexed by their real hash modulo `modulus`; every name is handed out once"""

    def __init__(self, consts, modulus, prefix, limit):
        self.by = {}
        self.modulus = modulus
        for i in range(limit):
            k = f'{prefix}{i}'
            self.by.setdefault(fnv(k, consts) % modulus, []).append(k)

    def take(self, residue):
        l = self.by.get(residue % self.modulus)
        return l.pop(0) if l else None


class SimTable:
    """python double of hashmap.c (put/delete/rehash) - steering only"""

    def __init__(self, consts):
        self.c = consts
        self.b = None      # list of None | 'T' | [key, val]
        self.used = 0
        self.last = None   # what the last put did: None | 'grow' | 'same'

    @property
    def cap(self):
        return len(self.b) if self.b else 0

    def home(self, k):
        return fnv(k, self.c) % self.cap

    def _insert(self, k, v):
        cap, h, tomb = self.cap, fnv(k, self.c), None
        for i in range(cap):
            j = (h + i) % cap
            e = self.b[j]
            if isinstance(e, list) and e[0] == k:
                e[1] = v
                return
            if e == 'T':
                if tomb is None:
                    tomb = j
                continue
            if e is None:
                if tomb is not None:
                    j = tomb
                else:
                    self.used += 1
                self.b[j] = [k, v]
                return
        raise RuntimeError('sim: table full')

    def rehash(self):
        live = [e for e in self.b if isinstance(e, list)]
        cap = self.cap
        while len(live) * 100 // cap >= self.c['lo']:
            cap *= 2
        same = cap == self.cap
        self.b, self.used = [None] * cap, 0
        for k, v in live:
            self._insert(k, v)
        return same

    def put(self, k, v):
        self.last = None
        if not self.b:
            self.b = [None] * self.c['init']
        elif self.used * 100 // self.cap >= self.c['hi']:
            self.last = 'same' if self.rehash() else 'grow'
        self._insert(k, v)

    def delete(self, k):
        cap, h = self.cap, fnv(k, self.c)
        for i in range(cap):
            j = (h + i) % cap
            e = self.b[j]
            if isinstance(e, list) and e[0] == k:
                self.b[j] = 'T'
                return
            if e is None:
                return

    def wraps(self):
        """(some live entry's probe path crosses the array end, and a tombstone lies on that path)"""
        wrap = tomb = False
        for j, e in enumerate(self.b or []):
            if isinstance(e, list) and self.home(e[0]) > j:
                wrap = True
                path = list(range(self.home(e[0]), self.cap)) + list(range(0, j))
                if any(self.b[t] == 'T' for t in path):
                    tomb = True
        return wrap, tomb


# cluster recipes: homes of the members relative to the capacity (-1 = last bucket), in insertion order, and which
# members are deleted afterwards (they become the tombstones inside the cluster)
RECIPES = [
    ('tail-behind-tomb', [-2, -2, -1], [0]),          # T C | A : the head moves back, the tail must follow
    ('same-home', [-1, -1, -1], [0]),
    ('long', [-3, -3, -2, -1, 0], [1]),
    ('two-tombs', [-2, -1, -1, 0], [0, 1]),
    ('tomb-at-end', [-1, 0, 0], [0]),
    ('tomb-after-wrap', [-2, -2, -2, -2], [2]),
    ('head-intact', [-3, -2, -1, -1, -1], [3]),
]


def random_recipe(rng):
    n = rng.randrange(3, 7)
    homes = sorted(rng.choice([-3, -2, -2, -1, -1, -1, 0, 1]) for _ in range(n))
    if homes[0] > -1:
        homes[0] = -1
    ndel = rng.randrange(1, max(2, n - 1))
    return ('random', homes, sorted(rng.sample(range(n), ndel)))


def directed_history(consts, C, recipe, rng=None, forced=False):
    """one history at capacity C; returns (ops, members) or None when the names run out"""
    tag, homes, dels = recipe
    sim = SimTable(consts)
    names = Names(consts, C, 'k', 6000)
    ops, v = [], [1]
    end_zone = {(-3) % C, (-2) % C, (-1) % C, 0, 1, 2}
    middle = [r for r in range(C) if r not in end_zone]

    def put(k):
        ops.append(('put', k, v[0])); sim.put(k, v[0]); v[0] += 1

    def dele(k):
        ops.append(('del', k)); sim.delete(k)

    # growth to capacity C with names whose home (mod C) is away from the array end, then drop them all
    fillers, mi = [], 0
    guard = 0
    while sim.cap < C:
        k = names.take(middle[mi % len(middle)] if C > consts['init'] else middle[len(middle) // 2])
        mi += 1
        guard += 1
        if k is None or guard > 4 * C:
            return None
        fillers.append(k)
        put(k)
    if sim.cap != C:
        return None
    for k in fillers:
        dele(k)
    if any(sim.b[j] is not None for j in end_zone):
        return None
    # the cluster
    members = []
    for hm in homes:
        k = names.take(hm % C)
        if k is None:
            return None
        members.append(k)

    def probes():
        for k in members:
            ops.append(('get', k))

    for k in members:
        put(k); probes()
    for i in dels:
        dele(members[i]); probes()
    if forced:
        ops.append(('rehash',))
        probes()
        return ops, members

    def churn_until_purge(limit):
        """define/undefine distinct names that land in EMPTY buckets away from the cluster until a put purges in place"""
        for _ in range(limit):
            empties = [j for j in middle if sim.b[j] is None]
            if not empties:
                return False
            j = empties[0] if rng is None else rng.choice(empties)
            k = names.take(j)
            if k is None:
                return False
            put(k)
            hit = sim.last == 'same'
            probes()
            dele(k)
            if hit:
                return True
        return False

    if not churn_until_purge(3 * C):
        return None
    probes()
    ops.append(('get', 'absent-name'))
    # afterwards: redefine every surviving member (must overwrite, never duplicate), undefine the last one,
    # and go through a second purge (a lost entry would come back here)
    alive = [k for i, k in enumerate(members) if i not in dels]
    for k in alive:
        put(k); probes()
    dele(alive[-1]); probes()
    churn_until_purge(3 * C)
    probes()
    return ops, members


def forced_exhaustive(consts, thorough):
    """all put/del histories of length L over names at the array end of the initial capacity, then `rehash` called
    directly, then every name looked up, then every name redefined and looked up again"""
    C = consts['init']
    names = Names(consts, C, 'w', 3000)
    homes = [-2, -2, -1] if not thorough else [-2, -2, -1, -1]
    keys = [names.take(h % C) for h in homes]
    L = 5 if not thorough else 6
    alphabet = []
    for k in keys:
        alphabet += [('put', k), ('del', k)]
    out = []
    for seq in itertools.product(alphabet, repeat=L):
        if seq[0][0] == 'del':
            continue
        ops, v = [], 1
        for o in seq:
            if o[0] == 'put':
                ops.append(('put', o[1], v)); v += 1
            else:
                ops.append(('del', o[1]))
        ops.append(('rehash',))
        ops += [('get', k) for k in keys]
        out.append(ops)
    return out


def wrap_histories(ctx, consts):
    """[(tag, ops)]"""
    rng = ctx.rng
    hs = []
    caps = [consts['init'], consts['init'] * 2, consts['init'] * 4]
    for C in caps:
        recipes = list(RECIPES) + [random_recipe(rng) for _ in range(5 if not ctx.thorough else 60)]
        for rc in recipes:
            r = directed_history(consts, C, rc, rng=None if rc[0] != 'random' else rng)
            if r:
                hs.append((f'wrap{C}', r[0]))
            r = directed_history(consts, C, rc, forced=True)
            if r:
                hs.append((f'wrapforced{C}', r[0]))
    for ops in forced_exhaustive(consts, ctx.thorough):
        hs.append(('wrapexh', ops))
    return hs


# ------------------------------------------------------------------------------------------ events on the REAL output

STATE_RE = re.compile(r'^(put|del|rehash) used=(\d+) cap=(\d+) \[(.*)\]$')


def count_events(lines, consts, counts):
    """walks the output of the REAL table for one history; counts, per capacity, the puts that rehashed without
    growing, and among them those whose table held a wrapping cluster / a wrapping cluster with a tombstone on the path"""
    prev = None
    for l in lines:
        m = STATE_RE.match(l)
        if not m:
            continue
        cur = (int(m.group(2)), int(m.group(3)), m.group(4).split(' '))
        if m.group(1) in ('put', 'rehash') and prev and prev[1] == cur[1] and \
                (m.group(1) == 'rehash' or prev[0] * 100 // prev[1] >= consts['hi']):
            cap = cur[1]
            kind = 'samecap-rehash' if m.group(1) == 'put' else 'forced-samecap-rehash'
            counts[f'{kind}@{cap}'] = counts.get(f'{kind}@{cap}', 0) + 1
            wrap = tomb = False
            for j, e in enumerate(prev[2]):
                if e in ('E', 'T'):
                    continue
                home = fnv(e.rsplit('=', 1)[0], consts) % cap
                if home > j:
                    wrap = True
                    if any(prev[2][t] == 'T' for t in list(range(home, cap)) + list(range(0, j))):
                        tomb = True
            if wrap:
                counts[f'{kind}-wrap@{cap}'] = counts.get(f'{kind}-wrap@{cap}', 0) + 1
            if tomb:
                counts[f'{kind}-wrap-tomb@{cap}'] = counts.get(f'{kind}-wrap-tomb@{cap}', 0) + 1
        prev = cur


def required_events(consts):
    return [f'samecap-rehash-wrap-tomb@{consts["init"] * f}' for f in (1, 2, 4)]


# ------------------------------------------------------------------------------------------ the macro table of the compiler

def macro_wrap_programs(ctx, consts):
    """#define/#undef histories whose names sit at the END of the macro table for every capacity up to 2^13 (fnv_hash
    mod 2^13 in {-3 … 1}), with a tombstone inside the cluster, followed by define/undefine churn over distinct names long
    enough for several purges, probing the cluster after every cycle.  Every other program defines the first member
    with -D.  [(tag, command-line options, source, members)]"""
    rng = ctx.rng
    M = 1 << 13
    pool = {}
    i = 0
    want = {(-3) % M, (-2) % M, (-1) % M, 0, 1}
    while i < 600000 and not all(len(pool.get(r, [])) >= 6 for r in want):
        k = f'WRAP_{i}'
        r = fnv(k, consts) % M
        if r in want:
            pool.setdefault(r, []).append(k)
        i += 1
    progs = []
    recipes = list(RECIPES) + [random_recipe(rng) for _ in range(2 if not ctx.thorough else 20)]
    for n, (tag, homes, dels) in enumerate(recipes):
        taken = {}
        members = []
        ok = True
        for hm in homes:
            l = pool.get(hm % M, [])
            idx = taken.get(hm % M, 0)
            if idx >= len(l):
                ok = False
                break
            members.append(l[idx]); taken[hm % M] = idx + 1
        if not ok:
            continue
        L, d, val, cmd = [], {}, [10], []

        def define(k):
            if k in d:
                L.append(f'#undef {k}')
            L.append(f'#define {k} {val[0]}'); d[k] = val[0]; val[0] += 1

        def undef(k):
            L.append(f'#undef {k}'); d.pop(k, None)

        def probe(label):
            L.append(f'probe_{label} ' + ' '.join(members))
            for k in members:
                L.append(f'#ifdef {k}'); L.append(f'def_{k}'); L.append('#else'); L.append(f'undef_{k}'); L.append('#endif')

        use_d = n % 2 == 1
        settle = rng.randrange(0, 120) * (0 if use_d else 1)
        for s in range(settle):                      # shifts the phase of the purge cycle
            L.append(f'#define SETTLE_{n}_{s} {s}'); L.append(f'#undef SETTLE_{n}_{s}')
        for j, k in enumerate(members):
            if j == 0 and use_d:
                cmd.append(f'-D{k}={val[0]}'); d[k] = val[0]; val[0] += 1     # -D is the first insertion, as members[0] is
            else:
                define(k)
        for j in dels:
            undef(members[j])
        probe('start')
        ncycles = 700 if not ctx.thorough else 2500
        alive = [k for j, k in enumerate(members) if j not in dels]
        for c in range(ncycles):
            L.append(f'#define CHURN_{n}_{c} {c}'); L.append(f'#undef CHURN_{n}_{c}')
            if c == ncycles // 2:
                for k in alive:                      # redefinition must overwrite; the last survivor is undefined for good
                    define(k)
                undef(alive[-1])
            probe(c)
        progs.append((tag, cmd, L, members))
    return progs


def norm_pp(text):
    return [''.join(l.split()) for l in text.splitlines() if l.strip() and not l.startswith('#')]


def pp_differs(ctx, cmd, lines, name):
    """None if chibicc -E and gcc -E -P agree on the program, else (first differing line index, expected, got, rc, stderr);
    'oracle' if gcc rejects the program"""
    path = os.path.join(ctx.scratch, name)
    open(path, 'w').write('\n'.join(lines) + '\n')
    rc, o, e = sh([ctx.cc, '-E'] + cmd + [path], timeout=120)
    grc, go, ge = sh(['gcc', '-E', '-P'] + cmd + [path], timeout=120)
    if grc != 0:
        return 'oracle'
    got, want = norm_pp(o), norm_pp(go)
    if rc == 0 and got == want:
        return None
    j = next((j for j in range(min(len(got), len(want))) if got[j] != want[j]), min(len(got), len(want)))
    return (j, want, got, rc, e)


def macro_wrap_leg(ctx, corr, consts):
    tag = members = L = None
    for n, (tag, cmd, L, members) in enumerate(macro_wrap_programs(ctx, consts)):
        r = pp_differs(ctx, cmd, L, f'mw{n}.c')
        corr.evaluations += 1
        corr.count('macro-wrap-history')
        corr.nontrivial.add(hashlib.sha1('\n'.join(cmd + L).encode()).hexdigest())
        if r == 'oracle':
            corr.count('skipped_oracle_disagrees')
            continue
        if r is None:
            continue
        j, want, got, rc, e = r
        # cut the program after the first probe that differs (if the shorter program still differs)
        lab = next((w for w in reversed(want[:j + 1]) if w.startswith('probe_')), None)
        if lab:
            m = re.match(r'probe_(start|\d+)', lab)
            at = next((i for i, l in enumerate(L) if m and l.startswith(f'probe_{m.group(1)} ')), None)
            if at is not None:
                short = L[:at + 1 + 5 * len(members)]
                r2 = pp_differs(ctx, cmd, short, f'mw{n}s.c')
                if r2 not in (None, 'oracle'):
                    L = short
                    j, want, got, rc, e = r2
        corr.violations.append({
            'what': 'macro table does not follow last-write-wins on a #define/#undef history whose names sit at the end of the '
                    'bucket array (gcc -E as reference)' if rc == 0 else f'chibicc -E failed (rc={rc}) on a #define/#undef history',
            'recipe': tag, 'names': members, 'cmd': cmd, 'first_difference_line': j,
            'expected': want[j:j + 3], 'got': got[j:j + 3], 'stderr': e[-300:],
            'program': '\n'.join(L) + '\n', 'program_kind': 'preprocess-vs-gcc'})
        return
    if L is not None:
        corr.sample({'macro-wrap-history': {'recipe': tag, 'names': members, 'lines': len(L)}})
