"""Shared machinery of ./check (python3 stdlib only).  See DESIGN.md section 2.

A property plugin (checklib/Cxx.py) provides:
  PROPERTY      = "Cxx"
  GEN_MODULES   = [translator module names]          (tools/extract/<name>.py)
  LEAN_TARGETS  = [lake module targets to build]     (Props + Findings)
  PROPS_FILES   = [lean files whose `theorem` declarations are the obligations]
  NEEDS_HOOKS   = bool
  TRUSTED_BASE  = [strings]
  def correspond(ctx) -> Corr      model <-> implementation on the same inputs
  def search(ctx, broken) -> optional dict   find a concrete failing input on the implementation
"""
import os, sys, re, json, time, shutil, subprocess, hashlib, random, tempfile, fcntl, atexit, signal

VERIF = os.path.dirname(os.path.dirname(os.path.abspath(__file__)))
REPO = os.environ.get('VERIF_REPO', '/repo')
LEAN_DIR = os.path.join(VERIF, 'lean')
GUARD = 'CHIBICC_VERIF'
ALLOWED_AXIOMS = {'propext', 'Classical.choice', 'Quot.sound'}
FORBIDDEN = re.compile(r'\bsorry\b|\badmit\b|^\s*axiom\s|native_decide|bv_decide|implemented_by|\bunsafe\s|maxHeartbeats\s+0\b')
NPROC = os.cpu_count() or 4


def log(*a):
    print('[check]', *a, file=sys.stderr, flush=True)


def sh(cmd, cwd=None, timeout=None, env=None, input=None, text=True):
    """run a command; returns (rc, stdout, stderr); rc=-9 on timeout"""
    try:
        p = subprocess.run(cmd, cwd=cwd, timeout=timeout, env=env, input=input,
                           capture_output=True, text=text, shell=isinstance(cmd, str),
                           errors='replace' if text else None)
        return p.returncode, p.stdout, p.stderr
    except subprocess.TimeoutExpired as e:
        return -9, (e.stdout or '') if text else b'', 'timeout'


class Corr:
    """result of a correspondence / oracle run"""
    def __init__(self):
        self.evaluations = 0
        self.nontrivial = set()      # canonical keys of distinct non-trivial cases
        self.samples = []
        self.distribution = {}
        self.disagreements = []      # list of dict(kind=..., input=..., model=..., impl=..., note=...)
        self.violations = []         # list of dict(input=..., expected=..., got=..., what=...)  property fails on the implementation
        self.known_hits = []         # ids of known findings whose witness still fails
        self.rule = ''
        self.exhaustive = False
        self.extra = {}

    def count(self, key, n=1):
        self.distribution[key] = self.distribution.get(key, 0) + n

    def sample(self, s, limit=6):
        if len(self.samples) < limit:
            self.samples.append(s)


class Ctx:
    def __init__(self, prop, tier, seed):
        self.prop = prop
        self.tier = tier
        self.seed = seed
        self.rng = random.Random(seed)
        self.t0 = time.time()
        base = os.environ.get('VERIF_SCRATCH', '/var/tmp')
        os.makedirs(base, exist_ok=True)
        self.scratch = tempfile.mkdtemp(prefix=f'chv.{prop}.', dir=base)
        atexit.register(self.cleanup)
        for s in (signal.SIGTERM, signal.SIGINT, signal.SIGHUP):
            signal.signal(s, lambda *_: sys.exit(130))
        self.snapshot = None
        self.hooked = None
        self.lean_dir = LEAN_DIR
        self.gen_changed = []
        self.gen_errors = []
        self.notes = []
        self.thorough = tier == 'thorough'

    def cleanup(self):
        shutil.rmtree(self.scratch, ignore_errors=True)

    # ---------------------------------------------------------------- snapshot
    def take_snapshot(self, hooks=False):
        """copy /repo's working tree (sources only) and build it; returns path to the dir"""
        name = 'repo_h' if hooks else 'repo'
        dst = os.path.join(self.scratch, name)
        if os.path.exists(dst):
            return dst
        rc, o, e = sh(['rsync', '-a', '--delete', '--exclude=.git', '--exclude=*.o', '--exclude=/chibicc',
                       '--exclude=/stage2', '--exclude=*.exe', '--exclude=/tmp*', REPO + '/', dst + '/'])
        if rc != 0:
            raise RuntimeError('rsync failed: ' + e)
        cflags = '-std=c11 -g -fno-common -Wall -Wno-switch -O0'
        if hooks:
            cflags += f' -D{GUARD}'
        rc, o, e = sh(['make', f'-j{NPROC}', 'chibicc', f'CFLAGS={cflags}'], cwd=dst, timeout=600)
        if rc != 0:
            # A tree that does not compile is outside what the checks are asked to decide; say so.
            raise BuildFailure(f'/repo does not build ({name}): ' + (e or o)[-2000:])
        if hooks:
            self.hooked = dst
        else:
            self.snapshot = dst
        return dst

    @property
    def cc(self):
        return os.path.join(self.take_snapshot(False), 'chibicc')

    @property
    def cch(self):
        return os.path.join(self.take_snapshot(True), 'chibicc')

    # ---------------------------------------------------------------- translator
    def regenerate(self, modules):
        """run the translators on the snapshot; if Gen/ differs from the committed cache,
        switch to a scratch copy of the lean project"""
        if not modules:
            return
        snap = self.take_snapshot(False)
        gen_tmp = os.path.join(self.scratch, 'Gen')
        os.makedirs(gen_tmp, exist_ok=True)
        rc, o, e = sh([sys.executable, os.path.join(VERIF, 'tools/extract/run.py'), snap, gen_tmp] + modules)
        files = []
        for line in o.splitlines():
            w = line.split(' ', 2)
            if w[0] == 'error':
                self.gen_errors.append(line)
            elif w[0] in ('changed', 'same'):
                files.append(w[1])
        if e.strip():
            self.gen_errors.append('translator stderr: ' + e.strip()[-500:])
        differing = []
        for fn in files:
            new = open(os.path.join(gen_tmp, fn)).read()
            cur_path = os.path.join(LEAN_DIR, 'ChibiVerif/Gen', fn)
            cur = open(cur_path).read() if os.path.exists(cur_path) else None
            if new != cur:
                differing.append(fn)
        self.gen_changed = differing
        if differing:
            log('generated model differs from committed cache:', differing, '-> building in scratch copy')
            dst = os.path.join(self.scratch, 'lean')
            with open(os.path.join(LEAN_DIR, '.lock'), 'w') as lk:
                fcntl.flock(lk, fcntl.LOCK_EX)
                sh(['cp', '-a', LEAN_DIR, dst])
            for fn in differing:
                shutil.copy(os.path.join(gen_tmp, fn), os.path.join(dst, 'ChibiVerif/Gen', fn))
            self.lean_dir = dst

    # ---------------------------------------------------------------- lean
    def lake(self, args, timeout=3600):
        if self.lean_dir == LEAN_DIR:
            with open(os.path.join(LEAN_DIR, '.lock'), 'w') as lk:
                fcntl.flock(lk, fcntl.LOCK_EX)
                return sh(['lake'] + args, cwd=self.lean_dir, timeout=timeout)
        return sh(['lake'] + args, cwd=self.lean_dir, timeout=timeout)

    def build_driver(self):
        name = 'drv_' + self.prop.lower()
        if getattr(self, '_driver', None):
            return self._driver, ''
        rc, o, e = self.lake(['build', name])
        if rc != 0:
            return None, (o + e)
        self._driver = os.path.join(self.lean_dir, '.lake/build/bin', name)
        return self._driver, ''

    def driver(self, sub, input_text, timeout=600, args=()):
        """run the property's Lean driver executable (lean/ChibiVerif/Driver/<Cxx>Main.lean) on input_text"""
        exe, err = self.build_driver()
        if exe is None:
            raise ModelBuildFailure(err)
        rc, o, e = sh([exe, sub] + list(args), input=input_text, timeout=timeout)
        if rc != 0:
            raise RuntimeError(f'driver {sub} failed rc={rc}: {e[-500:]}')
        return o


class BuildFailure(Exception):
    pass


class ModelBuildFailure(Exception):
    pass


# -------------------------------------------------------------------- proof step

def theorems_in(files, lean_dir):
    """names of `theorem` declarations (the obligations) with their namespaces"""
    out = []
    for f in files:
        path = os.path.join(lean_dir, f)
        if not os.path.exists(path):
            continue
        ns = []
        for line in open(path):
            m = re.match(r'\s*namespace\s+(\S+)', line)
            if m:
                ns.append(m.group(1))
                continue
            m = re.match(r'\s*end\s+(\S+)', line)
            if m and ns and ns[-1] == m.group(1):
                ns.pop()
                continue
            m = re.match(r'\s*(?:@\[[^\]]*\]\s*)?(?:private\s+|protected\s+)?theorem\s+([^\s:({\[]+)', line)
            if m:
                out.append('.'.join(ns + [m.group(1)]))
    return out


def open_statements_in(files, lean_dir):
    out = []
    for f in files:
        path = os.path.join(lean_dir, f)
        if os.path.exists(path):
            out += re.findall(r'^\s*def\s+(\S+_Statement)\b', open(path).read(), re.M)
    return out


def strip_lean_comments(text):
    text = re.sub(r'/-.*?-/', lambda m: '\n' * m.group(0).count('\n'), text, flags=re.S)
    text = re.sub(r'--.*', '', text)
    # string literals are not proof terms; drop them so that a message mentioning a word is not a hit
    text = re.sub(r'"(?:\\.|[^"\\])*"', '""', text)
    return text


def import_closure(lean_dir, modules):
    """files of the project that the given modules (transitively) import"""
    seen, todo = {}, list(modules)
    while todo:
        m = todo.pop()
        if m in seen:
            continue
        path = os.path.join(lean_dir, m.replace('.', '/') + '.lean')
        if not os.path.exists(path):
            continue   # core / Std / Mathlib
        seen[m] = path
        for line in open(path):
            mm = re.match(r'\s*(?:public\s+)?import\s+([\w.]+)', line)
            if mm:
                todo.append(mm.group(1))
    return seen


def grep_forbidden(lean_dir, modules):
    """forbidden constructs in every project file the property's theorems (and its driver) depend on"""
    hits = []
    for m, p in sorted(import_closure(lean_dir, modules).items()):
        txt = strip_lean_comments(open(p).read())
        for i, line in enumerate(txt.splitlines(), 1):
            if FORBIDDEN.search(line):
                hits.append(f'{os.path.relpath(p, lean_dir)}:{i}: {line.strip()[:120]}')
    return hits


def prove(ctx, plugin):
    """build the Props/Findings modules and audit axioms.  Returns dict."""
    res = {'ok': True, 'build_output': '', 'failed_theorems': [], 'axioms': {}, 'bad_axioms': {},
           'forbidden': [], 'obligations': 0, 'discharged': 0, 'theorems': [], 'open_statements': []}
    thms = theorems_in(plugin.PROPS_FILES, ctx.lean_dir)
    res['theorems'] = thms
    res['obligations'] = len(thms)
    res['open_statements'] = open_statements_in(plugin.PROPS_FILES, ctx.lean_dir)
    rc, o, e = ctx.lake(['build'] + plugin.LEAN_TARGETS)
    out = o + e
    res['build_output'] = out[-6000:]
    if rc != 0:
        res['ok'] = False
        failed_files = set(re.findall(r'error: (\S+\.lean):\d+', out))
        res['failed_files'] = sorted(failed_files)
        # which theorem does each error line belong to?
        for m in re.finditer(r'error: (\S+\.lean):(\d+):\d+', out):
            fpath = os.path.join(ctx.lean_dir, m.group(1)) if not os.path.isabs(m.group(1)) else m.group(1)
            name = enclosing_decl(fpath, int(m.group(2)))
            if name and name not in res['failed_theorems']:
                res['failed_theorems'].append(name)
        if not res['failed_theorems']:
            res['failed_theorems'].append('lake-build:' + (sorted(failed_files)[0] if failed_files else 'unknown'))
        return res
    # axiom audit
    mods = sorted({t for t in plugin.LEAN_TARGETS})
    audit = os.path.join(ctx.scratch, 'Audit.lean')
    with open(audit, 'w') as f:
        for mname in mods:
            f.write(f'import {mname}\n')
        for t in thms:
            f.write(f'#print axioms {t}\n')
    rc, o, e = sh(['lake', 'env', 'lean', audit], cwd=ctx.lean_dir, timeout=1200)
    cur = None
    txt = o + e
    for m in re.finditer(r"'([^']+)' depends on axioms: \[([^\]]*)\]|'([^']+)' does not depend on any axioms", txt):
        if m.group(1):
            res['axioms'][m.group(1)] = [a.strip() for a in m.group(2).replace('\n', ' ').split(',') if a.strip()]
        else:
            res['axioms'][m.group(3)] = []
    for t in thms:
        short = t
        ax = res['axioms'].get(t)
        if ax is None:
            # lean prints the fully qualified name; try suffix match
            for k, v in res['axioms'].items():
                if k.endswith(t):
                    ax = v
                    break
        if ax is None:
            res['ok'] = False
            res['failed_theorems'].append(t + ' (no axiom report: ' + txt[-300:].replace('\n', ' ') + ')')
            continue
        bad = [a for a in ax if a not in ALLOWED_AXIOMS]
        if bad:
            res['bad_axioms'][t] = bad
            res['ok'] = False
            res['failed_theorems'].append(t + ' (inadmissible axioms ' + ','.join(bad) + ')')
        else:
            res['discharged'] += 1
    res['forbidden'] = grep_forbidden(ctx.lean_dir, list(plugin.LEAN_TARGETS) + [f'ChibiVerif.Driver.{plugin.PROPERTY}Main'])
    res['files_audited'] = sorted(os.path.relpath(p, ctx.lean_dir) for p in import_closure(ctx.lean_dir, list(plugin.LEAN_TARGETS) + [f'ChibiVerif.Driver.{plugin.PROPERTY}Main']).values())
    if res['forbidden']:
        res['ok'] = False
        res['failed_theorems'].append('forbidden construct: ' + res['forbidden'][0])
    if ctx.thorough and res['ok']:
        for mname in [t for t in plugin.LEAN_TARGETS if '.Props.' in t]:
            rc, o, e = sh(['lake', 'env', 'leanchecker', mname], cwd=ctx.lean_dir, timeout=3600)
            res.setdefault('leanchecker', {})[mname] = 'ok' if rc == 0 else (o + e)[-400:]
            if rc != 0:
                res['ok'] = False
                res['failed_theorems'].append(f'leanchecker {mname}')
    return res


def enclosing_decl(path, lineno):
    try:
        lines = open(path).read().splitlines()
    except OSError:
        return None
    for i in range(min(lineno, len(lines)) - 1, -1, -1):
        m = re.match(r'\s*(?:@\[[^\]]*\]\s*)?(?:private\s+|protected\s+)?(theorem|lemma|def|example|instance|abbrev)\s+([^\s:({\[]+)?', lines[i])
        if m:
            return f'{os.path.basename(path)}:{m.group(2) or m.group(1)}'
    return os.path.basename(path)


# -------------------------------------------------------------------- findings / evidence

def load_known():
    p = os.path.join(VERIF, 'known_findings.json')
    if not os.path.exists(p):
        return {'findings': [], 'fixed': []}
    return json.load(open(p))


def write_replay(prop, payload):
    d = os.path.join(VERIF, 'evidence', 'replays') if REPO == '/repo' else os.path.join(VERIF, 'evidence', 'replays', 'mutated')
    os.makedirs(d, exist_ok=True)
    blob = json.dumps(payload, sort_keys=True, indent=1, default=str)
    h = hashlib.sha1(blob.encode()).hexdigest()[:10]
    path = os.path.join(d, f'{prop}-{h}.json')
    with open(path, 'w') as f:
        f.write(blob + '\n')
    return path


def write_evidence(ctx, plugin, proof, corr, violations, extra=None):
    cov = {
        'obligations': max(1, proof.get('obligations', 0)),
        'discharged': proof.get('discharged', 0),
        'checker_cmd': f"cd lean && lake build {' '.join(plugin.LEAN_TARGETS)} && lake env lean <Audit: #print axioms of every theorem in {' '.join(plugin.PROPS_FILES)}>"
                       + (' && lake env leanchecker <Props modules>' if ctx.thorough else ''),
        'trusted_base': list(plugin.TRUSTED_BASE),
        'theorems': proof.get('theorems', []),
        'axioms': proof.get('axioms', {}),
        'open_statements': proof.get('open_statements', []),
        'lean_files_audited': proof.get('files_audited', []),
        'generated_model_changed': ctx.gen_changed,
        'translator_errors': ctx.gen_errors,
        'evaluations': corr.evaluations,
        'distinct_nontrivial': len(corr.nontrivial),
        'rule': corr.rule,
        'samples': corr.samples or ['(none)'],
        'distribution': corr.distribution,
        'exhaustive': corr.exhaustive,
        'model_impl_disagreements': len(corr.disagreements),
        'known_findings_reproduced': corr.known_hits,
    }
    if proof.get('leanchecker'):
        cov['leanchecker'] = proof['leanchecker']
    cov.update(corr.extra)
    if extra:
        cov.update(extra)
    ev = {
        'property_id': plugin.PROPERTY,
        'tier': ctx.tier,
        'seed': ctx.seed,
        'level': 'proof',
        'coverage': cov,
        'assumptions': list(getattr(plugin, 'ASSUMPTIONS', [])),
        'wall_s': round(time.time() - ctx.t0, 2),
        'violations': violations,
    }
    # a run against a mutated copy of the repository (VERIF_REPO) must not overwrite the evidence of the real tree
    evdir = os.environ.get('VERIF_EVIDENCE_DIR') or (os.path.join(VERIF, 'evidence') if REPO == '/repo' else os.path.join(ctx.scratch, 'evidence'))
    os.makedirs(evdir, exist_ok=True)
    with open(os.path.join(evdir, f'{plugin.PROPERTY}.json'), 'w') as f:
        json.dump(ev, f, indent=1, default=str)
        f.write('\n')


# -------------------------------------------------------------------- main flow

def run_check(plugin, tier, seed, replay=None):
    ctx = Ctx(plugin.PROPERTY, tier, seed)
    prop = plugin.PROPERTY
    known = load_known()
    known_ids = {f['id']: f for f in known.get('findings', []) if f.get('property') == prop}
    corr = Corr()
    proof = {'obligations': 0, 'discharged': 0}
    violations = []   # list of (payload, found_input: bool)
    try:
        ctx.take_snapshot(False)
        if getattr(plugin, 'NEEDS_HOOKS', False):
            ctx.take_snapshot(True)
        ctx.regenerate(plugin.GEN_MODULES)
        broken = []
        if ctx.gen_errors:
            broken.append({'kind': 'translator', 'what': ctx.gen_errors})
        proof = prove(ctx, plugin)
        if not proof['ok']:
            broken.append({'kind': 'proof', 'what': proof['failed_theorems'],
                           'generated_model_changed': ctx.gen_changed,
                           'build_output_tail': proof['build_output'][-1500:]})
        # correspondence (needs the driver; if the model no longer builds this is skipped)
        try:
            if replay:
                plugin.replay(ctx, corr, replay)
            else:
                plugin.correspond(ctx, corr)
        except ModelBuildFailure as e:
            broken.append({'kind': 'model-build', 'what': str(e)[-1500:]})
        for d in corr.disagreements:
            broken.append({'kind': 'correspondence', 'what': d})
        # property violations seen directly on the implementation
        for v in corr.violations:
            fid = v.get('known_id')
            if fid and fid in known_ids:
                continue
            violations.append((dict(v, source='oracle-vs-implementation'), True))
        if broken and not violations:
            found = None
            try:
                found = plugin.search(ctx, broken, corr)
            except Exception as e:   # the search is best effort
                ctx.notes.append(f'search raised {type(e).__name__}: {e}')
            if found:
                violations.append((dict(found, broken=broken[:3]), True))
            else:
                violations.append(({'broken': broken[:5], 'note': 'no failing input found by the search; '
                                    'the property is no longer shown to hold'}, False))
    except BuildFailure as e:
        violations.append(({'broken': [{'kind': 'build', 'what': str(e)}]}, False))
    # known findings
    for fid in corr.known_hits:
        f = known_ids.get(fid)
        if f:
            print(f"KNOWN-FINDING: property={prop} {fid} {f.get('what', '')}")
    write_evidence(ctx, plugin, proof, corr, len(violations), {'notes': ctx.notes} if ctx.notes else None)
    rc = 0
    for payload, found in violations:
        payload = dict(payload, property=prop, seed=seed, tier=tier)
        path = write_replay(prop, payload)
        log('violation detail:', json.dumps(payload, default=str)[:2500])
        print(f'VIOLATION property={prop} replay={path}' + ('' if found else ' no-failing-input-found'))
        rc = 1
    if rc == 0:
        print(f'OK property={prop} tier={tier} seed={seed} theorems={proof.get("discharged")}/{proof.get("obligations")} '
              f'evaluations={corr.evaluations} distinct_nontrivial={len(corr.nontrivial)} wall={time.time() - ctx.t0:.1f}s')
    ctx.cleanup()
    return rc
