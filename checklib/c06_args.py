"""C06 - argument conversions (parse.c funcall(), C11 6.5.2.2): generators and legs.  Used by checklib/C06.py.

Legs (DESIGN 3.3):
  model <-> code   run_tie:  for generated calls (declared parameter list x argument types, scalars / pointers / enums / arrays /
                   structs, fixed / variadic / unprototyped) the complete text of the calling function's body printed by
                   `chibicc -S` must equal `drv_c06 args calltext` (Model/C06Args.callText over the translated argStep);
                   calls with a wrong argument count must be rejected by cc1 with the diagnostic the model names.
                   run_dump: the full 64-bit argument register / stack slot a chibicc-compiled caller produces must be what
                   `C06_arg_extension` / `C06_arg_bool_normalised` say (low 32 bits = the converted value extended; _Bool 0/1).
  spec <-> gcc     run_exec: the value a gcc-compiled callee receives from a gcc-compiled caller must be `Spec.IntSpec.convert`
                   (through `drv_c06 args conv`) for every integer pair; run_dump: gcc/clang callers satisfy the psABI minimum.
  code vs spec     run_exec: (parameter type x argument type x boundary values x position: register, stack slot, next to
                   floating arguments, variadic tail in registers / in the overflow area, unprototyped callee, through a
                   function pointer; argument expression: variable, struct member, array element, dereference) with the
                   caller compiled by chibicc / gcc / clang and the callee by gcc -O0, gcc -O2, clang -O2, chibicc: the callee
                   records what it received (for _Bool also `!p`, `p ? 7 : 9` and the raw byte); everything must equal the
                   gcc -> gcc reference.
"""
import os, struct, re
from .framework import *
from . import c06_gen as G

# ---------------------------------------------------------------- types

class T:
    def __init__(self, tok, c, kind, size=0, signed=False, ity=None):
        self.tok, self.c, self.kind, self.size, self.signed, self.ity = tok, c, kind, size, signed, ity

    def decl(self, name):
        return f'{self.c}{name}' if self.c.endswith('*') else f'{self.c} {name}'

    def __repr__(self):
        return self.c


BOOL = T('b', '_Bool', 'int', 1, False, 'bool')
CHAR = T('i1', 'char', 'int', 1, True, 'i8')
SCHAR = T('i1', 'signed char', 'int', 1, True, 'i8')
UCHAR = T('u1', 'unsigned char', 'int', 1, False, 'u8')
SHORT = T('i2', 'short', 'int', 2, True, 'i16')
USHORT = T('u2', 'unsigned short', 'int', 2, False, 'u16')
INT = T('i4', 'int', 'int', 4, True, 'i32')
UINT = T('u4', 'unsigned', 'int', 4, False, 'u32')
LONG = T('i8', 'long', 'int', 8, True, 'i64')
ULONG = T('u8', 'unsigned long', 'int', 8, False, 'u64')
ENUM = T('e', 'enum E', 'int', 4, True, 'i32')
PTR = T('p', 'int *', 'ptr', 8, False, 'u64')
FLT = T('f', 'float', 'fp', 4)
DBL = T('d', 'double', 'fp', 8)
LDBL = T('ld', 'long double', 'fp', 16)
INTS = [BOOL, CHAR, SCHAR, UCHAR, SHORT, USHORT, INT, UINT, LONG, ULONG]
ARITH = INTS + [FLT, DBL, LDBL]
SCALARS = ARITH + [ENUM, PTR]
PRE = 'enum E { E0, E1 = 100000, EN = -5 };\n'


def rng_of(t):
    if t.ity == 'bool':
        return 0, 1
    if t.signed:
        return -(1 << (8 * t.size - 1)), (1 << (8 * t.size - 1)) - 1
    return 0, (1 << (8 * t.size)) - 1


def promoted(t):
    """default argument promotions (C11 6.5.2.2p6)"""
    if t.kind == 'int' and t.size < 4:
        return INT
    if t is FLT:
        return DBL
    return t


INT_BOUNDS = [0, 1, 2, 3, 127, 128, 129, 255, 256, 257, 0x7fff, 0x8000, 0xffff, 0x10000, 0x7fffffff, 0x80000000, 0xffffffff,
              0x100000000, 0x7fffffffffffffff, 0x8000000000000000, 0xffffffffffffffff, -1, -2, -127, -128, -129, -255, -256,
              -0x8000, -0x8001, -0x80000000, -0x80000001, -0x8000000000000000, 0x100, 0x1000000, 0x80, 0x55aa55aa55aa55aa]
FP_VALUES = ['0.0', '-0.0', '0.5', '-0.5', '1.0', '2.0', '255.0', '256.75', '-1.5', '-128.0', '65535.0', '1e9', '-2e9', '3e18', '1.2e19',
             '0.1', '1e-40', '16777217.0', '4294967295.0', '(0.0/0.0)', '(1.0/0.0)', '(-1.0/0.0)']


def values_for(t, rng, n, must=()):
    if t.kind == 'fp':
        vs = list(FP_VALUES)
    elif t.kind == 'ptr':
        return ['0', '&gtarget', '(int *)8']
    else:
        lo, hi = rng_of(t)
        vs = sorted({v for v in INT_BOUNDS if lo <= v <= hi})
    out = [v for v in must if v in vs]
    rest = [v for v in vs if v not in out]
    rng.shuffle(rest)
    return out + rest[:max(0, n - len(out))]


def c_lit(t, v):
    if t.kind != 'int':
        return str(v)
    if t.ity == 'u64':
        return f'{v}UL'
    if v == -0x8000000000000000:
        return '(-9223372036854775807L - 1)'
    if t.size == 8:
        return f'{v}L'
    if v == -0x80000000:
        return '(-2147483647 - 1)'
    if v > 0x7fffffff:
        return f'{v}U'
    return str(v)


def fp_value(text):
    return {'(0.0/0.0)': float('nan'), '(1.0/0.0)': float('inf'), '(-1.0/0.0)': float('-inf')}.get(text) if text.startswith('(') else float(text)


def defined_conversion(a, v, p):
    """is the conversion of value v of type a to type p defined (C11 6.3.1.4: the integral part must be representable)?"""
    if a.kind == 'ptr' or p.kind == 'ptr':
        return a.kind == 'ptr' and p.kind == 'ptr'
    if a.kind == 'fp' and p.kind == 'int':
        x = fp_value(v)
        if p.ity == 'bool':
            return True
        if x != x or x in (float('inf'), float('-inf')):
            return False
        if a is FLT:
            x = struct.unpack('<f', struct.pack('<f', x))[0]
        lo, hi = rng_of(p)
        if not (lo <= int(x) <= hi):
            return False
        return True
    if a.kind == 'int' and p.kind == 'fp':
        return True
    if a.kind == 'fp' and p.kind == 'fp':
        x = fp_value(v)
        if p is FLT and x == x and abs(x) not in (float('inf'),) and abs(x) > 3.4e38:
            return False
        return True
    return True


# ---------------------------------------------------------------- leg: text tie

def tie_cases(ctx):
    rng = ctx.rng
    S = G.struct_of
    aggs = [S(G.LONG, G.DBL), S(G.INT), S(G.FLT, G.FLT), S(G.LONG, G.LONG, G.LONG), G.union_of(G.LONG, G.DBL), S(G.arr(G.CHAR, 3))]
    cases = []
    # every (parameter, argument) pair of scalar types, prototyped, a few per call
    pairs = [(p, a) for p in SCALARS for a in SCALARS if (p.kind == 'ptr') == (a.kind == 'ptr')]
    rng.shuffle(pairs)
    while pairs:
        n = rng.choice([1, 2, 3, 5, 8])
        chunk, pairs = pairs[:n], pairs[n:]
        va = rng.random() < 0.3
        tail = [rng.choice(SCALARS) for _ in range(rng.randrange(0, 4))] if va else []
        cases.append(dict(decl='l1' if va else 'l0', ret=rng.choice([None, INT, BOOL, SCHAR, DBL]), params=[p for p, _ in chunk],
                          args=[a for _, a in chunk] + tail))
    # trailing arguments / unprototyped callee: every scalar type
    for _ in range(6 if ctx.thorough else 3):
        tail = list(SCALARS)
        rng.shuffle(tail)
        cases.append(dict(decl='l1', ret=None, params=[INT], args=[INT] + tail[:9]))
        cases.append(dict(decl='l1', ret=None, params=[DBL, PTR], args=[FLT, PTR] + tail[9:] + tail[:3]))
        cases.append(dict(decl='e', ret=INT, params=[], args=tail[:rng.randrange(0, 8)]))
    cases.append(dict(decl='v', ret=INT, params=[], args=[]))
    cases.append(dict(decl='e', ret=None, params=[], args=[]))
    # register exhaustion: many arguments with conversions
    for _ in range(10 if ctx.thorough else 4):
        n = rng.choice([7, 9, 12, 15])
        ps = [rng.choice(ARITH + [ENUM]) for _ in range(n)]
        as_ = [rng.choice(ARITH + [ENUM]) for _ in range(n)]
        cases.append(dict(decl='l0', ret=rng.choice([None, LONG]), params=ps, args=as_))
    # arrays decay, structs are passed as they are (also among converted scalars), struct return
    for _ in range(12 if ctx.thorough else 5):
        ag = rng.choice(aggs)
        other = rng.choice(aggs)
        cases.append(dict(decl=rng.choice(['l0', 'l1']), ret=rng.choice([None, other, INT]),
                          params=[BOOL, ag, PTR, FLT], args=[rng.choice(INTS), ag, ('arr', rng.choice([1, 3, 10])), rng.choice(ARITH)]))
        cases.append(dict(decl='l1', ret=None, params=[INT], args=[CHAR, ag, FLT, other, ('arr', 2)]))
    # an array parameter is adjusted to a pointer
    cases.append(dict(decl='l0', ret=None, params=[('arr', 4), CHAR], args=[('arr', 4), INT]))
    # wrong counts: diagnostics
    cases.append(dict(decl='l0', ret=None, params=[INT, BOOL], args=[INT], diag='too few arguments'))
    cases.append(dict(decl='l0', ret=None, params=[INT], args=[INT, CHAR], diag='too many arguments'))
    cases.append(dict(decl='l1', ret=None, params=[INT, DBL], args=[INT], diag='too few arguments'))
    cases.append(dict(decl='v', ret=None, params=[], args=[INT], diag='too many arguments'))
    return cases


def ty_tok(t):
    if isinstance(t, tuple):
        return f'[ {t[1]} i4 ]'
    if isinstance(t, T):
        return t.tok
    return t.lean()


def ty_decl(t, name):
    if isinstance(t, tuple):
        return f'int {name}[{t[1]}]'
    if isinstance(t, T):
        return t.decl(name)
    return t.cdecl(name)


def ty_short(t):
    if isinstance(t, tuple):
        return f'int[{t[1]}]'
    return t.c if isinstance(t, T) else t.short()


def case_short(c):
    ps = ', '.join(ty_short(p) for p in c['params'])
    if c['decl'] == 'l1':
        ps += ', ...'
    if c['decl'] == 'v':
        ps = 'void'
    return f"{ty_short(c['ret']) if c['ret'] else 'void'} f({ps}) called with ({', '.join(ty_short(a) for a in c['args'])})"


def tie_source(cases, k0=0):
    aggs = []
    for c in cases:
        for t in [c['ret']] + c['params'] + c['args']:
            if t is not None and not isinstance(t, (T, tuple)):
                G.agg_types_of(t, aggs)
    defs = []
    for t in aggs:
        kw = 'union' if t.isunion else 'struct'
        body = ' '.join((f'_Alignas({al}) ' if al else '') + mt.cdecl(n) + ';' for n, mt, _, al in t.members)
        defs.append(f"{kw} {t.tag} {{ {body} }};")
    out = [PRE] + defs
    for i, c in enumerate(cases):
        k = k0 + i
        r = ty_decl(c['ret'], '').strip() if c['ret'] else 'void'
        if c['decl'] == 'v':
            ps = 'void'
        elif c['decl'] == 'e':
            ps = ''
        else:
            ps = ', '.join(ty_decl(p, f'p{j}') for j, p in enumerate(c['params'])) + (', ...' if c['decl'] == 'l1' else '')
        out.append(f'{r} f{k}({ps});')
        for j, a in enumerate(c['args']):
            out.append('extern ' + ty_decl(a, f'g{k}_{j}') + ';')
        out.append(f"void caller{k}(void) {{ f{k}({', '.join(f'g{k}_{j}' for j in range(len(c['args'])))}); }}")
    return '\n'.join(out) + '\n'


def tie_request(c):
    left = ' ; '.join([ty_tok(c['ret']) if c['ret'] else 'v'] + [ty_tok(p) for p in c['params']])
    right = ' ; '.join(ty_tok(a) for a in c['args'])
    return f"calltext 0 {c['decl']} {left} | {right}"


def functions_of(asm):
    out, cur = {}, None
    for l in asm.split('\n'):
        if l.startswith('  .loc ') or l.startswith('  .file '):
            continue
        m = re.match(r'^([A-Za-z_]\w*):$', l)
        if m:
            cur = m.group(1)
            out[cur] = []
            continue
        if l.startswith('.L.return.'):
            cur = None
            continue
        if cur is not None:
            out[cur].append(l)
    return out


def normalise_body(lines, k):
    out = []
    for l in lines[4:]:
        m = re.fullmatch(rf'  (?:lea g{k}_(\d+)\(%rip\)|mov g{k}_(\d+)@GOTPCREL\(%rip\)), %rax', l)
        if m:
            out.append('@' + (m.group(1) or m.group(2)))
            continue
        if re.fullmatch(rf'  (?:lea f{k}\(%rip\)|mov f{k}@GOTPCREL\(%rip\)), %rax', l):
            out.append('@f')
            continue
        out.append(l)
    return out


def run_tie(ctx, corr):
    d = os.path.join(ctx.scratch, 'argtie')
    os.makedirs(d, exist_ok=True)
    cases = tie_cases(ctx)
    ans = ctx.driver('args', ''.join(tie_request(c) + '\n' for c in cases)).split('\n')
    good = [(c, a) for c, a in zip(cases, ans) if 'diag' not in c]
    bad = [(c, a) for c, a in zip(cases, ans) if 'diag' in c]
    B = 40
    for i in range(0, len(good), B):
        batch = good[i:i + B]
        open(os.path.join(d, 'tie.c'), 'w').write(tie_source([c for c, _ in batch], i))
        rc, o, e = sh([ctx.cc, '-S', '-o', 'tie.s', 'tie.c'], cwd=d, timeout=120)
        if rc != 0:
            corr.disagreements.append({'kind': 'args-tie', 'what': 'cc1 rejects the generated calls', 'impl': e[-300:], 'model': 'compiles'})
            continue
        fns = functions_of(open(os.path.join(d, 'tie.s')).read())
        for j, (c, a) in enumerate(batch):
            k = i + j
            corr.evaluations += 1
            corr.count('args-tie')
            corr.nontrivial.add('argtie:' + case_short(c))
            if a.startswith('diag:') or a.startswith('bad'):
                corr.disagreements.append({'kind': 'args-tie', 'call': case_short(c), 'model': a, 'impl': 'compiles'})
                continue
            text, _, casts = a.partition(' # ')
            exp = text.split('|') if text else []
            got = normalise_body(fns.get(f'caller{k}', []), k)
            if got != exp:
                jx = next((x for x in range(min(len(got), len(exp))) if got[x] != exp[x]), min(len(got), len(exp)))
                corr.disagreements.append({'kind': 'args-tie', 'call': case_short(c), 'request': tie_request(c), 'line': jx, 'casts': casts,
                                           'model': exp[jx] if jx < len(exp) else '<end>', 'impl': got[jx] if jx < len(got) else '<end>'})
                if len(corr.disagreements) > 5:
                    return
    for c, a in bad:
        corr.evaluations += 1
        corr.count('args-tie-diag')
        open(os.path.join(d, 'bad.c'), 'w').write(tie_source([c], 0))
        rc, o, e = sh([ctx.cc, '-S', '-o', 'bad.s', 'bad.c'], cwd=d, timeout=60)
        impl = 'compiles' if rc == 0 else ('diag:' + c['diag'] if c['diag'] in e else 'other failure: ' + e[-200:])
        if impl != a:
            corr.disagreements.append({'kind': 'args-tie-diag', 'call': case_short(c), 'model': a, 'impl': impl, 'c11': 'diag:' + c['diag']})
        if impl != 'diag:' + c['diag']:
            # C11 6.5.2.2p2 is a constraint: the implementation (not only the model) must diagnose it
            corr.violations.append({'what': f'a call with the wrong number of arguments is not diagnosed ({c["diag"]}): {case_short(c)}',
                                    'input': tie_source([c], 0), 'expected': 'diagnostic: ' + c['diag'], 'got': impl, 'mode': 'argdiag'})


# ---------------------------------------------------------------- leg: execution

POSITIONS = ['reg', 'stack', 'mixed', 'fptr', 'reg3']
FORMS = ['var', 'member', 'elem', 'deref']

UTIL = r'''
#include <stdio.h>
static int cur = -1;
void begin(int k) { cur = k; printf("B %d\n", k); }
void rec(int id, unsigned long v) { printf("%d %d %lx\n", cur, id, v); }
'''

CALLEE_PRE = ('void begin(int k); void rec(int id, unsigned long v);\nvoid *memcpy(void *, const void *, unsigned long);\n'
              '#include <stdarg.h>\n' + PRE + 'extern int gtarget;\n')
CALLER_PRE = ('void *memcpy(void *, const void *, unsigned long);\n' + PRE + 'int gtarget;\n')


def rec_param(p, name):
    """statements recording the received parameter"""
    if p.kind == 'fp':
        # the sign and payload of a NaN are not specified (0.0/0.0 folded at compile time vs computed): record NaN-ness only
        if p is LDBL:
            return (f'if ({name} != {name}) {{ rec(0, 0x7ff8UL); rec(1, 0x7ff8UL); }} else '
                    f'{{ unsigned long u_[2] = {{0, 0}}; memcpy(u_, &{name}, 10); rec(0, u_[0]); rec(1, u_[1]); }}')
        return (f'if ({name} != {name}) rec(0, 0x7ff8UL); else '
                f'{{ unsigned long u_ = 0; memcpy(&u_, &{name}, sizeof({name})); rec(0, u_); }}')
    if p.kind == 'ptr':
        return f'rec(0, {name} == 0 ? 0UL : {name} == &gtarget ? 1UL : (unsigned long){name});'
    if p.ity == 'bool':
        return (f'rec(0, (unsigned long)(int){name}); rec(1, (unsigned long)!{name}); rec(2, {name} ? 7UL : 9UL); '
                f'{{ unsigned char u_ = 0; memcpy(&u_, &{name}, 1); rec(3, u_); }} rec(4, (unsigned long)({name} + {name} + {name}));')
    return f'rec(0, (unsigned long)(long){name});'


def callee_def(name, p, pos):
    """one callee per (parameter type, position)"""
    pd = p.decl('p')
    if pos in ('reg', 'fptr'):
        return f'void {name}({pd}) {{ {rec_param(p, "p")} }}'
    if pos == 'reg3':
        return f'void {name}(int a, long b, {pd}, int c) {{ {rec_param(p, "p")} rec(8, (unsigned long)(a + b + c)); }}'
    if pos == 'stack':
        if p.kind == 'fp' and p is not LDBL:
            pre = ', '.join(f'double d{i}' for i in range(8))
            return f'void {name}({pre}, {pd}) {{ {rec_param(p, "p")} rec(8, (unsigned long)(long)(d0 + d7)); }}'
        pre = ', '.join(f'long a{i}' for i in range(6))
        return f'void {name}({pre}, {pd}) {{ {rec_param(p, "p")} rec(8, (unsigned long)(a0 + a5)); }}'
    if pos == 'mixed':
        return f'void {name}(double x, {pd}, float y) {{ {rec_param(p, "p")} rec(8, (unsigned long)(long)(x + y)); }}'
    raise KeyError(pos)


def call_expr(name, pos, arg):
    if pos == 'reg':
        return f'{name}({arg})'
    if pos == 'fptr':
        return f'fp_{name}({arg})'
    if pos == 'reg3':
        return f'{name}(1, 2L, {arg}, 3)'
    if pos == 'stack_fp':
        return f'{name}(1.5, 2.5, 3.5, 4.5, 5.5, 6.5, 7.5, 8.5, {arg})'
    if pos == 'stack':
        return f'{name}(1L, 2L, 3L, 4L, 5L, 6L, {arg})'
    if pos == 'mixed':
        return f'{name}(1.5, {arg}, 2.5f)'
    raise KeyError(pos)


def arg_setup(a, v, form):
    """(declarations/statements, argument expression) for an argument of type a holding v"""
    lit = c_lit(a, v)
    if form == 'var':
        return f'{a.decl("a_")} = {lit};', 'a_'
    if form == 'member':
        return f'struct {{ char pad; {a.decl("m")}; }} s_; s_.m = {lit};', 's_.m'
    if form == 'elem':
        return f'{a.decl("r_[3]")}; r_[1] = {lit};', 'r_[1]'
    if form == 'deref':
        return f'{a.decl("a_")} = {lit}; {a.decl("*q_")} = &a_;', '*q_'
    raise KeyError(form)


class ExecCase:
    """one call: family 'proto' (parameter p at position pos), 'tail' (variadic tail, `where` = regs/overflow/fpoverflow),
    'unproto' (callee declared `()` in the caller)"""
    def __init__(self, family, p, a, v, pos, form):
        self.family, self.p, self.a, self.v, self.pos, self.form = family, p, a, v, pos, form

    def key(self):
        return f'{self.family}:{self.p.c if self.p else "-"}<-{self.a.c}={self.v}@{self.pos}/{self.form}'

    def callee(self):
        if self.family == 'proto':
            return f'f_{self.p.tok}_{self.p.c.replace(" ", "_").replace("*", "p")}_{self.pos}'
        pt = promoted(self.a)
        return f'{"t" if self.family == "tail" else "u"}_{pt.tok}_{self.pos}'

    def snippet(self):
        setup, ex = arg_setup(self.a, self.v, self.form)
        if self.family == 'proto':
            pos = 'stack_fp' if (self.pos == 'stack' and self.p.kind == 'fp' and self.p is not LDBL) else self.pos
            return f'{callee_def(self.callee(), self.p, self.pos).split(" {")[0]};  /* callee */  {setup} {call_expr(self.callee(), pos, ex)};'
        if self.family == 'tail':
            return f'void {self.callee()}(int n, ...);  {setup} {self.tail_call(ex)};'
        return f'void {self.callee()}();  {setup} {self.callee()}({ex});'

    def tail_call(self, ex):
        n = self.callee()
        if self.pos == 'regs':
            return f'{n}(1, {ex})'
        if self.pos == 'overflow':
            return f'{n}(7, 1L, 2L, 3L, 4L, 5L, 6.5, {ex})'       # five more INTEGER registers used up: the next integer is on the stack
        return f'{n}(10, 1.5, 2.5, 3.5, 4.5, 5.5, 6.5, 7.5, 8.5, 9L, {ex})'   # the eight SSE registers used up


def tail_callee_def(name, pt, pos):
    rd = rec_param(pt, 'p')
    skip = {'regs': '', 'overflow': 'for (int i = 0; i < 5; i++) s += va_arg(ap, long); s += (long)va_arg(ap, double);',
            'fpoverflow': 'for (int i = 0; i < 8; i++) s += (long)va_arg(ap, double); s += va_arg(ap, long);'}[pos]
    return (f'void {name}(int n, ...) {{ va_list ap; va_start(ap, n); long s = n; {skip} {pt.decl("p")} = va_arg(ap, {pt.c}); va_end(ap); '
            f'{rd} rec(8, (unsigned long)s); }}')


def exec_cases(ctx):
    rng = ctx.rng
    out = []
    chars = [CHAR, SCHAR, UCHAR]
    # the battery that must always be there: _Bool parameter x character / integer argument x non-0/1 values x every position
    for a in chars + [SHORT, INT, LONG, USHORT, ULONG]:
        for pos in POSITIONS:
            vs = values_for(a, rng, 3 if not ctx.thorough else 8, must=[2, 128 if a.signed is False or a.size > 1 else -128, 255 if rng_of(a)[1] >= 255 else -1, 0, 256])
            for v in vs:
                out.append(ExecCase('proto', BOOL, a, v, pos, rng.choice(FORMS)))
    for a in [FLT, DBL, LDBL]:
        for v in ['0.0', '-0.0', '0.5', '(0.0/0.0)', '1e-40', '256.75']:
            out.append(ExecCase('proto', BOOL, a, v, rng.choice(POSITIONS), rng.choice(FORMS)))
    # all pairs
    pairs = [(p, a) for p in SCALARS for a in SCALARS if (p.kind == 'ptr') == (a.kind == 'ptr') and p is not BOOL]
    nv = 12 if ctx.thorough else 3
    for p, a in pairs:
        poss = POSITIONS if ctx.thorough else [rng.choice(POSITIONS)]
        for pos in poss:
            for v in values_for(a, rng, nv):
                if defined_conversion(a, v, p):
                    out.append(ExecCase('proto', p, a, v, pos, rng.choice(FORMS)))
                else:
                    pass
    # default argument promotions
    for a in SCALARS:
        for where in ('regs', 'overflow', 'fpoverflow'):
            for v in values_for(a, rng, 6 if ctx.thorough else 2):
                out.append(ExecCase('tail', None, a, v, where, rng.choice(FORMS)))
        for v in values_for(a, rng, 6 if ctx.thorough else 2):
            out.append(ExecCase('unproto', None, a, v, 'reg', rng.choice(FORMS)))
    return out


def exec_sources(cases):
    callees, protos, fptrs = {}, {}, {}
    for c in cases:
        n = c.callee()
        if n in callees:
            continue
        if c.family == 'proto':
            callees[n] = callee_def(n, c.p, c.pos)
            protos[n] = callees[n].split(' {')[0] + ';'
            if c.pos == 'fptr':
                fptrs[n] = f'void (*fp_{n})({c.p.decl("")}) = {n};'
        elif c.family == 'tail':
            callees[n] = tail_callee_def(n, promoted(c.a), c.pos)
            protos[n] = f'void {n}(int n, ...);'
        else:
            pt = promoted(c.a)
            callees[n] = f'void {n}({pt.decl("p")}) {{ {rec_param(pt, "p")} }}'
            protos[n] = f'void {n}();'
    callee = CALLEE_PRE + '\n'.join(callees.values()) + '\n'
    caller = [CALLER_PRE, 'void begin(int k);'] + list(protos.values()) + list(fptrs.values())
    main = [UTIL]
    for i, c in enumerate(cases):
        setup, ex = arg_setup(c.a, c.v, c.form)
        if c.family == 'proto':
            pos = 'stack_fp' if (c.pos == 'stack' and c.p.kind == 'fp' and c.p is not LDBL) else c.pos
            call = call_expr(c.callee(), pos, ex)
        elif c.family == 'tail':
            call = c.tail_call(ex)
        else:
            call = f'{c.callee()}({ex})'
        caller.append(f'void call{i}(void) {{ begin({i}); {setup} {call}; }}')
        main.append(f'void call{i}(void);')
    main.append('int main(void) {')
    main += [f'  call{i}(); fflush(stdout);' for i in range(len(cases))]
    main.append('  printf("END\\n"); return 0; }')
    return {'acallee.c': callee, 'acaller.c': '\n'.join(caller) + '\n', 'amain.c': '\n'.join(main) + '\n'}


CALLERS = {'chibicc': None, 'gcc': ['gcc', '-w', '-O0'], 'gccO2': ['gcc', '-w', '-O2'], 'clang': ['clang-14', '-w', '-O1']}
CALLEES = {'chibicc': None, 'gcc': ['gcc', '-w', '-O0'], 'gccO2': ['gcc', '-w', '-O2'], 'clangO2': ['clang-14', '-w', '-O2']}
# (caller, callee); the first is the reference, the next two validate it
COMBOS = [('gcc', 'gcc'), ('gcc', 'gccO2'), ('clang', 'clangO2'),
          ('chibicc', 'gcc'), ('chibicc', 'gccO2'), ('chibicc', 'clangO2'), ('chibicc', 'chibicc'),
          ('gcc', 'chibicc'), ('gccO2', 'chibicc'), ('clang', 'chibicc')]


def parse_log(text):
    got, cur = {}, None
    for l in text.split('\n'):
        if l.startswith('B '):
            cur = int(l[2:])
            got[cur] = []
        elif l == 'END':
            cur = None
        elif cur is not None and l:
            got[cur].append(l.split(' ', 1)[1])
    return got


def run_exec_batch(ctx, cases, d, combos=COMBOS):
    """-> {combo: {index: [records]}} ; compile errors raise/are returned as {'error': ...}"""
    os.makedirs(d, exist_ok=True)
    for n, t in exec_sources(cases).items():
        open(os.path.join(d, n), 'w').write(t)
    sh(['gcc', '-w', '-O1', '-c', 'amain.c', '-o', 'amain.o'], cwd=d)
    objs = {}
    for role, table, src in (('caller', CALLERS, 'acaller.c'), ('callee', CALLEES, 'acallee.c')):
        for who in sorted({c[0 if role == 'caller' else 1] for c in combos}):
            cmd = [ctx.cc] if table[who] is None else table[who]
            rc, o, e = sh(cmd + ['-c', src, '-o', f'{role}_{who}.o'], cwd=d, timeout=600)
            objs[(role, who)] = (rc, e)
    out = {}
    for (a, b) in combos:
        bad = next((objs[k] for k in (('caller', a), ('callee', b)) if objs[k][0] != 0), None)
        if bad:
            out[(a, b)] = {'error': 'compile: ' + bad[1][-300:]}
            continue
        exe = f'x_{a}_{b}'
        rc, o, e = sh(['gcc', '-o', exe, 'amain.o', f'caller_{a}.o', f'callee_{b}.o'], cwd=d, timeout=120)
        if rc != 0:
            out[(a, b)] = {'error': 'link: ' + e[-300:]}
            continue
        rc, o, e = sh(['./' + exe], cwd=d, timeout=120)
        log_ = parse_log(o)
        if rc != 0:
            log_['rc'] = rc
        out[(a, b)] = log_
    return out


def spec_expected(ctx, cases):
    """Spec.IntSpec.convert (through the driver) for the integer -> integer cases: index -> value as the callee records it"""
    req, idx = [], []
    for i, c in enumerate(cases):
        if c.a.kind == 'int' and ((c.family == 'proto' and c.p.kind == 'int') or c.family != 'proto'):
            to = c.p if c.family == 'proto' else promoted(c.a)
            req.append(f'conv {c.a.ity} {to.ity} {c.v}')
            idx.append(i)
    ans = ctx.driver('args', ''.join(r + '\n' for r in req)).split('\n') if req else []
    return {i: int(a) for i, a in zip(idx, ans) if re.fullmatch(r'-?\d+', a or '')}


def run_exec(ctx, corr, cases=None, report_limit=8):
    d = os.path.join(ctx.scratch, 'argexec')
    cases = cases if cases is not None else exec_cases(ctx)
    res = run_exec_batch(ctx, cases, d)
    ref = res[COMBOS[0]]
    if 'error' in ref:
        raise RuntimeError('argument-conversion reference does not build: ' + ref['error'])
    spec = spec_expected(ctx, cases)
    reported = 0
    for combo in COMBOS[1:]:
        r = res[combo]
        if 'error' in r:
            if 'chibicc' in combo:
                corr.violations.append({'what': f'argument conversions: caller {combo[0]}, callee {combo[1]}: {r["error"]}', 'input': 'generated acaller.c / acallee.c',
                                        'expected': 'compiles and links', 'got': r['error'], 'mode': 'argexec'})
            else:
                corr.count('skipped_oracle_build')
    for i, c in enumerate(cases):
        want = ref.get(i)
        if want is None:
            corr.count('skipped_reference_crash')
            continue
        # spec <-> gcc
        if i in spec:
            corr.evaluations += 1
            corr.count('argconv-spec-vs-gcc')
            v0 = int(want[0].split(' ')[1], 16)
            if v0 != spec[i] % (1 << 64):
                corr.disagreements.append({'kind': 'spec-vs-gcc argument conversion', 'case': c.key(), 'spec': spec[i], 'gcc': want[0],
                                           'note': 'Spec.IntSpec.convert does not describe what gcc passes'})
        oracles_ok = all('error' in res[cb] or res[cb].get(i) == want for cb in COMBOS[1:3])
        if not oracles_ok:
            corr.count('skipped_oracles_disagree')
            corr.extra.setdefault('argexec_oracles_disagree', []).append(c.key())
            continue
        corr.nontrivial.add('argexec:' + c.key())
        corr.count('argexec:' + c.family + (':bool' if c.p is BOOL else ''))
        for combo in COMBOS[3:]:
            r = res[combo]
            if 'error' in r:
                continue
            corr.evaluations += 1
            got = r.get(i)
            if got == want:
                continue
            if reported >= report_limit:
                corr.count('argexec-failures-not-listed')
                continue
            reported += 1
            jx = next((x for x in range(min(len(got or []), len(want))) if got[x] != want[x]), min(len(got or []), len(want)))
            corr.violations.append({
                'what': f'argument conversion (C11 6.5.2.2p6-7, psABI): caller compiled by {combo[0]}, callee by {combo[1]}: the callee '
                        f'receives {"nothing (crash)" if got is None else "record " + got[jx] if jx < len(got) else "too few records"}, '
                        f'the reference (gcc -> gcc) record {want[jx] if jx < len(want) else "<end>"}',
                'input': c.snippet(), 'case': {'family': c.family, 'param': c.p.c if c.p else None, 'arg': c.a.c, 'value': str(c.v),
                                              'position': c.pos, 'form': c.form},
                'combo': list(combo), 'expected': want, 'got': got, 'mode': 'argexec'})
    corr.extra['argexec_cases'] = len(cases)
    return res


def case_from_payload(p):
    byc = {t.c: t for t in SCALARS}
    cs = p['case']
    v = cs['value']
    a = byc[cs['arg']]
    if a.kind == 'int':
        v = int(v)
    return ExecCase(cs['family'], byc[cs['param']] if cs['param'] else None, a, v, cs['position'], cs['form'])


# ---------------------------------------------------------------- leg: register dump (what the argument register holds)

def dump_cases(ctx):
    rng = ctx.rng
    out = []
    for p in INTS + [ENUM]:
        for a in INTS:
            for v in values_for(a, rng, 8 if ctx.thorough else 2, must=[2] if p is BOOL else []):
                out.append((p, a, v))
    for a in (FLT, DBL):
        for v in ('0.5', '-0.0', '2.0', '(0.0/0.0)'):
            out.append((BOOL, a, v))
    return out


def conv_py(p, v):
    """C11 6.3.1.2/6.3.1.3 in python (checked against Spec.IntSpec.convert and gcc by run_exec)"""
    if p.ity == 'bool':
        return 0 if v == 0 else 1
    m = 1 << (8 * p.size)
    v %= m
    if p.signed and v >= m // 2:
        v -= m
    return v


def run_dump(ctx, corr):
    d = os.path.join(ctx.scratch, 'argdump')
    os.makedirs(d, exist_ok=True)
    cases = dump_cases(ctx)
    stubs, protos, calls, main = [], [], [], [G.DUMP_MAIN]
    k = 0
    index = []
    for (p, a, v) in cases:
        for pos in ('reg', 'stack'):
            stubs.append(f'  .globl d{k}\nd{k}:\n  mov ${k * 2}, %r11d\n  jmp dumpregs\n')
            if pos == 'reg':
                protos.append(f'void d{k}({p.decl("p")});')
                call = f'd{k}(a_)'
            else:
                protos.append(f'void d{k}(long, long, long, long, long, long, {p.decl("p")});')
                call = f'd{k}(1L, 2L, 3L, 4L, 5L, 6L, a_)'
            calls.append(f'void call{k}(void) {{ {a.decl("a_")} = {c_lit(a, v)}; {call}; }}')
            main.append(f'void call{k}(void);')
            index.append((p, a, v, pos))
            k += 1
    main.append('int main(void) {')
    main += [f'  call{i}(); dump_print(); fflush(stdout);' for i in range(k)]
    main.append('  printf("END\\n"); return 0; }')
    open(os.path.join(d, 'dump.s'), 'w').write(G.DUMP_ASM + '\n'.join(stubs) + '\n  .section .note.GNU-stack,"",@progbits\n')
    open(os.path.join(d, 'dmain.c'), 'w').write('\n'.join(main) + '\n')
    open(os.path.join(d, 'dcaller.c'), 'w').write(PRE + '\n'.join(protos) + '\n' + '\n'.join(calls) + '\n')
    sh(['gcc', '-w', '-c', 'dump.s', '-o', 'dump.o'], cwd=d)
    sh(['gcc', '-w', '-O1', '-c', 'dmain.c', '-o', 'dmain.o'], cwd=d)
    ext32 = {'gcc': 0, 'gccO2': 0, 'clang': 0}
    total = {'gcc': 0, 'gccO2': 0, 'clang': 0}
    for who, cmd in (('gcc', ['gcc', '-w', '-O0']), ('gccO2', ['gcc', '-w', '-O2']), ('clang', ['clang-14', '-w', '-O2']), ('chibicc', [ctx.cc])):
        rc, o, e = sh(cmd + ['-c', 'dcaller.c', '-o', f'dcaller_{who}.o'], cwd=d, timeout=300)
        if rc != 0:
            if who == 'chibicc':
                corr.violations.append({'what': 'chibicc rejects the argument dump probe', 'input': 'dcaller.c', 'expected': 'compiles', 'got': e[-300:], 'mode': 'argdump'})
            continue
        rc, o, e = sh(['gcc', '-o', f'dump_{who}', 'dmain.o', 'dump.o', f'dcaller_{who}.o'], cwd=d)
        rc, o, e = sh([f'./dump_{who}'], cwd=d, timeout=60)
        rows = {}
        for l in o.split('\n'):
            if l.startswith('D '):
                w = l.split(' ')
                rows[int(w[1])] = w
        for i, (p, a, v, pos) in enumerate(index):
            w = rows.get(i)
            corr.evaluations += 1
            corr.count(f'argdump-{who}')
            if w is None:
                if who == 'chibicc':
                    corr.violations.append({'what': f'argument dump probe: call {i} crashed', 'input': f'{p.c} parameter, {a.c} argument {v}', 'expected': 'runs', 'got': 'no record', 'mode': 'argdump'})
                continue
            x = int(w[2], 16) if pos == 'reg' else int.from_bytes(bytes.fromhex(w[18])[0:8], 'little')
            if a.kind == 'fp':
                f = fp_value(v)
                want = 0 if f == 0 else 1
            else:
                want = conv_py(p, v)
            low = x & ((1 << (8 * p.size)) - 1)
            abi_ok = low == want % (1 << (8 * p.size))
            e32 = (x & 0xffffffff) == want % (1 << 32) if p.size < 8 else x == want % (1 << 64)
            what = f'{p.c} parameter <- {a.c} argument {v}, {pos}: the {"register" if pos == "reg" else "stack slot"} holds {x:#018x}'
            if who != 'chibicc':
                total[who] += 1
                ext32[who] += 1 if e32 else 0
                if not abi_ok:
                    corr.disagreements.append({'kind': f'argdump spec-vs-{who}', 'what': what, 'expected_low_bytes': want % (1 << (8 * p.size)),
                                               'note': 'the expected conversion (or this harness) is wrong'})
                continue
            corr.nontrivial.add(f'argdump:{p.c}<-{a.c}={v}@{pos}')
            if not abi_ok:
                nrep = sum(1 for v_ in corr.violations if v_.get('mode') == 'argdump')
                if nrep >= 6:
                    corr.count('argdump-failures-not-listed')
                    continue
                corr.violations.append({'what': 'argument not converted to the parameter type: ' + what, 'input': f'void d({p.c}); {a.c} a_ = {c_lit(a, v)}; d(a_);' if pos == 'reg' else f'void d(long, long, long, long, long, long, {p.c}); {a.c} a_ = {c_lit(a, v)}; d(1L, 2L, 3L, 4L, 5L, 6L, a_);',
                                        'expected': f'low {p.size} byte(s) = {want % (1 << (8 * p.size)):#x}', 'got': f'{low:#x}', 'mode': 'argdump'})
            elif not e32 or (p is BOOL and x not in (0, 1)):
                # the psABI minimum holds but the model's guarantee (C06_arg_extension / C06_arg_bool_normalised) does not
                corr.disagreements.append({'kind': 'argdump model-vs-code', 'what': what, 'model': 'low 32 bits are the converted value extended; _Bool: the whole register is 0 or 1'})
    corr.extra['callers_extending_narrow_arguments_to_32_bits'] = {w: f'{ext32[w]}/{total[w]}' for w in total}
