"""C01 - integer expressions have the C11 value and the C11 type.

Legs (DESIGN 3.3):
  (a) translator: Gen/CommonTypeGen.lean (get_common_type, add_type rules) and Gen/CastTableGen.lean (cast_table, getTypeId)
      are regenerated from the snapshot; the theorems of Props/C01.lean are re-checked against them (framework).
  (b) model <-> code, text: Model/C01Codegen (typing by Gen + instruction selection) must print exactly the lines
      `chibicc -S` prints for `R f(T1 a, T2 b) { return a OP b; }`, every OP, every 9x9 pair, unary operators, casts.
  (b2) Model/C01Expr `compileE` / `compileX` and Model/C01ExprJ `compileJ` (the objects of C01_value / C01_value_effects /
      C01_value_full: gen_expr on whole expression trees incl. `,` `=` `op=` `++` `--` with the hidden temporaries of parse.c
      to_assign / new_inc_dec, and `&&` `||` `?:` with cmp_zero, je / jne / jmp and the labels numbered from count()): text of
      instructions, label definitions and jump targets of generated nests = `chibicc -S` (label numbers exact: the counter
      is followed through the translation unit), stack depth = depthJ, and chibicc's frame offsets satisfy `layoutOK`.
  (b3) pointer arithmetic (parse.c new_add / new_sub; C01_ptr_scale / C01_ptr_add / C01_ptr_diff): instruction text of p+i, i+p,
      p-i, &p[i], p-q, p+=i, p-=i, ++p, --p, p++, p-- for every element size x index type = the model (64-bit imul of the
      sign/zero-extended index); plus an end-to-end oracle with byte offsets beyond 2^31 / 2^32 inside a 16 GiB PROT_NONE mapping.
  (b4) lvalues other than variables (Model/C01Lvalue `compileL`; C01_lvalue_load / C01_lvalue_assign / C01_lvalue_opassign): text of
      `s.m…`, `p->m…`, `(*p).m`, `a[i]`, `q[i]`, `*q`, `sa[i].m…`, `p[i].m…`, `*(q + i)` read, assigned and compound-assigned, index and
      right-hand side any generated expression, = the model (gen_addr, the op= rewriting through the hidden pointer incl. the
      member special case, member offsets by the psABI rule); plus a three-way oracle (Spec / gcc / chibicc) on the same forms.
  (b5) lvalues other than variables anywhere in an expression (Model/C01ExprA `compileA`; C01_value_lvalues): text of generated
      nests whose leaves are objects reached through `s.m…`, `p->m…`, `a[c]`, `q[c]`, `*q`, `sa[c].m…`, `p[c].m…` (operands, assigned,
      compound-assigned, incremented) = the model; plus a three-way oracle on nests over the members of a struct and the elements
      of an array written through different lvalues.
  (c) Model/X86 <-> CPU: every sequence the theorems talk about is assembled and run on the host on boundary + random
      register files; registers and defined flags must equal `drv_c01 x86exec`; #DE must coincide with `none`.  Model/X86Jump
      (labels and jumps): cmp / test followed by each of the fourteen jCC, and cmp_zero + je / jne on every operand type,
      assembled with real labels; whether the jump is taken must equal `runJ`.
  (d) Spec <-> gcc and Spec <-> chibicc, end to end: generated expression programs (exhaustive operator x 9x9 type pairs
      at depth 1 on boundary values, seeded random nests to depth 6, every context) are evaluated by Spec/IntSpec
      (`drv_c01 eval`; undefined cases dropped and counted), compiled by chibicc and by gcc, run, and value / sizeof /
      signedness must agree three ways.  chibicc != Spec is a VIOLATION; gcc != Spec means the Spec is wrong (tie broken).
"""
import os, json, hashlib, itertools
from concurrent.futures import ThreadPoolExecutor
from .framework import *

PROPERTY = 'C01'
GEN_MODULES = ['commontype', 'casttable']
LEAN_TARGETS = ['ChibiVerif.Props.C01', 'ChibiVerif.Findings.C01']
PROPS_FILES = ['ChibiVerif/Props/C01.lean']
NEEDS_HOOKS = False
KNOWN_BOOL_POSTFIX = 'C01-bool-postfix-incdec'
TRUSTED_BASE = [
    'Lean 4.33.0 kernel; axioms admitted: propext, Classical.choice, Quot.sound (audited per theorem on every run)',
    'Spec/IntSpec.lean (my reading of C11 6.3.1.1-6.3.1.8, 6.5.3.3-6.5.16 on LP64; implementation-defined choices as gcc); '
    'validated on every run against gcc 12 on every generated well-defined expression',
    'Model/X86.lean (semantics of the integer instruction forms chibicc emits); validated on every run against the host CPU '
    'on every instruction sequence the theorems mention (boundary + seeded random register files, #DE included)',
    'Model/C01Codegen.lean (hand model of the integer arms of gen_expr/cast/cmp_zero/load); tied by text equality with '
    '`chibicc -S` on all operator x 9x9 type pairs, unary operators and casts',
    'Model/C01Expr.lean (compileE / compileX: gen_expr on whole expression trees, the parse.c rewritings of op= / ++ / -- with '
    'their hidden temporaries, pointer-arithmetic scaling of new_add / new_sub); tied by instruction-text equality with '
    '`chibicc -S` on generated nests and on every pointer form x element size x index type; frame offsets checked by layoutOK',
    'Model/C01ExprJ.lean (compileJ: compileX extended by && || ?: as ND_LOGAND / ND_LOGOR / ND_COND print them, label numbers '
    'from the counter count() in the order of emission); tied by text equality (instructions, label definitions, jump '
    'targets, exact label numbers) with `chibicc -S` on generated nests',
    'Model/C01Lvalue.lean (compileL: gen_addr of ND_MEMBER / ND_DEREF / subscripts, reads, ND_ASSIGN and the to_assign rewriting '
    'through the hidden pointer for lvalues other than variables; lvAddr: the address C11 gives the lvalue); tied by text equality '
    'with `chibicc -S` on generated functions over struct / array / pointer objects and by a three-way run-time oracle',
    'Model/C01ExprA.lean (compileA: gen_expr over objects reached through lvalues other than variables - compileJ with the gen_addr '
    'code of each object\'s lvalue; accOfL: that code from a table of lvalues); tied by text equality with `chibicc -S` on generated nests',
    'Model/X86Jump.lean (programs with labels and jumps on top of Model/X86: label resolution by position, jCC reads the flags '
    'like setCC); validated on every run against the host CPU (cmp / test + each jCC, cmp_zero + je / jne, real labels)',
    'translators tools/extract/commontype.py (get_common_type, add_type rules, primitive types) and casttable.py '
    '(cast_table, getTypeId); argument / return / initializer conversion insertion of parse.c is modelled as a cast of the '
    'expression (tied by the text legs); postfix ++/-- on _Bool, lvalues whose address computation has side effects or depends on '
    'a variable the expression assigns when they are not the root of the expression, and bit-field members are covered by the '
    'text ties and the end-to-end oracle only (testing)',
]
ASSUMPTIONS = ['LP64, plain char signed, two\'s complement, arithmetic >> on signed (gcc\'s documented choices)',
               'expressions without unsequenced conflicting accesses (the generator modifies a variable at most once and '
               'does not otherwise use it in the same full expression)']

M64 = (1 << 64) - 1
TYS = ['bool', 'i8', 'i16', 'i32', 'i64', 'u8', 'u16', 'u32', 'u64']
BITS = {'bool': 1, 'i8': 8, 'i16': 16, 'i32': 32, 'i64': 64, 'u8': 8, 'u16': 16, 'u32': 32, 'u64': 64}
SIZE = {'bool': 1, 'i8': 1, 'i16': 2, 'i32': 4, 'i64': 8, 'u8': 1, 'u16': 2, 'u32': 4, 'u64': 8}
SIGNED = {'i8', 'i16', 'i32', 'i64'}
CNAME = {'bool': '_Bool', 'i8': 'signed char', 'i16': 'short', 'i32': 'int', 'i64': 'long', 'u8': 'unsigned char',
         'u16': 'unsigned short', 'u32': 'unsigned int', 'u64': 'unsigned long', 'en': 'enum EN'}
SPELL = {'i8': ['signed char', 'char'], 'i16': ['short', 'short int', 'signed short'], 'i32': ['int', 'signed', 'signed int'],
         'i64': ['long', 'long long', 'long int', 'signed long'], 'u16': ['unsigned short', 'short unsigned'],
         'u32': ['unsigned int', 'unsigned'], 'u64': ['unsigned long', 'unsigned long long', 'long unsigned int']}
BINOPS = ['add', 'sub', 'mul', 'div', 'mod', 'band', 'bor', 'bxor', 'shl', 'shr', 'eq', 'ne', 'lt', 'le', 'gt', 'ge']
COMPOUND = ['add', 'sub', 'mul', 'div', 'mod', 'band', 'bor', 'bxor', 'shl', 'shr']
UNOPS = ['neg', 'bitnot', 'lognot', 'plus']
CBIN = {'add': '+', 'sub': '-', 'mul': '*', 'div': '/', 'mod': '%', 'band': '&', 'bor': '|', 'bxor': '^', 'shl': '<<',
        'shr': '>>', 'eq': '==', 'ne': '!=', 'lt': '<', 'le': '<=', 'gt': '>', 'ge': '>='}
CUN = {'neg': '-', 'bitnot': '~', 'lognot': '!', 'plus': '+'}
NK = {'add': 'ND_ADD', 'sub': 'ND_SUB', 'mul': 'ND_MUL', 'div': 'ND_DIV', 'mod': 'ND_MOD', 'band': 'ND_BITAND',
      'bor': 'ND_BITOR', 'bxor': 'ND_BITXOR', 'shl': 'ND_SHL', 'shr': 'ND_SHR', 'eq': 'ND_EQ', 'ne': 'ND_NE',
      'lt': 'ND_LT', 'le': 'ND_LE', 'neg': 'ND_NEG', 'bitnot': 'ND_BITNOT', 'lognot': 'ND_NOT'}
ENUMS = {0: 'EC0', 1: 'EC1', -1: 'ECM1', 2147483647: 'ECMAX', -2147483648: 'ECMIN', 255: 'EC255', 7: 'EC7', -128: 'ECM128'}

def sty(t):            # Spec type of a variable kind
    return 'i32' if t == 'en' else t
def tmin(t):
    t = sty(t)
    return -(1 << (BITS[t] - 1)) if t in SIGNED else 0
def tmax(t):
    t = sty(t)
    return (1 << (BITS[t] - 1)) - 1 if t in SIGNED else (1 << BITS[t]) - 1

def boundary(t):
    """0, +-1, min, max, max-1, 2^k, 2^k +- 1 for k in {7,8,15,16,31,32,63}, clipped to the type"""
    vs = {0, 1, -1, 2, 3, tmin(t), tmax(t), tmax(t) - 1, tmin(t) + 1}
    for k in (7, 8, 15, 16, 31, 32, 63):
        for d in (-1, 0, 1):
            vs.add((1 << k) + d)
            vs.add(-(1 << k) + d)
    return sorted(v for v in vs if tmin(t) <= v <= tmax(t))

def clit(v):
    if v < -(1 << 63) + 1:
        return '(-9223372036854775807L-1)'
    if v > (1 << 63) - 1:
        return f'{v}UL'
    return f'({v}L)' if v < 0 else f'{v}L'

# ------------------------------------------------------------------ expressions (tuples)

def rc(e, env):
    """C text"""
    k = e[0]
    if k == 'L':
        if e[1] == 'i32' and e[2] in ENUMS and (e[2] * 7 + len(env)) % 3 == 0:
            return ENUMS[e[2]]                       # enumeration constant (type int)
        return f'(({CNAME[e[1]]}){clit(e[2])})'
    if k == 'V':
        return f'v{e[1]}'
    if k == 'U':
        return f'({CUN[e[1]]}({rc(e[2], env)}))'
    if k == 'B':
        return f'({rc(e[2], env)} {CBIN[e[1]]} {rc(e[3], env)})'
    if k == 'AND':
        return f'({rc(e[1], env)} && {rc(e[2], env)})'
    if k == 'OR':
        return f'({rc(e[1], env)} || {rc(e[2], env)})'
    if k == 'C':
        return f'({rc(e[1], env)} ? {rc(e[2], env)} : {rc(e[3], env)})'
    if k == 'SEQ':
        return f'({rc(e[1], env)}, {rc(e[2], env)})'
    if k == 'CAST':
        return f'(({CNAME[e[1]]}){rc(e[2], env)})'
    if k == 'SET':
        return f'(v{e[1]} = {rc(e[2], env)})'
    if k == 'OPSET':
        return f'(v{e[2]} {CBIN[e[1]]}= {rc(e[3], env)})'
    if k == 'PREINC':
        return f'(++v{e[1]})'
    if k == 'PREDEC':
        return f'(--v{e[1]})'
    if k == 'POSTINC':
        return f'(v{e[1]}++)'
    if k == 'POSTDEC':
        return f'(v{e[1]}--)'
    raise ValueError(e)

def rp(e):
    """prefix tokens for drv_c01 eval"""
    k = e[0]
    if k == 'L':
        return f'L {e[1]} {e[2]}'
    if k == 'V':
        return f'V {e[1]}'
    if k == 'U':
        return f'U {e[1]} {rp(e[2])}'
    if k == 'B':
        return f'B {e[1]} {rp(e[2])} {rp(e[3])}'
    if k in ('AND', 'OR', 'SEQ'):
        return f'{k} {rp(e[1])} {rp(e[2])}'
    if k == 'C':
        return f'C {rp(e[1])} {rp(e[2])} {rp(e[3])}'
    if k == 'CAST':
        return f'CAST {e[1]} {rp(e[2])}'
    if k == 'SET':
        return f'SET {e[1]} {rp(e[2])}'
    if k == 'OPSET':
        return f'OPSET {e[1]} {e[2]} {rp(e[3])}'
    return f'{k} {e[1]}'

def parse_prefix(toks):
    def go(i):
        k = toks[i]
        if k == 'L':
            return ('L', toks[i + 1], int(toks[i + 2])), i + 3
        if k == 'V':
            return ('V', int(toks[i + 1])), i + 2
        if k == 'U':
            a, j = go(i + 2)
            return ('U', toks[i + 1], a), j
        if k == 'B':
            a, j = go(i + 2)
            b, j = go(j)
            return ('B', toks[i + 1], a, b), j
        if k in ('AND', 'OR', 'SEQ'):
            a, j = go(i + 1)
            b, j = go(j)
            return (k, a, b), j
        if k == 'C':
            c, j = go(i + 1)
            a, j = go(j)
            b, j = go(j)
            return ('C', c, a, b), j
        if k == 'CAST':
            a, j = go(i + 2)
            return ('CAST', toks[i + 1], a), j
        if k == 'SET':
            a, j = go(i + 2)
            return ('SET', int(toks[i + 1]), a), j
        if k == 'OPSET':
            a, j = go(i + 3)
            return ('OPSET', toks[i + 1], int(toks[i + 2]), a), j
        return (k, int(toks[i + 1])), i + 2
    e, j = go(0)
    assert j == len(toks)
    return e

def subexprs(e):
    yield e
    for x in e[1:]:
        if isinstance(x, tuple):
            yield from subexprs(x)

# ------------------------------------------------------------------ tests
# a test = dict(ctx=..., T=target type or cond form, tys=[var kinds], vals=[ints], e=expr, tag=...)

def spec_line(t):
    tys = ','.join(sty(x) for x in t['tys']) or '-'
    vals = ','.join(str(v) for v in t['vals']) or '-'
    e = rp(t['e'])
    c = t['ctx']
    if c in ('init', 'arg', 'ret'):
        e = f'CAST {t["T"]} {e}'
    elif c == 'cond':
        e = f'C {e} L i32 1 L i32 2'
    return f'{tys} {vals} | {e}'

def test_key(t):
    return hashlib.sha1(f"{t['ctx']}|{t.get('T')}|{t['tys']}|{t['vals']}|{rp(t['e'])}".encode()).hexdigest()

def in_known_region(t):
    """known finding C01-bool-postfix-incdec: postfix ++/-- whose operand is a `_Bool` bit-field or `_Atomic _Bool`.
    The generic generator only declares ordinary objects, so none of its tests lies in the region (a failing postfix
    ++/-- on an ordinary `_Bool` is a plain violation); the region is exercised by `known_witness`."""
    return False

def is_nontrivial(t):
    """at least one operator, and some operand / target type is not plain int (what the test suite never exercises)"""
    ops = [s for s in subexprs(t['e']) if s[0] not in ('L', 'V')]
    types = set(t['tys']) | {s[1] for s in subexprs(t['e']) if s[0] in ('L', 'CAST')} | ({t['T']} if t['ctx'] in ('init', 'arg', 'ret') else set())
    return (bool(ops) or t['ctx'] != 'val') and bool(types - {'i32'})

def emit_test(i, t, rng_salt=0):
    """C text of test number i: (helper functions text, body text)"""
    env = t['tys']
    decl = ''
    for k, (ty, v) in enumerate(zip(t['tys'], t['vals'])):
        cn = CNAME[ty]
        if ty in SPELL:
            cn = SPELL[ty][(i + k + rng_salt) % len(SPELL[ty])]
        decl += f'  {cn} v{k} = ({cn}){clit(v)};\n'
    ex = rc(t['e'], env)
    pre = ''
    c = t['ctx']
    if c == 'val':
        body = (f'  unsigned long r = (unsigned long)({ex});\n'
                f'  int s = (int)sizeof({ex});\n'
                f'  int g = ((__typeof__({ex}))-1 < 0);\n')
    elif c == 'init':
        body = f'  {CNAME[t["T"]]} x = {ex};\n  unsigned long r = (unsigned long)x; int s = (int)sizeof(x); int g = ((__typeof__(x))-1 < 0);\n'
    elif c == 'arg':
        body = f'  unsigned long r = (unsigned long)idf_{t["T"]}({ex});\n  int s = (int)sizeof(idf_{t["T"]}({ex})); int g = ((__typeof__(idf_{t["T"]}({ex})))-1 < 0);\n'
    elif c == 'ret':
        params = ', '.join(f'{CNAME[ty]} v{k}' for k, ty in enumerate(t['tys'])) or 'void'
        pre = f'static {CNAME[t["T"]]} rf{i}({params}) {{ return {ex}; }}\n'
        args = ', '.join(f'v{k}' for k in range(len(t['tys'])))
        body = f'  unsigned long r = (unsigned long)rf{i}({args}); int s = (int)sizeof(rf{i}({args})); int g = ((__typeof__(rf{i}({args})))-1 < 0);\n'
    elif c == 'cond':
        form = t['T']
        stm = [f'if ({ex}) x = 1; else x = 2;',
               f'x = {ex} ? 1 : 2;',
               f'x = 2; while ({ex}) {{ x = 1; break; }}',
               f'x = 2; for (; {ex}; ) {{ x = 1; break; }}',
               f'x = ({ex} && 1) ? 1 : 2;',
               f'x = ({ex} || 0) ? 1 : 2;',
               f'x = !{ex} ? 2 : 1;',
               f'x = 2; if ({ex}) x = 1;'][form]
        body = f'  int x; {stm}\n  unsigned long r = (unsigned long)x; int s = 4; int g = 1;\n'
    else:
        raise ValueError(c)
    out = f'static void t{i}(void) {{\n{decl}{body}  printf("{i} %lu %d %d", r, s, g);\n'
    for k in range(len(t['tys'])):
        out += f'  printf(" %lu", (unsigned long)v{k});\n'
    out += '  printf("\\n"); fflush((void *)0);\n}\n'
    return pre, out

PRELUDE = ('int printf(const char *, ...);\nint fflush(void *);\n'
           'enum { EC0 = 0, EC1 = 1, ECM1 = -1, ECMAX = 2147483647, ECMIN = -2147483647 - 1, EC255 = 255, EC7 = 7, ECM128 = -128 };\n'
           'enum EN { EN_NEG = -1, EN_POS = 1 };\n'
           + ''.join(f'static {CNAME[t]} idf_{t}({CNAME[t]} x) {{ return x; }}\n' for t in TYS))

def expected_fields(t, spec):
    """spec = 'ok ty v vals' -> list of expected output fields (value, size, sign, vars...)"""
    w = spec.split()
    ty, v = w[1], int(w[2])
    vals = [] if w[3] == '-' else [int(x) for x in w[3].split(',')]
    c = t['ctx']
    if c == 'cond':
        size, sign = 4, 1
    else:
        size, sign = SIZE[ty], 1 if ty in SIGNED else 0
    if c == 'ret':
        vals = t['vals']                    # the callee modified its own copies
    return [str(v & M64), str(size), str(sign)] + [str(x & M64) for x in vals]

def build_tu(ctx, name, tests, ids):
    helpers, bodies = '', ''
    for i, t in zip(ids, tests):
        p, b = emit_test(i, t)
        helpers += p
        bodies += b
    main = 'int main(void) {\n' + ''.join(f'  t{i}();\n' for i in ids) + '  return 0;\n}\n'
    path = os.path.join(ctx.scratch, name + '.c')
    with open(path, 'w') as f:
        f.write(PRELUDE + helpers + bodies + main)
    return path

def compile_run(cmd, exe, timeout=600):
    rc_, o, e = sh(cmd, timeout=timeout)
    if rc_ != 0:
        return None, f'compile rc={rc_}: ' + (e or o)[-400:]
    rc_, o, e = sh([exe], timeout=timeout)
    out = {}
    for line in o.splitlines():
        w = line.split()
        if w and w[0].isdigit():
            out[int(w[0])] = w[1:]
    return out, (None if rc_ == 0 else f'run rc={rc_}')

def run_batch(ctx, name, tests, ids):
    """returns (chibicc results, chibicc error, gcc results, gcc error)"""
    src = build_tu(ctx, name, tests, ids)
    exe_c = os.path.join(ctx.scratch, name + '.chibi')
    exe_g = os.path.join(ctx.scratch, name + '.gcc')
    rc_c = compile_run([ctx.cc, '-o', exe_c, src], exe_c)
    rc_g = compile_run(['gcc', '-std=c11', '-w', '-O0', '-o', exe_g, src], exe_g)
    for p in (exe_c, exe_g):
        if os.path.exists(p):
            os.unlink(p)
    return rc_c[0], rc_c[1], rc_g[0], rc_g[1]

def describe(t):
    env = '; '.join(f'{CNAME[ty]} v{k} = {v}' for k, (ty, v) in enumerate(zip(t['tys'], t['vals'])))
    where = {'val': 'value of', 'init': f'{CNAME.get(t.get("T"), "")} x = ', 'arg': f'argument for a {CNAME.get(t.get("T"), "")} parameter: ',
             'ret': f'return from a function returning {CNAME.get(t.get("T"), "")}: ', 'cond': f'condition (form {t.get("T")}): '}[t['ctx']]
    return f'{env}; {where} {rc(t["e"], t["tys"])}'

def run_tests(ctx, corr, tests, label, stop_on_violation=True):
    """evaluate with Spec, drop UB, compile+run both compilers, compare.  Returns number of violations found."""
    if not tests:
        return 0
    for t in tests:      # a variable's initial value must be a value of its type
        t['vals'] = [min(max(v, tmin(ty)), tmax(ty)) for v, ty in zip(t['vals'], t['tys'])]
    spec = ctx.driver('eval', ''.join(spec_line(t) + '\n' for t in tests)).splitlines()
    if len(spec) != len(tests):
        corr.disagreements.append({'kind': 'driver', 'note': f'drv_c01 eval answered {len(spec)} lines for {len(tests)} expressions'})
        return 0
    live = []
    for t, s in zip(tests, spec):
        if s == 'ub':
            corr.count('skipped_ub')
            corr.count('skipped_ub:' + label)
        elif s.startswith('ok '):
            t['spec'] = s
            live.append(t)
        else:
            corr.disagreements.append({'kind': 'driver', 'note': f'drv_c01 eval: {s}', 'line': spec_line(t)})
            return 0
    B = 1200
    batches = [live[i:i + B] for i in range(0, len(live), B)]
    found = 0
    base = getattr(ctx, '_c01_batch', 0)
    ctx._c01_batch = base + len(batches)
    with ThreadPoolExecutor(max_workers=max(2, NPROC // 2)) as ex:
        futs = [ex.submit(run_batch, ctx, f'b{base + bi}', b, list(range(len(b)))) for bi, b in enumerate(batches)]
        results = [f.result() for f in futs]
    for bi, (b, (rc_, ec, rg, eg)) in enumerate(zip(batches, results)):
        tries = 0
        while rg is None and tries < 4 and len(b) > 1:
            # gcc 12 has internal compiler errors on a few constant-foldable forms (e.g. `x % (_Bool)1`): that is no
            # statement about chibicc or the Spec.  Drop the offending test (counted) and run the batch again.
            bad = isolate(ctx, b, gcc=True)
            corr.count('skipped_gcc_internal_error')
            ctx.notes.append('gcc failed on: ' + describe(bad) + ' :: ' + str(eg)[:120])
            b = [t for t in b if t is not bad]
            batches[bi] = b
            rc_, ec, rg, eg = run_batch(ctx, f'r{base + bi}_{tries}', b, list(range(len(b))))
            tries += 1
        if rg is None:
            corr.disagreements.append({'kind': 'gcc', 'note': 'gcc rejected a generated program: ' + str(eg), 'first': describe(b[0])})
            continue
        if rc_ is None:
            # find one test chibicc cannot compile
            bad = isolate(ctx, b)
            corr.violations.append({'what': 'chibicc fails on a well-defined integer expression program: ' + str(ec),
                                    'input': describe(bad), 'test': pack(bad), 'expected': 'compiles', 'got': str(ec)})
            found += 1
            continue
        for i, t in enumerate(b):
            corr.evaluations += 1
            corr.count(label)
            corr.count('ctx:' + t['ctx'])
            want = expected_fields(t, t['spec'])
            g = rg.get(i)
            c = rc_.get(i)
            if is_nontrivial(t):
                corr.nontrivial.add(test_key(t))
            if g != want:
                corr.disagreements.append({'kind': 'spec-vs-gcc', 'input': describe(t), 'spec': want, 'gcc': g, 'test': pack(t),
                                           'note': 'Spec/IntSpec disagrees with gcc on an expression the Spec calls well-defined'})
                if len(corr.disagreements) > 5:
                    return found
                continue
            if c != want:
                v = {'what': 'chibicc computes a value/type C11 does not prescribe (fields: value mod 2^64, sizeof, signed?, variables after)',
                     'input': describe(t), 'expected': want, 'got': c if c is not None else f'no output ({ec})', 'test': pack(t)}
                found += 1
                corr.violations.append(v)
                if found >= 5:
                    return found
            elif len(corr.samples) < 6 and is_nontrivial(t) and (i % 97 == 0):
                corr.sample({'expr': describe(t), 'value_size_signed_vars': want})
    return found

def pack(t):
    return {'ctx': t['ctx'], 'T': t.get('T'), 'tys': t['tys'], 'vals': t['vals'], 'prefix': rp(t['e'])}

def unpack(d):
    return {'ctx': d['ctx'], 'T': d.get('T'), 'tys': d['tys'], 'vals': d['vals'], 'e': parse_prefix(d['prefix'].split()), 'tag': 'replay'}

def isolate(ctx, tests, gcc=False):
    """one test of the batch the compiler (chibicc, or gcc) cannot compile"""
    lo = list(tests)
    while len(lo) > 1:
        half = lo[:len(lo) // 2]
        rc_, ec, rg, eg = run_batch(ctx, 'iso', half, list(range(len(half))))
        failed = (rg is None) if gcc else (rc_ is None)
        lo = half if failed else lo[len(lo) // 2:]
    return lo[0]

# ------------------------------------------------------------------ generators

def pick_values(rng, t, n):
    b = boundary(t)
    vs = [rng.choice(b) for _ in range(n)]
    for k in range(n // 3):
        vs[k] = rng.randint(tmin(t), tmax(t))
    return vs

def gen_depth1(ctx, K):
    """every binary operator x every (t1, t2): K boundary/random value pairs each (candidates 4K, UB dropped later);
    every unary operator x type x all boundary values; every cast pair x boundary values"""
    rng = ctx.rng
    tests = []
    for op in BINOPS:
        for t1 in TYS:
            for t2 in TYS:
                b1, b2 = boundary(t1), boundary(t2)
                pairs = set()
                if ctx.thorough:           # exhaustive: every boundary value x every boundary value
                    pairs = {(a, c) for a in b1 for c in b2}
                    if op in ('shl', 'shr'):
                        pairs |= {(a, c) for a in b1 for c in range(0, 65) if tmin(t2) <= c <= tmax(t2)}
                for _ in range(K):
                    x = rng.random()
                    if op in ('shl', 'shr'):
                        a = rng.choice(b1) if x < 0.7 else rng.randint(tmin(t1), tmax(t1))
                        width = 64 if t1 in ('i64', 'u64') else 32
                        c = rng.choice([0, 1, width - 1, width // 2, 7, 8, 15, 16, 31]) if rng.random() < 0.85 else rng.choice(b2)
                        c = min(max(c, tmin(t2)), tmax(t2))
                        if op == 'shl' and rng.random() < 0.6 and t1 in SIGNED | {'bool', 'u8', 'u16'}:
                            a = abs(a) >> rng.randrange(0, 20)
                        pairs.add((a, c))
                    elif x < 0.6:
                        pairs.add((rng.choice(b1), rng.choice(b2)))
                    elif x < 0.8:
                        pairs.add((rng.randint(tmin(t1), tmax(t1)), rng.choice(b2)))
                    else:
                        pairs.add((rng.randint(tmin(t1), tmax(t1)), rng.randint(tmin(t2), tmax(t2))))
                for a, c in sorted(pairs):
                    tests.append({'ctx': 'val', 'tys': [t1, t2], 'vals': [a, c], 'e': ('B', op, ('V', 0), ('V', 1)), 'tag': 'bin'})
    for op in UNOPS:
        for t in TYS:
            for v in boundary(t):
                tests.append({'ctx': 'val', 'tys': [t], 'vals': [v], 'e': ('U', op, ('V', 0)), 'tag': 'un'})
    for t1 in TYS:
        for t2 in TYS:
            bs = boundary(t1)
            vs = bs if len(bs) <= 2 * K + 4 else rng.sample(bs, 2 * K + 4)
            for v in vs:
                tests.append({'ctx': 'val', 'tys': [t1], 'vals': [v], 'e': ('CAST', t2, ('V', 0)), 'tag': 'cast'})
    return tests

def gen_contexts(ctx, K):
    """initializer / argument / return / condition / = / the ten op= / ++ -- for every (target type, source type)"""
    rng = ctx.rng
    tests = []
    for T in TYS:
        for t in TYS:
            for _ in range(K):
                v = rng.choice(boundary(t))
                w = rng.choice(boundary(T))
                src = ('V', 0) if rng.random() < 0.5 else ('B', rng.choice(['add', 'bor', 'bxor', 'sub']), ('V', 0), ('L', t, rng.choice([0, 1])))
                for c in ('init', 'arg', 'ret'):
                    tests.append({'ctx': c, 'T': T, 'tys': [t], 'vals': [v], 'e': src, 'tag': c})
                tests.append({'ctx': 'val', 'tys': [T, t], 'vals': [w, v], 'e': ('SET', 0, ('V', 1)), 'tag': 'assign'})
                for op in COMPOUND:
                    a, b = rng.choice(boundary(T)), rng.choice(boundary(t))
                    if op in ('shl', 'shr'):
                        b = min(max(rng.choice([0, 1, 3, 7, 8, 15, 31]), tmin(t)), tmax(t))
                        if op == 'shl':
                            a = abs(a) >> rng.randrange(0, 24)
                            a = min(a, tmax(T))
                    tests.append({'ctx': 'val', 'tys': [T, t], 'vals': [a, b], 'e': ('OPSET', op, 0, ('V', 1)), 'tag': 'opassign'})
        for v in boundary(T):
            for k in ('PREINC', 'PREDEC', 'POSTINC', 'POSTDEC'):
                tests.append({'ctx': 'val', 'tys': [T], 'vals': [v], 'e': (k, 0), 'tag': 'incdec'})
            for form in range(8):
                if (v + form) % 3 == 0 or v in (0, 1, -1):
                    tests.append({'ctx': 'cond', 'T': form, 'tys': [T], 'vals': [v], 'e': ('V', 0), 'tag': 'cond'})
    # truth tests of values whose register carries stale upper bits (codegen.c cmp_zero must compare 32 bits for types of at most
    # 4 bytes): a long / unsigned long with zero low bits and a non-zero upper half narrowed - by a cast (i64 -> i32 emits no
    # instruction) or by assignment - to every narrower type, and `~` (a 64-bit `not`) of an all-ones 32-bit result; used as the
    # operand of !, &&, ||, ?:, (_Bool) and as controlling expression of if / while / for
    def truth_forms(ne, tys_, vals_):
        out = [{'ctx': 'cond', 'T': form, 'tys': tys_, 'vals': vals_, 'e': ne, 'tag': 'narrowed-truth'} for form in range(8)]
        for w in (('U', 'lognot', ne), ('AND', ne, ('L', 'i32', 1)), ('OR', ne, ('L', 'i32', 0)), ('AND', ('L', 'i32', 1), ne),
                  ('OR', ('L', 'i32', 0), ne), ('C', ne, ('L', 'i32', 10), ('L', 'i32', 20)), ('CAST', 'bool', ne),
                  ('U', 'lognot', ('U', 'lognot', ne))):
            out.append({'ctx': 'val', 'tys': tys_, 'vals': vals_, 'e': w, 'tag': 'narrowed-truth'})
        return out
    for T in TYS:
        for wide in ('i64', 'u64'):
            for v in (0x500000000, -(1 << 32), 1 << 32, -(1 << 63), 0x7fffffff00000000, 1 << 40, 0x10000, 0x100000100):
                v = v & M64 if wide == 'u64' else v
                if not (tmin(wide) <= v <= tmax(wide)):
                    continue
                tests += truth_forms(('CAST', T, ('V', 0)), [wide, T], [v, 1])
                tests += truth_forms(('SET', 1, ('V', 0)), [wide, T], [v, 1])
    for ta, a, b in (('u32', 0xffff0000, 0x0000ffff), ('i32', 0x0f0f0f0f, -252645136), ('u32', 0xffffffff, 0), ('i32', -1, 0),
                     ('u16', 0xff00, 0x00ff), ('i8', -1, 0)):
        for op in ('bor', 'bxor'):
            tests += truth_forms(('U', 'bitnot', ('B', op, ('V', 0), ('V', 1))), [ta, ta], [a, b])
    # enum-typed objects behave as int
    for v in boundary('i32'):
        for op in ('add', 'sub', 'mul', 'lt', 'shr', 'band'):
            for t in ('i64', 'u64', 'u32', 'i8'):
                tests.append({'ctx': 'init', 'T': t, 'tys': ['en', 'i32'], 'vals': [v, 1], 'e': ('B', op, ('V', 0), ('V', 1)), 'tag': 'enum'})
                tests.append({'ctx': 'val', 'tys': ['en', t], 'vals': [v, 1], 'e': ('B', op, ('V', 0), ('V', 1)), 'tag': 'enum'})
    return tests

def gen_nest(rng, depth, tys, used, modifiable):
    """random expression; `used` = variables already read or written elsewhere in the full expression"""
    n = len(tys)
    if depth == 0 or rng.random() < 0.12:
        if rng.random() < 0.65:
            i = rng.randrange(n)
            if i not in modifiable['done']:
                used.add(i)
                return ('V', i)
        t = rng.choice(TYS)
        return ('L', t, rng.choice(boundary(t)) if rng.random() < 0.5 else rng.choice([0, 1, 2, 3, 5, 7]) if tmax(t) >= 7 else rng.choice([0, 1]))
    x = rng.random()
    sub = lambda: gen_nest(rng, depth - 1, tys, used, modifiable)
    if x < 0.45:
        op = rng.choice(BINOPS)
        a = sub()
        if op in ('shl', 'shr'):
            b = ('L', rng.choice(['i32', 'u8', 'i64', 'u32']), rng.choice([0, 1, 2, 3, 4, 7, 8, 13, 31]))
        elif op in ('div', 'mod') and rng.random() < 0.7:
            t = rng.choice(TYS)
            b = ('L', t, rng.choice([v for v in boundary(t) if v != 0]))
        else:
            b = sub()
        return ('B', op, a, b)
    if x < 0.57:
        return ('U', rng.choice(UNOPS), sub())
    if x < 0.69:
        return ('CAST', rng.choice(TYS), sub())
    if x < 0.75:
        return (rng.choice(['AND', 'OR']), sub(), sub())
    if x < 0.81:
        return ('C', sub(), sub(), sub())
    if x < 0.85:
        return ('SEQ', sub(), sub())
    # side effects: the target must not be used anywhere else in the full expression
    free = [i for i in range(n) if i not in used and i not in modifiable['done']]
    if not free:
        return ('U', rng.choice(UNOPS), sub())
    i = rng.choice(free)
    modifiable['done'].add(i)
    used.add(i)
    y = rng.random()
    if y < 0.3:
        return ('SET', i, sub())
    if y < 0.7:
        op = rng.choice(COMPOUND)
        if op in ('shl', 'shr'):
            return ('OPSET', op, i, ('L', 'i32', rng.choice([0, 1, 2, 5, 7])))
        return ('OPSET', op, i, sub())
    return (rng.choice(['PREINC', 'PREDEC', 'POSTINC', 'POSTDEC']), i)

def fix_uses(e, done):
    """a variable that is modified somewhere must not be read elsewhere: replace such reads by literals"""
    if e[0] == 'V' and e[1] in done:
        return ('L', 'i32', 1)
    return tuple(fix_uses(x, done) if isinstance(x, tuple) else x for x in e)

def gen_random(ctx, N):
    rng = ctx.rng
    tests = []
    for _ in range(N):
        n = rng.randrange(2, 6)
        tys = [rng.choice(TYS + ['en'] if rng.random() < 0.1 else TYS) for _ in range(n)]
        vals = []
        for t in tys:
            vals.append(rng.choice(boundary(t)) if rng.random() < 0.45 else rng.randint(max(tmin(t), -40), min(tmax(t), 40)))
        mod = {'done': set()}
        e = gen_nest(rng, rng.randrange(2, 7), tys, set(), mod)
        e = remove_conflicts(e, mod['done'])
        c = rng.choice(['val', 'val', 'val', 'init', 'arg', 'ret', 'cond'])
        t = {'ctx': c, 'tys': tys, 'vals': vals, 'e': e, 'tag': 'nest'}
        if c in ('init', 'arg', 'ret'):
            t['T'] = rng.choice(TYS)
        elif c == 'cond':
            t['T'] = rng.randrange(8)
        tests.append(t)
    return tests

def remove_conflicts(e, done):
    """keep the single modifying occurrence of each modified variable, turn its other (read) occurrences into literals"""
    if e[0] == 'V':
        return ('L', 'i32', 1) if e[1] in done else e
    return tuple(remove_conflicts(x, done) if isinstance(x, tuple) else x for x in e)

# ------------------------------------------------------------------ pointer forms (templates; expected values computed here)

def gen_pointer_program(ctx, K):
    """pointer +- integer (every integer type), pointer - pointer, pointer comparison, p += n, p++:
    returns (C text, expected lines)"""
    rng = ctx.rng
    elems = [('signed char', 1), ('short', 2), ('int', 4), ('long', 8), ('struct S12', 12), ('unsigned char', 1)]
    body, exp = '', []
    n = 0
    for et, esz in elems:
        for t in TYS:
            for _ in range(K):
                i = rng.randrange(0, 17)
                j = rng.randrange(0, 17)
                lo, hi = max(tmin(t), -i), min(tmax(t), 16 - i)
                d = rng.randint(lo, hi)
                dneg = rng.randint(max(tmin(t), i - 16), min(tmax(t), i))     # p - dneg stays inside
                cn = CNAME[t]
                body += f'  {{ {et} arr[17]; {et} *p = arr + {i}; {et} *q = &arr[{j}]; {cn} d = ({cn}){clit(d)}; {cn} m = ({cn}){clit(dneg)};\n'
                forms = [
                    (f'(p + d) - arr', i + d, 8, 1), (f'(d + p) - arr', i + d, 8, 1), (f'(p - m) - arr', i - dneg, 8, 1),
                    (f'p - q', i - j, 8, 1), (f'q - p', j - i, 8, 1), (f'&p[d] - &arr[0]', i + d, 8, 1),
                    (f'p < q', int(i < j), 4, 1), (f'p <= q', int(i <= j), 4, 1), (f'p > q', int(i > j), 4, 1),
                    (f'p >= q', int(i >= j), 4, 1), (f'p == q', int(i == j), 4, 1), (f'p != q', int(i != j), 4, 1),
                    (f'(char *)(p + d) - (char *)arr', (i + d) * esz, 8, 1),
                    (f'(long)sizeof(p + d)', 8, 8, 1), (f'p == 0', 0, 4, 1), (f'!p', 0, 4, 1), (f'(p && 1)', 1, 4, 1),
                ]
                for ex, want, size, sign in forms:
                    body += (f'    printf("{n} %lu %d %d\\n", (unsigned long)({ex}), (int)sizeof({ex}), ((__typeof__({ex}))-1 < 0));\n')
                    exp.append((n, ex + f'  [elem {et}, i={i}, j={j}, {cn} d={d}, m={dneg}]', [str(want & M64), str(size), str(sign)]))
                    n += 1
                # side-effecting forms
                for stmt, want in [(f'p += d;', i + d), (f'p -= m;', i - dneg), (f'p++;', i + 1) if i < 16 else (f'p--;', i - 1),
                                   (f'--p;', i - 1) if i > 0 else (f'++p;', i + 1)]:
                    body += f'    {{ {et} *r = p; {et} *p = r; {stmt} printf("{n} %lu 8 1\\n", (unsigned long)(p - arr)); }}\n'
                    exp.append((n, stmt + f'  [elem {et}, i={i}, {cn} d={d}, m={dneg}]', [str(want & M64), '8', '1']))
                    n += 1
                if i < 16:
                    body += f'    {{ {et} *r = p; long a = (r++) - arr; long b = r - arr; printf("{n} %lu 8 1\\n", (unsigned long)(a * 100 + b)); }}\n'
                    exp.append((n, f'(r++) - arr, then r - arr  [elem {et}, i={i}]', [str((i * 100 + i + 1) & M64), '8', '1']))
                    n += 1
                body += '  }\n'
    text = ('int printf(const char *, ...);\nstruct S12 { int a; int b; int c; };\nint main(void) {\n' + body + '  return 0;\n}\n')
    return text, exp

def run_pointers(ctx, corr, K):
    text, exp = gen_pointer_program(ctx, K)
    src = os.path.join(ctx.scratch, 'ptr.c')
    open(src, 'w').write(text)
    rc_c = compile_run([ctx.cc, '-o', src + '.chibi', src], src + '.chibi')
    rc_g = compile_run(['gcc', '-std=c11', '-w', '-O0', '-o', src + '.gcc', src], src + '.gcc')
    if rc_g[0] is None:
        corr.disagreements.append({'kind': 'gcc', 'note': 'gcc rejected the pointer program: ' + str(rc_g[1])})
        return
    if rc_c[0] is None:
        corr.violations.append({'what': 'chibicc fails on the pointer-arithmetic program', 'input': text[:2000], 'expected': 'compiles', 'got': rc_c[1]})
        return
    for n, ex, want in exp:
        corr.evaluations += 1
        corr.count('pointer')
        corr.nontrivial.add('ptr:' + hashlib.sha1(ex.encode()).hexdigest())
        if rc_g[0].get(n) != want:
            corr.disagreements.append({'kind': 'spec-vs-gcc', 'input': ex, 'spec': want, 'gcc': rc_g[0].get(n)})
            return
        if rc_c[0].get(n) != want:
            corr.violations.append({'what': 'pointer arithmetic / comparison: chibicc differs from C11 (fields: value mod 2^64, sizeof, signed?)',
                                    'input': ex, 'expected': want, 'got': rc_c[0].get(n)})
            return

# ------------------------------------------------------------------ pointer scaling with large byte offsets (no memory touched)

def scaling_indices(t, esz, rng, extra):
    """index values whose byte offset idx*esz crosses 2^31 and 2^32 in both directions (where the index type and the 8 GiB
    window allow), plus small controls"""
    lim = (8 << 30) - (1 << 20)
    vs = {0, 1, -1, 2, 1000, -1000, tmax(t), tmin(t), tmax(t) - 1, tmin(t) + 1}
    for b in (1 << 31, 1 << 32, (1 << 31) + (1 << 30), (1 << 32) + (1 << 31), 1 << 30, (1 << 33) - (1 << 24)):
        q = b // esz
        for d in (-1, 0, 1, 7):
            vs.add(q + d)
            vs.add(-(q + d))
    for _ in range(extra):
        vs.add(rng.randint(-(lim // esz), lim // esz))
    return sorted(v for v in vs if tmin(t) <= v <= tmax(t) and abs(v * esz) <= lim)

def run_pointer_scaling(ctx, corr, extra, only=None):
    """p + i, i + p, p - i, &p[i], p += i, p -= i and the comparisons p + i > p, p + i == p for element sizes 1 ... 1 MiB and
    every index type, with byte offsets beyond 2^31 and 2^32 in both directions; the pointers stay inside one 16 GiB
    mapping reserved with mmap(PROT_NONE, MAP_NORESERVE) and are never dereferenced.  Expected values: C11 6.5.6p8/p9
    (byte offset = idx * sizeof *p, element difference = idx), computed here; gcc must agree (spec validation)."""
    rng = ctx.rng
    body, exp, n = '', [], 0
    for et, esz in PTR_ELEMS:
        for t in TYS:
            cn = CNAME[t]
            for idx in (scaling_indices(t, esz, rng, extra) if only is None else [only[3]] if (et, t) == (only[0], only[2]) else []):
                off = idx * esz
                body += (f'  {{ {et} *p = ({et} *)mid; {cn} i = ({cn}){clit(idx)}; {et} *q = p; {et} *r = p; q += i; r -= i;\n'
                         f'    printf("{n} %ld %ld %ld %ld %ld %ld %d %d %d\\n", (long)((char *)(p + i) - (char *)p), '
                         f'(long)((char *)(i + p) - (char *)p), (long)((char *)(p - i) - (char *)p), (long)(&p[i] - p), '
                         f'(long)((char *)q - (char *)p), (long)((char *)r - (char *)p), p + i > p, p + i == p, (int)sizeof(p + i)); }}\n')
                exp.append((n, f'{et} *p; {cn} i = {idx}: p + i, i + p, p - i, &p[i] - p, p += i, p -= i (byte offsets), p + i > p, p + i == p, sizeof',
                            [str(off), str(off), str(-off), str(idx), str(off), str(-off), str(int(idx > 0)), str(int(idx == 0)), '8'],
                            [et, esz, t, idx]))
                n += 1
    text = ('int printf(const char *, ...);\nvoid *mmap(void *, unsigned long, int, int, int, long);\n' + PTR_STRUCTS +
            'int main(void) {\n  char *base = mmap(0, 16UL << 30, 0, 0x02 | 0x20 | 0x4000, -1, 0);\n'
            '  if (base == (char *)-1) { printf("mmap-failed\\n"); return 0; }\n  char *mid = base + (8UL << 30);\n' + body + '  return 0;\n}\n')
    src = os.path.join(ctx.scratch, 'ptrscale.c')
    open(src, 'w').write(text)
    rc_c = compile_run([ctx.cc, '-o', src + '.chibi', src], src + '.chibi')
    rc_g = compile_run(['gcc', '-std=c11', '-w', '-O0', '-o', src + '.gcc', src], src + '.gcc')
    for pth in (src + '.chibi', src + '.gcc'):
        if os.path.exists(pth):
            os.unlink(pth)
    if rc_g[0] is None:
        corr.disagreements.append({'kind': 'gcc', 'note': 'gcc rejected the pointer-scaling program: ' + str(rc_g[1])})
        return
    if not rc_g[0]:
        corr.count('skipped_mmap_failed')
        ctx.notes.append('pointer scaling: the 16 GiB PROT_NONE reservation failed; leg skipped')
        return
    if rc_c[0] is None:
        corr.violations.append({'what': 'chibicc fails on the pointer-scaling program', 'input': text[:1500], 'expected': 'compiles', 'got': rc_c[1]})
        return
    for k, what, want, case in exp:
        corr.evaluations += 1
        corr.count('pointer-scaling')
        if abs(int(want[0])) >= (1 << 31):
            corr.nontrivial.add('ptrscale:' + hashlib.sha1(what.encode()).hexdigest())
        if rc_g[0].get(k) != want:
            corr.disagreements.append({'kind': 'spec-vs-gcc', 'input': what, 'spec': want, 'gcc': rc_g[0].get(k),
                                       'note': 'expected pointer-arithmetic values (C11 6.5.6) disagree with gcc'})
            return
        if rc_c[0].get(k) != want:
            corr.violations.append({'what': 'pointer arithmetic: the index is not scaled as C11 6.5.6p8 prescribes (fields: byte offset of p + i, '
                                            'i + p, p - i, element difference &p[i] - p, byte offset after p += i, p -= i, p + i > p, p + i == p, sizeof)',
                                    'input': what, 'expected': want, 'got': rc_c[0].get(k), 'ptr_scale': case})
            return

# ------------------------------------------------------------------ leg (b): instruction text

def fn_text(asm, name):
    """lines of function `name` between its label and `jmp .L.return.name`, without .loc"""
    out, on = [], False
    for l in asm.splitlines():
        if l == f'{name}:':
            on = True
            continue
        if on:
            if l.strip() == f'jmp .L.return.{name}':
                return out
            if l.strip().startswith('.loc'):
                continue
            out.append(l)
    return None

def check_sequences(ctx, corr):
    specs, src = [], ''
    k = 0
    for op in BINOPS:
        if op in ('gt', 'ge'):
            continue
        for t1 in TYS:
            for t2 in TYS:
                ret = TYS[k % 9]
                k += 1
                name = f'f{len(specs)}'
                src += f'{CNAME[ret]} {name}({CNAME[t1]} a, {CNAME[t2]} b) {{ return a {CBIN[op]} b; }}\n'
                specs.append((name, f'bin {NK[op]} {t1} {t2} {ret}', 2))
    for op in ('neg', 'bitnot', 'lognot'):
        for t in TYS:
            for ret in TYS:
                name = f'f{len(specs)}'
                src += f'{CNAME[ret]} {name}({CNAME[t]} a) {{ return {CUN[op]}a; }}\n'
                specs.append((name, f'un {NK[op]} {t} {ret}', 1))
    for t in TYS:
        for ret in TYS:
            name = f'f{len(specs)}'
            src += f'{CNAME[ret]} {name}({CNAME[t]} a) {{ return ({CNAME[ret]})a; }}\n'
            specs.append((name, f'cast {t} {ret}', 1))
    path = os.path.join(ctx.scratch, 'seq.c')
    open(path, 'w').write(src)
    rc_, asm, e = sh([ctx.cc, '-S', '-o', '-', path], timeout=120)
    if rc_ != 0:
        corr.violations.append({'what': 'chibicc -S fails on one-operator functions', 'input': src[:500], 'expected': 'compiles', 'got': e[-300:]})
        return
    model = ctx.driver('seq', ''.join(s + '\n' for _, s, _ in specs)).splitlines()
    for (name, spec, nparams), m in zip(specs, model):
        lines = fn_text(asm, name)
        corr.count('seq-tie')
        if lines is None or len(lines) < 4 + nparams:
            corr.disagreements.append({'kind': 'asm-text', 'spec': spec, 'note': 'function not found in chibicc -S output'})
            return
        pro, rest = lines[:4 + nparams], lines[4 + nparams:]
        offs = []
        for l in pro[4:]:
            mm = re.fullmatch(r'\s*mov %\w+, (-?\d+)\(%rbp\)', l)
            if not mm:
                corr.disagreements.append({'kind': 'asm-text', 'spec': spec, 'note': 'prologue of unknown shape: ' + l})
                return
            offs.append(mm.group(1))
        got = []
        for l in rest:
            for o, nm in zip(offs, 'AB'):
                l = l.replace(f'{o}(%rbp)', f'{nm}(%rbp)')
            got.append(l)
        want = [] if m == 'empty' else m.split(';;')
        if m == 'none' or got != want:
            j = next((i for i in range(min(len(got), len(want))) if got[i] != want[i]), min(len(got), len(want)))
            corr.disagreements.append({'kind': 'asm-text', 'spec': spec, 'c': [l for l in src.splitlines() if f' {name}(' in l][0],
                                       'first_difference_at': j, 'chibicc': got[j:j + 3], 'model': want[j:j + 3],
                                       'note': 'Model/C01Codegen + Gen tables do not print what chibicc -S prints'})
            return
    corr.extra['asm_text_functions_compared'] = len(specs)

# ------------------------------------------------------------------ leg (b2): whole expression trees, instruction text

LITSUF = {'i32': '', 'i64': 'L', 'u32': 'U', 'u64': 'UL'}

def tie_lit(rng):
    """a literal that is a literal in C too (type int / long / unsigned / unsigned long by its suffix and value)"""
    t = rng.choice(['i32', 'i32', 'i64', 'u32', 'u64'])
    hi = {'i32': (1 << 31) - 1, 'i64': (1 << 63) - 1, 'u32': (1 << 32) - 1, 'u64': (1 << 64) - 1}[t]
    v = rng.choice([0, 1, 2, 3, 5, 7, 31, 255, 256, 65535, hi, hi - 1, hi // 2 + 1, rng.randint(0, hi)])
    return ('L', t, min(v, hi))

def tie_c(e):
    k = e[0]
    if k == 'L':
        return f'{e[2]}{LITSUF[e[1]]}'
    if k == 'V':
        return f'v{e[1]}'
    if k == 'U':
        return f'({CUN[e[1]]}({tie_c(e[2])}))'
    if k == 'B':
        return f'({tie_c(e[2])} {CBIN[e[1]]} {tie_c(e[3])})'
    if k == 'CAST':
        return f'(({CNAME[e[1]]}){tie_c(e[2])})'
    if k == 'SEQ':
        return f'({tie_c(e[1])}, {tie_c(e[2])})'
    if k == 'AND':
        return f'({tie_c(e[1])} && {tie_c(e[2])})'
    if k == 'OR':
        return f'({tie_c(e[1])} || {tie_c(e[2])})'
    if k == 'C':
        return f'({tie_c(e[1])} ? {tie_c(e[2])} : {tie_c(e[3])})'
    if k == 'SET':
        return f'(v{e[1]} = {tie_c(e[2])})'
    if k == 'OPSET':
        return f'(v{e[2]} {CBIN[e[1]]}= {tie_c(e[3])})'
    if k in ('PREINC', 'PREDEC', 'POSTINC', 'POSTDEC'):
        return rc(e, [])
    raise ValueError(e)

JUMPS = ('AND', 'OR', 'C')

def count_labels(e):
    """how many times gen_expr calls count() for the expression: once per `&&`, `||`, `?:`"""
    return sum(1 for x in subexprs(e) if x[0] in JUMPS)

def gen_tie(rng, depth, tys, effects, jumps=False):
    """pure nests (effects=False) or nests with `,` `=` `op=` `++` `--` on variables anywhere (the text is never run, so
    conflicting accesses are allowed here; the no-conflict side condition of the theorem is reported by the driver);
    jumps=True: also `&&` `||` `?:` anywhere (operands of operators, of casts, of op=, conditions of ?:, nested)"""
    n = len(tys)
    if depth == 0 or rng.random() < 0.1:
        if effects and rng.random() < 0.25:
            k = rng.choice(['PREINC', 'PREDEC', 'POSTINC', 'POSTDEC'])
            cand = [i for i in range(n) if tys[i] != 'bool' or k.startswith('PRE')]
            if cand:
                return (k, rng.choice(cand))
        return ('V', rng.randrange(n)) if rng.random() < 0.7 else tie_lit(rng)
    x = rng.random()
    sub = lambda: gen_tie(rng, depth - 1, tys, effects, jumps)
    if jumps and rng.random() < 0.3:
        y = rng.random()
        if y < 0.3:
            return ('AND', sub(), sub())
        if y < 0.6:
            return ('OR', sub(), sub())
        return ('C', sub(), sub(), sub())
    if effects and x < 0.34:
        y = rng.random()
        if y < 0.2:
            return ('SEQ', sub(), sub())
        if y < 0.55:
            return ('SET', rng.randrange(n), sub())
        return ('OPSET', rng.choice(COMPOUND), rng.randrange(n), sub())
    if x < 0.66:
        return ('B', rng.choice(BINOPS), sub(), sub())
    if x < 0.84:
        return ('U', rng.choice(UNOPS), sub())
    return ('CAST', rng.choice(TYS), sub())

def body_instrs(lines):
    out = []
    for l in lines:
        for part in l.split(';'):
            part = part.strip()
            if part:
                out.append(part)
    return out

def push_depth(ins):
    d = m = 0
    for i in ins:
        if i.startswith('push '):
            d += 1
            m = max(m, d)
        elif i.startswith('pop '):
            d -= 1
    return m

def check_compile(ctx, corr, N):
    """Model/C01Expr `compileE` / `compileX` (the objects of theorems C01_value / C01_value_effects) against gen_expr and the
    parse.c rewritings: `R f(T0 v0, ..) { return EXPR; }` for generated expression nests - pure ones, and ones with `,` `=`
    `op=` `++` `--` on variables; the instructions between the prologue and `jmp .L.return.f` must be exactly the ones
    `drv_c01 compilex` prints for `(R)EXPR` (hidden temporaries of op= / ++ / --: the frame slots that are not parameters, in
    order of creation = ascending offset), a pure nest must get the same code from `compileE`, the deepest push nesting
    must equal `depthX`, and the frame chibicc lays out (parameter and temporary offsets, `sub $N, %rsp`) must satisfy the
    layout hypothesis of the theorems (`layoutOK`: inside the frame, pairwise disjoint)."""
    rng = ctx.rng
    cases, src = [], ''
    fixed = [(['i8', 'u32', 'bool'], 'i64', ('B', 'gt', ('B', 'add', ('V', 0), ('B', 'mul', ('V', 1), ('L', 'i32', 2))),
                                             ('B', 'sub', ('U', 'neg', ('CAST', 'i64', ('L', 'i32', 5))), ('V', 0)))),
             (['i16', 'i64'], 'i64', ('OPSET', 'shl', 0, ('OPSET', 'sub', 1, ('L', 'i32', 3)))),
             (['i8', 'u32', 'bool'], 'i64', ('SEQ', ('SET', 0, ('V', 1)), ('SEQ', ('OPSET', 'add', 1, ('V', 0)),
                                             ('SEQ', ('PREINC', 2), ('SEQ', ('POSTDEC', 0), ('PREINC', 1))))))]
    for op in BINOPS:          # every operator once more with a nested operand on each side, operands of unequal types
        fixed.append((['u8', 'i64', 'i16'], 'i32', ('B', op, ('B', 'add', ('V', 0), ('V', 2)), ('B', 'bxor', ('V', 1), ('V', 2)))))
        fixed.append((['u32', 'i32', 'bool'], 'u64', ('B', op, ('V', 2), ('B', op, ('V', 0), ('V', 1)))))
        fixed.append((['u32', 'i8', 'u64'], 'i16', ('B', op, ('SET', 0, ('V', 1)), ('POSTINC', 2))))
    for op in COMPOUND:        # every op= on every variable type, operand of every type; ++/-- on every type
        for t in TYS:
            fixed.append(([t, TYS[(TYS.index(t) * 4 + len(op)) % 9]], 'i64', ('OPSET', op, 0, ('V', 1))))
    for t in TYS:
        for k in ('PREINC', 'PREDEC', 'POSTINC', 'POSTDEC'):
            if t != 'bool' or k.startswith('PRE'):
                fixed.append(([t], 'i64', (k, 0)))
        for t2 in TYS:
            fixed.append(([t, t2], 'i32', ('SET', 0, ('V', 1))))
    # && || ?: (Model/C01ExprJ compileJ, theorem C01_value_full): cmp_zero on every operand type, arms of unequal types,
    # nesting on either side of every binary operator (label numbers follow the order of emission: right-hand node first),
    # inside op= / = / casts / unary operators, side effects in conditionally evaluated operands
    for t in TYS:
        t2 = TYS[(TYS.index(t) * 2 + 3) % 9]
        fixed.append(([t, t2], 'i32', ('AND', ('V', 0), ('V', 1))))
        fixed.append(([t, t2], 'i64', ('OR', ('V', 0), ('V', 1))))
        fixed.append(([t, t2, 'i16'], 'u64', ('C', ('V', 0), ('V', 1), ('V', 2))))
        fixed.append(([t, t2], 'i32', ('C', ('V', 1), ('V', 0), ('V', 0))))
    for op in BINOPS:
        fixed.append((['u8', 'i64', 'i16'], 'i32', ('B', op, ('AND', ('V', 0), ('V', 2)), ('C', ('V', 1), ('V', 2), ('V', 0)))))
        fixed.append((['u32', 'i32', 'bool'], 'u64', ('B', op, ('OR', ('V', 2), ('AND', ('V', 0), ('V', 1))), ('V', 1))))
    for op in COMPOUND:
        fixed.append((['i16', 'u32', 'i64'], 'i64', ('OPSET', op, 0, ('C', ('V', 1), ('V', 2), ('PREINC', 1)))))
    fixed += [(['i32', 'i64', 'u8'], 'i64', ('C', ('AND', ('V', 0), ('OR', ('V', 1), ('V', 2))), ('C', ('V', 2), ('V', 0), ('V', 1)),
                                               ('SEQ', ('POSTINC', 0), ('V', 2)))),
              (['i32', 'i64', 'u8'], 'bool', ('SET', 2, ('AND', ('SET', 0, ('V', 1)), ('OPSET', 'add', 1, ('OR', ('V', 0), ('V', 2)))))),
              (['bool', 'u16'], 'i8', ('U', 'neg', ('CAST', 'i8', ('U', 'lognot', ('OR', ('V', 0), ('AND', ('V', 1), ('V', 0))))))),
              (['u64', 'i8'], 'u32', ('C', ('C', ('V', 0), ('V', 1), ('V', 0)), ('C', ('V', 1), ('L', 'i32', 1), ('L', 'u64', 2)),
                                      ('AND', ('L', 'i32', 0), ('V', 1))))]
    for k in range(max(N, len(fixed))):
        if k < len(fixed):
            tys, ret, e = fixed[k]
        else:
            n = rng.randrange(1, 7)
            tys = [rng.choice(TYS) for _ in range(n)]
            ret = rng.choice(TYS)
            e = gen_tie(rng, rng.randrange(1, 6), tys, effects=(k % 2 == 1), jumps=(k % 4 >= 2))
        name = f'c{k}'
        params = ', '.join(f'{CNAME[t]} v{i}' for i, t in enumerate(tys))
        src += f'{CNAME[ret]} {name}({params}) {{ return {tie_c(e)}; }}\n'
        cases.append((name, tys, ret, e))
    path = os.path.join(ctx.scratch, 'tie.c')
    open(path, 'w').write(src)
    rc_, asm, err = sh([ctx.cc, '-S', '-o', '-', path], timeout=300)
    if rc_ != 0:
        corr.violations.append({'what': 'chibicc -S fails on functions returning an integer expression', 'input': src[:600],
                                'expected': 'compiles', 'got': err[-300:]})
        return
    # `count()` is one counter for the translation unit: a function's first label number is what the functions emitted
    # before it left (chibicc emits the functions of a file in reverse order of definition; the order is read from the text)
    byname = {name: e for name, tys, ret, e in cases}
    c0, ctr = {}, 1
    for nm in re.findall(r'^(c\d+):$', asm, re.M):
        if nm in byname and nm not in c0:
            c0[nm] = ctr
            ctr += count_labels(byname[nm])
    req, reqx, live = '', '', []
    for name, tys, ret, e in cases:
        lines = fn_text(asm, name)
        if lines is None or len(lines) < 4 + len(tys) or name not in c0:
            corr.disagreements.append({'kind': 'asm-text', 'spec': name, 'note': 'function not found in chibicc -S output'})
            return
        offs = []
        for l in lines[4:4 + len(tys)]:
            mm = re.fullmatch(r'\s*mov %\w+, (-?\d+)\(%rbp\)', l)
            if not mm:
                corr.disagreements.append({'kind': 'asm-text', 'spec': name, 'note': 'prologue of unknown shape: ' + l})
                return
            offs.append(mm.group(1))
        body = body_instrs(lines[4 + len(tys):])
        temps = sorted({int(x) for i in body for x in re.findall(r'(-?\d+)\(%rbp\)', i)} - {int(o) for o in offs})
        mm = re.fullmatch(r'\s*sub \$(\d+), %rsp', lines[2])
        if not mm:
            corr.disagreements.append({'kind': 'asm-text', 'spec': name, 'note': 'prologue of unknown shape: ' + lines[2]})
            return
        hd = f"{','.join(tys)} {','.join(offs)} {','.join(str(x) for x in temps) or '-'} {mm.group(1)}"
        req += f"{hd} {c0[name]} | CAST {ret} {rp(e)}\n"
        jumpy = count_labels(e) > 0
        if not jumpy:
            reqx += f"{hd} | CAST {ret} {rp(e)}\n"
        live.append((name, tys, ret, e, body, len(temps), jumpy))
    model = ctx.driver('compilej', req).splitlines()
    modelx = iter(ctx.driver('compilex', reqx).splitlines())
    if len(model) != len(live):
        corr.disagreements.append({'kind': 'driver', 'note': f'drv_c01 compilej answered {len(model)} lines for {len(live)} expressions'})
        return
    for (name, tys, ret, e, got, ntemps, jumpy), m in zip(live, model):
        corr.evaluations += 1
        ctext = [l for l in src.splitlines() if f' {name}(' in l][0]
        # compileJ: ok type slots temps c1 nc isx lay lines
        w = m.split(' ', 8)
        if w[0] != 'ok' or len(w) < 9:
            corr.disagreements.append({'kind': 'asm-text', 'c': ctext, 'note': 'compileJ does not handle the expression: ' + m[:80]})
            return
        # compileX (expressions without && || ?:): ok type slots temps nc pure lay ins
        wx = None
        if not jumpy:
            wx = next(modelx, 'missing').split(' ', 7)
            if wx[0] != 'ok' or len(wx) < 8:
                corr.disagreements.append({'kind': 'asm-text', 'c': ctext, 'note': 'compileX does not handle the expression: ' + ' '.join(wx)[:80]})
                return
        is_pure = all(x[0] in ('L', 'V', 'U', 'B', 'CAST') for x in subexprs(e))
        no_effects = all(x[0] in ('L', 'V', 'U', 'B', 'CAST') + JUMPS for x in subexprs(e))
        corr.count('compile-tie:' + ('&& || ?:, ' if jumpy else '') +
                   ('pure' if no_effects else 'effects, no conflict' if w[5] == '1' else 'effects, conflicting accesses'))
        want = [] if w[8] == 'empty' else w[8].split(';;')
        if len(got) > 12:
            corr.nontrivial.add('tie:' + hashlib.sha1(ctext.encode()).hexdigest())
        bad = None
        if got != want:
            j = next((i for i in range(min(len(got), len(want))) if got[i] != want[i]), min(len(got), len(want)))
            bad = {'first_difference_at': j, 'chibicc': got[j:j + 4], 'model': want[j:j + 4], 'first_label_number': c0[name],
                   'note': 'Model/C01ExprJ compileJ (the object of C01_value_full; on jump-free expressions = compileX, the object of '
                           'C01_value / C01_value_effects) does not print what chibicc -S prints (instructions, labels, jump targets)'}
        elif int(w[4]) != c0[name] + count_labels(e):
            bad = {'note': f'label counter: the model leaves count() at {w[4]}, the expression has {count_labels(e)} `&&`/`||`/`?:` from {c0[name]}'}
        elif push_depth(got) != int(w[2]):
            bad = {'note': f'stack slots: chibicc nests push {push_depth(got)} deep, depthJ = {w[2]}'}
        elif ntemps != int(w[3]):
            bad = {'note': f'hidden temporaries: chibicc uses {ntemps} frame slots besides the parameters, the model {w[3]}'}
        elif w[7] != '1':
            bad = {'note': 'frame layout: the variables and hidden temporaries of the function do not lie pairwise disjoint inside the '
                           'frame `sub $N, %rsp` allocates (hypothesis `Lay` of C01_value_effects / C01_value_full, `layoutOK`)'}
        elif (w[6] == '1') != (not jumpy):
            bad = {'note': 'compileJ and compileX disagree on an expression without && || ?:' if not jumpy else 'compileX accepts an expression with && || ?:'}
        elif wx is not None and (wx[7] != w[8] or wx[1:5] != [w[1], w[2], w[3], w[5]] or wx[6] != w[7]):
            bad = {'note': 'compileX and compileJ print different code / type / stack slots / temporaries for an expression without && || ?:'}
        elif wx is not None and is_pure != (wx[5] == '1'):
            bad = {'note': 'compileE and compileX disagree on a pure expression' if is_pure else 'compileE accepts an expression with side effects'}
        if bad:
            bad.update({'kind': 'asm-text', 'c': ctext,
                        'test': {'ctx': 'ret', 'T': ret, 'tys': tys, 'vals': [1] * len(tys), 'prefix': rp(e)}})
            corr.disagreements.append(bad)
            return
    corr.extra['expression_trees_compared_with_chibicc_S'] = len(live)

# ------------------------------------------------------------------ leg (b3): pointer arithmetic, instruction text

PTR_ELEMS = [('signed char', 1), ('short', 2), ('int', 4), ('long', 8), ('struct S16', 16), ('struct S12', 12),
             ('struct S4096', 4096), ('struct S1M', 1048576)]
PTR_STRUCTS = ('struct S16 { long a, b; };\nstruct S12 { int a, b, c; };\nstruct S4096 { char x[4096]; };\n'
               'struct S1M { char x[1048576]; };\n')

def check_pointer_text(ctx, corr):
    """Model/C01Expr `scaleCode` / `ptrAddCode` / `ptrDiffCode` / `ptrOpAssignCode` / `ptrPostCode` (objects of C01_ptr_scale,
    C01_ptr_add, C01_ptr_diff) against parse.c new_add / new_sub + gen_expr: for every element size and every index type
    the instructions of `p + i`, `i + p`, `p - i`, `&p[i]`, `p - q`, `p += i`, `p -= i`, `++p`, `--p`, `p++`, `p--` must be
    the model's: in particular the index is converted to (unsigned) long and multiplied by a 64-bit `imul`."""
    cases, src = [], PTR_STRUCTS
    for et, esz in PTR_ELEMS:
        for t in TYS:
            for form, ex in (('add', 'p + i'), ('add', 'i + p'), ('sub', 'p - i'), ('add', '&p[i]'), ('add', '&i[p]'),
                             ('addassign', 'p += i'), ('subassign', 'p -= i')):
                name = f'q{len(cases)}'
                src += f'long {name}({et} *p, {CNAME[t]} i) {{ return (long)({ex}); }}\n'
                cases.append((name, form, t, esz, 2))
        name = f'q{len(cases)}'
        src += f'long {name}({et} *p, {et} *i) {{ return p - i; }}\n'
        cases.append((name, 'diff', 'i64', esz, 2))
        for form, ex in (('preinc', '++p'), ('predec', '--p'), ('postinc', 'p++'), ('postdec', 'p--')):
            name = f'q{len(cases)}'
            src += f'long {name}({et} *p) {{ return (long)({ex}); }}\n'
            cases.append((name, form, 'i32', esz, 1))
    path = os.path.join(ctx.scratch, 'ptrtie.c')
    open(path, 'w').write(src)
    rc_, asm, err = sh([ctx.cc, '-S', '-o', '-', path], timeout=300)
    if rc_ != 0:
        corr.violations.append({'what': 'chibicc -S fails on one-line pointer-arithmetic functions', 'input': src[:600],
                                'expected': 'compiles', 'got': err[-300:]})
        return
    req, live = '', []
    for name, form, t, esz, nparams in cases:
        lines = fn_text(asm, name)
        if lines is None or len(lines) < 4 + nparams:
            corr.disagreements.append({'kind': 'asm-text', 'spec': name, 'note': 'function not found in chibicc -S output'})
            return
        offs = []
        for l in lines[4:4 + nparams]:
            mm = re.fullmatch(r'\s*mov %\w+, (-?\d+)\(%rbp\)', l)
            if not mm:
                corr.disagreements.append({'kind': 'asm-text', 'spec': name, 'note': 'prologue of unknown shape: ' + l})
                return
            offs.append(int(mm.group(1)))
        body = body_instrs(lines[4 + nparams:])
        temps = sorted({int(x) for i in body for x in re.findall(r'(-?\d+)\(%rbp\)', i)} - set(offs))
        req += f'{form} {t} {esz} {offs[0]} {offs[1] if nparams > 1 else 0} {temps[0] if temps else 0}\n'
        live.append((name, form, t, esz, body))
    model = ctx.driver('ptrseq', req).splitlines()
    if len(model) != len(live):
        corr.disagreements.append({'kind': 'driver', 'note': f'drv_c01 ptrseq answered {len(model)} lines for {len(live)} functions'})
        return
    for (name, form, t, esz, got), m in zip(live, model):
        corr.evaluations += 1
        corr.count('pointer-text-tie')
        ctext = [l for l in src.splitlines() if f' {name}(' in l][0]
        corr.nontrivial.add('ptrtie:' + hashlib.sha1(ctext.encode()).hexdigest())
        want = m.split(';;')
        if got != want:
            j = next((i for i in range(min(len(got), len(want))) if got[i] != want[i]), min(len(got), len(want)))
            corr.disagreements.append({'kind': 'asm-text', 'c': ctext, 'first_difference_at': j, 'chibicc': got[j:j + 4],
                                       'model': want[j:j + 4], 'pointer_form': [form, t, esz],
                                       'note': 'Model/C01Expr pointer arithmetic (scaleCode: index converted to long, 64-bit imul by the '
                                               'element size) does not print what chibicc -S prints'})
            return
    corr.extra['pointer_functions_compared_with_chibicc_S'] = len(live)

# ------------------------------------------------------------------ leg (b4): lvalues other than variables, text

# struct pool: (C name, [(member name, scalar type | (nested struct name))]); offsets by the psABI rule (natural alignment)
LV_STRUCTS = {
    'LIn': [('a', 'i16'), ('b', 'u32'), ('c', 'i8'), ('d', 'u64')],
    'LS0': [('c', 'i8'), ('x', 'i32'), ('h', 'i16'), ('l', 'i64'), ('in', ('LIn',)), ('f', 'bool'), ('w', 'u16'), ('u', 'u8'), ('z', 'u32')],
}

def lv_layout(name):
    """(size, align, {member: (offset, type-or-struct)})"""
    off, al, mem = 0, 1, {}
    for m, t in LV_STRUCTS[name]:
        if isinstance(t, tuple):
            sz, a, _ = lv_layout(t[0])
        else:
            sz = a = SIZE[t]
        off = (off + a - 1) // a * a
        mem[m] = (off, t)
        off += sz
        al = max(al, a)
    return (off + al - 1) // al * al, al, mem

def lv_struct_decls():
    out = ''
    for name in ('LIn', 'LS0'):
        out += f'struct {name} {{ ' + ' '.join((f'struct {t[0]} {m};' if isinstance(t, tuple) else f'{CNAME[t]} {m};') for m, t in LV_STRUCTS[name]) + ' };\n'
    return out

def gen_member_path(rng, sname):
    """a path of members from struct `sname` to a scalar: ([(name, offset)], scalar type)"""
    path = []
    while True:
        _, _, mem = lv_layout(sname)
        m = rng.choice(sorted(mem))
        o, t = mem[m]
        path.append((m, o))
        if isinstance(t, tuple):
            sname = t[0]
        else:
            return path, t

def gen_lvalue(rng, ntys, et):
    """(C text builder, prefix text, object type, expressions used).  Variables of the model: 0..n-1 the scalars v0.., n = p
    (struct LS0 *), n+1 = q (et *), n+2 = s (struct LS0), n+3 = a (et[5]), n+4 = sa (struct LS0[3])"""
    n = len(ntys)
    ssz = lv_layout('LS0')[0]
    esz = SIZE[et]
    idx = lambda: gen_tie(rng, rng.randrange(0, 4), ntys, effects=rng.random() < 0.4, jumps=rng.random() < 0.4)
    k = rng.randrange(9)
    exprs = []
    def members(base_c, base_p, sname='LS0'):
        path, t = gen_member_path(rng, sname)
        c = base_c + ''.join('.' + m for m, _ in path)
        pfx = base_p
        for _, o in path:
            pfx = f'LM {o} {pfx}'
        return c, pfx, t
    if k == 0:
        return members('s', f'LV {n + 2}') + (exprs,)
    if k == 1:
        path, t = gen_member_path(rng, 'LS0')
        c = 'p->' + '.'.join(m for m, _ in path)
        pfx = f'LD {n}'
        for _, o in path:
            pfx = f'LM {o} {pfx}'
        return c, pfx, t, exprs
    if k == 2:
        return members('(*p)', f'LD {n}') + (exprs,)
    if k == 3:
        e = idx(); exprs.append(e)
        return f'a[{tie_c(e)}]', f'LI {n + 3} {esz} {rp(e)}', et, exprs
    if k == 4:
        e = idx(); exprs.append(e)
        return f'q[{tie_c(e)}]', f'LP {n + 1} {esz} {rp(e)}', et, exprs
    if k == 5:
        return '*q', f'LD {n + 1}', et, exprs
    if k == 6:
        e = idx(); exprs.append(e)
        return members(f'sa[{tie_c(e)}]', f'LI {n + 4} {ssz} {rp(e)}') + (exprs,)
    if k == 7:
        e = idx(); exprs.append(e)
        return members(f'p[{tie_c(e)}]', f'LP {n} {ssz} {rp(e)}') + (exprs,)
    e = idx(); exprs.append(e)
    return f'*(q + {tie_c(e)})', f'LP {n + 1} {esz} {rp(e)}', et, exprs

def check_lvalues(ctx, corr, N):
    """Model/C01Lvalue `compileL` (objects of C01_lvalue_load / C01_lvalue_assign / C01_lvalue_opassign) against gen_addr / gen_expr
    and the parse.c rewriting of op= for members and dereferences: `R f(struct LS0 *p, T *q, T0 v0, ..) { struct LS0 s; T a[5];
    struct LS0 sa[3]; &s; &a; &sa; return ROOT; }` with ROOT = an lvalue `s.m…`, `p->m…`, `(*p).m`, `a[i]`, `q[i]`, `*q`, `sa[i].m…`,
    `p[i].m…`, `*(q + i)` read, assigned or compound-assigned, index and right-hand side any generated expression (with , = op=
    ++ -- && || ?:): the lines after the three `lea` that reveal the offsets of the locals must be the model's, member offsets
    as the psABI layout rule gives them, label numbers exact."""
    rng = ctx.rng
    cases, src = [], lv_struct_decls()
    for k in range(N):
        n = rng.randrange(1, 4)
        tys = [rng.choice(TYS) for _ in range(n)]
        et = rng.choice(TYS)
        lc, lp, t, exprs = gen_lvalue(rng, tys, et)
        form = k % 3 if k >= 27 else (k // 9) % 3
        if form == 0:
            ctext, pfx = lc, f'LOAD {t} {lp}'
        elif form == 1:
            e = gen_tie(rng, rng.randrange(0, 4), tys, effects=rng.random() < 0.3, jumps=rng.random() < 0.4)
            exprs = exprs + [e]
            ctext, pfx = f'{lc} = {tie_c(e)}', f'LSET {t} {lp} {rp(e)}'
        else:
            op = rng.choice(COMPOUND)
            e = gen_tie(rng, rng.randrange(0, 3), tys, effects=rng.random() < 0.3, jumps=rng.random() < 0.4)
            exprs = exprs + [e]
            ctext, pfx = f'{lc} {CBIN[op]}= {tie_c(e)}', f'LOP {op} {t} {lp} {rp(e)}'
        ret = rng.choice(TYS)
        name = f'g{k}'
        params = ', '.join([f'struct LS0 *p', f'{CNAME[et]} *q'] + [f'{CNAME[x]} v{i}' for i, x in enumerate(tys)])
        src += f'{CNAME[ret]} {name}({params}) {{ struct LS0 s; {CNAME[et]} a[5]; struct LS0 sa[3]; &s; &a; &sa; return {ctext}; }}\n'
        cases.append((name, tys, et, ret, pfx, sum(count_labels(e) for e in exprs), ctext))
    path = os.path.join(ctx.scratch, 'lvtie.c')
    open(path, 'w').write(src)
    rc_, asm, err = sh([ctx.cc, '-S', '-o', '-', path], timeout=300)
    if rc_ != 0:
        corr.violations.append({'what': 'chibicc -S fails on functions returning an lvalue expression', 'input': src[:800],
                                'expected': 'compiles', 'got': err[-300:]})
        return
    nlab = {c[0]: c[5] for c in cases}
    c0, ctr = {}, 1
    for nm in re.findall(r'^(g\d+):$', asm, re.M):
        if nm in nlab and nm not in c0:
            c0[nm] = ctr
            ctr += nlab[nm]
    req, live = '', []
    for name, tys, et, ret, pfx, nl, ctext in cases:
        lines = fn_text(asm, name)
        np_ = 2 + len(tys)
        if lines is None or len(lines) < 4 + np_ + 3 or name not in c0:
            corr.disagreements.append({'kind': 'asm-text', 'spec': name, 'note': 'function not found in chibicc -S output'})
            return
        offs = []
        for l in lines[4:4 + np_]:
            mm = re.fullmatch(r'\s*mov %\w+, (-?\d+)\(%rbp\)', l)
            if not mm:
                corr.disagreements.append({'kind': 'asm-text', 'spec': name, 'note': 'prologue of unknown shape: ' + l})
                return
            offs.append(int(mm.group(1)))
        locs = []
        for l in lines[4 + np_:4 + np_ + 3]:
            mm = re.fullmatch(r'\s*lea (-?\d+)\(%rbp\), %rax', l)
            if not mm:
                corr.disagreements.append({'kind': 'asm-text', 'spec': name, 'note': 'address-of statement of unknown shape: ' + l})
                return
            locs.append(int(mm.group(1)))
        body = body_instrs(lines[4 + np_ + 3:])
        temps = sorted({int(x) for i in body for x in re.findall(r'(-?\d+)\(%rbp\)', i)} - set(offs) - set(locs))
        # model variables: v0.. , p, q, s, a, sa
        vt = tys + ['u64', 'u64', 'i8', et, 'i8']
        vo = offs[2:] + offs[:2] + locs
        req += f"{','.join(vt)} {','.join(str(x) for x in vo)} {','.join(str(x) for x in temps) or '-'} {c0[name]} {ret} | {pfx}\n"
        live.append((name, ctext, body, len(temps), nl))
    model = ctx.driver('lvalue', req).splitlines()
    if len(model) != len(live):
        corr.disagreements.append({'kind': 'driver', 'note': f'drv_c01 lvalue answered {len(model)} lines for {len(live)} functions'})
        return
    for (name, ctext, got, ntemps, nl), m in zip(live, model):
        corr.evaluations += 1
        corr.count('lvalue-text-tie')
        w = m.split(' ', 4)
        cline = [l for l in src.splitlines() if f' {name}(' in l][0]
        if w[0] != 'ok' or len(w) < 5:
            corr.disagreements.append({'kind': 'asm-text', 'c': cline, 'note': 'compileL does not handle the form: ' + m[:80]})
            return
        corr.nontrivial.add('lvtie:' + hashlib.sha1(cline.encode()).hexdigest())
        want = w[4].split(';;')
        bad = None
        if got != want:
            j = next((i for i in range(min(len(got), len(want))) if got[i] != want[i]), min(len(got), len(want)))
            bad = {'first_difference_at': j, 'chibicc': got[j:j + 4], 'model': want[j:j + 4], 'first_label_number': c0[name],
                   'note': 'Model/C01Lvalue compileL (gen_addr of members / subscripts / dereferences, the op= rewriting through the hidden '
                           'pointer, member offsets by the psABI rule) does not print what chibicc -S prints'}
        elif ntemps != int(w[2]):
            bad = {'note': f'hidden temporaries: chibicc uses {ntemps}, the model {w[2]}'}
        elif int(w[3]) != c0[name] + nl:
            bad = {'note': f'label counter: the model leaves count() at {w[3]}, expected {c0[name] + nl}'}
        if bad:
            bad.update({'kind': 'asm-text', 'c': cline})
            corr.disagreements.append(bad)
            return
    corr.extra['lvalue_functions_compared_with_chibicc_S'] = len(live)

# ------------------------------------------------------------------ lvalues other than variables: end-to-end oracle

def lv_leaves(sname, prefix=''):
    """[(C path, byte offset, scalar type)] of all scalar members of the struct, nested ones included"""
    out = []
    _, _, mem = lv_layout(sname)
    for m, _ in LV_STRUCTS[sname]:
        o, t = mem[m]
        if isinstance(t, tuple):
            out += [(prefix + m + '.' + pth, o + oo, tt) for pth, oo, tt in lv_leaves(t[0])]
        else:
            out.append((prefix + m, o, t))
    return out

def shift_vars(e, k):
    if e[0] == 'V':
        return ('V', e[1] + k)
    if e[0] in ('SET', 'PREINC', 'PREDEC', 'POSTINC', 'POSTDEC'):
        return (e[0], e[1] + k) + tuple(shift_vars(x, k) if isinstance(x, tuple) else x for x in e[2:])
    if e[0] == 'OPSET':
        return ('OPSET', e[1], e[2] + k) + tuple(shift_vars(x, k) if isinstance(x, tuple) else x for x in e[3:])
    return tuple(shift_vars(x, k) if isinstance(x, tuple) else x for x in e)

def object_program(final, leaves, name):
    """C text of one translation unit: test n initialises v0..v2, `struct LS0 s`, `a[4]`, p = &s, q = a + 1, evaluates t['c'] and prints
    value, sizeof and every object"""
    leaves_c = [pth for pth, _, _ in leaves]
    body = ''
    for n, t in enumerate(final):
        decl = ''.join(f'  {CNAME[ty]} v{k} = ({CNAME[ty]}){clit(v)};\n' for k, (ty, v) in enumerate(zip(t['vt'], t['vals'][:3])))
        decl += '  struct LS0 s;\n' + ''.join(f'  s.{pth} = ({CNAME[ty]}){clit(v)};\n'
                                               for (pth, _, ty), v in zip(leaves, t['vals'][3:3 + len(leaves)]))
        av = t['vals'][3 + len(leaves):]
        decl += f"  {CNAME[t['et']]} a[4]; " + ' '.join(f"a[{k}] = ({CNAME[t['et']]}){clit(v)};" for k, v in enumerate(av)) + '\n'
        decl += f"  struct LS0 *p = &s; {CNAME[t['et']]} *q = a + 1;\n"
        ex = t['c']
        body += (f'static void t{n}(void) {{\n{decl}  unsigned long r = (unsigned long)({ex});\n  int sz = (int)sizeof({ex});\n'
                 f'  printf("{n} %lu %d", r, sz);\n'
                 + ''.join(f'  printf(" %lu", (unsigned long)v{k});\n' for k in range(3))
                 + ''.join(f'  printf(" %lu", (unsigned long)s.{pth});\n' for pth in leaves_c)
                 + ''.join(f'  printf(" %lu", (unsigned long)a[{k}]);\n' for k in range(4))
                 + '  printf("\\n");\n}\n')
    main = 'int main(void) {\n' + ''.join(f'  t{n}();\n' for n in range(len(final))) + '  return 0;\n}\n'
    return 'int printf(const char *, ...);\n' + PRELUDE.split('\n', 2)[2] + lv_struct_decls() + body + main

def run_object_batch(ctx, batch, leaves, name):
    src = os.path.join(ctx.scratch, name + '.c')
    open(src, 'w').write(object_program(batch, leaves, name))
    rc_c = compile_run([ctx.cc, '-o', src + '.chibi', src], src + '.chibi')
    rc_g = compile_run(['gcc', '-std=c11', '-w', '-O0', '-o', src + '.gcc', src], src + '.gcc')
    for pth in (src + '.chibi', src + '.gcc'):
        if os.path.exists(pth):
            os.unlink(pth)
    return rc_c, rc_g, src

def run_object_programs(ctx, corr, final, leaves, name, count_label, key, what, spec_note):
    """compile and run the tests in batches with chibicc and gcc, compare with t['want'] three ways.  gcc 12 has internal compiler
    errors on a few constant-foldable forms: the offending test is isolated by bisection and dropped (counted)."""
    B = 1000
    batches = [final[i:i + B] for i in range(0, len(final), B)]
    for bi, b in enumerate(batches):
        rc_c, rc_g, src = run_object_batch(ctx, b, leaves, f'{name}{bi}')
        tries = 0
        while rc_g[0] is None and tries < 6 and len(b) > 1:
            lo = list(b)
            while len(lo) > 1:
                half = lo[:len(lo) // 2]
                _, g2, _ = run_object_batch(ctx, half, leaves, f'{name}iso')
                lo = half if g2[0] is None else lo[len(lo) // 2:]
            corr.count('skipped_gcc_internal_error')
            ctx.notes.append('gcc failed on: ' + lo[0]['c'] + ' :: ' + str(rc_g[1])[:120])
            b = [t for t in b if t is not lo[0]]
            rc_c, rc_g, src = run_object_batch(ctx, b, leaves, f'{name}{bi}r{tries}')
            tries += 1
        if rc_g[0] is None:
            corr.disagreements.append({'kind': 'gcc', 'note': f'gcc rejected the {name} program: ' + str(rc_g[1])})
            return
        if rc_c[0] is None:
            corr.violations.append({'what': f'chibicc fails on the {name} program', 'input': object_program(b, leaves, name)[:1500],
                                    'expected': 'compiles', 'got': rc_c[1]})
            return
        for n, t in enumerate(b):
            corr.evaluations += 1
            corr.count(count_label)
            desc = (f"{'; '.join(f'{CNAME[ty]} v{k} = {v}' for k, (ty, v) in enumerate(zip(t['vt'], t['vals'][:3])))}; struct LS0 s, "
                    f"{CNAME[t['et']]} a[4] (values {t['vals'][3:]}), p = &s, q = a + 1: {t['c']}")
            corr.nontrivial.add(key + hashlib.sha1(desc.encode()).hexdigest())
            if rc_g[0].get(n) != t['want']:
                corr.disagreements.append({'kind': 'spec-vs-gcc', 'input': desc, 'spec': t['want'], 'gcc': rc_g[0].get(n), 'note': spec_note})
                return
            if rc_c[0].get(n) != t['want']:
                corr.violations.append({'what': what, 'input': desc, 'expected': t['want'], 'got': rc_c[0].get(n)})
                return

def run_lvalue_oracle(ctx, corr, N):
    """`s.m…`, `p->m…`, `(*p).m`, `a[i]`, `q[i]`, `*q`, `*(q + i)` read, assigned and compound-assigned at the root of an
    expression, three ways.  Every scalar object (the scalars v0..v2, the 12 leaves of `struct LS0 s`, the elements of `a[4]`) is a
    variable of the Spec store; the Spec evaluates the index expression first (dropping out-of-range subscripts: undefined),
    which fixes the designated variable, then the assignment on that variable (`SET` / `OPSET` of Spec/IntSpec).  gcc must
    agree with the Spec (spec validation), chibicc with both (the property)."""
    rng = ctx.rng
    leaves = lv_leaves('LS0')
    tests = []
    for _ in range(N):
        vt = [rng.choice(TYS) for _ in range(3)]
        et = rng.choice(TYS)
        tys = vt + [t for _, _, t in leaves] + [et] * 4
        vals = [rng.choice(boundary(t)) if rng.random() < 0.5 else rng.randint(max(tmin(t), -40), min(tmax(t), 40)) for t in tys]
        vals[0] = rng.randint(max(tmin(vt[0]), -1), min(tmax(vt[0]), 3))          # the subscript variable
        k = rng.randrange(7)
        ie = None
        if k in (3, 4, 6):
            mod = {'done': set()}
            ie = remove_conflicts(gen_nest(rng, rng.randrange(0, 3), vt[:1], set(), mod), mod['done']) if rng.random() < 0.6 else ('V', 0)
        if k <= 2:
            j = rng.randrange(len(leaves))
            pth = leaves[j][0]
            ctext = ['s.' + pth, 'p->' + pth, '(*p).' + pth][k]
            t, target = leaves[j][2], 3 + j
            lo = hi = 0
        elif k == 3:
            ctext, t, target, lo, hi = 'a[%s]', et, 3 + len(leaves), 0, 3
        elif k == 4:
            ctext, t, target, lo, hi = 'q[%s]', et, 3 + len(leaves) + 1, -1, 2
        elif k == 5:
            ctext, t, target, lo, hi = '*q', et, 3 + len(leaves) + 1, 0, 0
        else:
            ctext, t, target, lo, hi = '*(q + %s)', et, 3 + len(leaves) + 1, -1, 2
        form = rng.randrange(3)
        e = None
        if form > 0:
            mod = {'done': set()}
            e = shift_vars(remove_conflicts(gen_nest(rng, rng.randrange(0, 4), vt[1:], set(), mod), mod['done']), 1)
            if form == 2 and rng.random() < 0.35:
                e = ('L', 'i32', rng.choice([0, 1, 2, 3, 7]))
        op = rng.choice(COMPOUND) if form == 2 else None
        tests.append({'tys': tys, 'vals': vals, 'vt': vt, 'et': et, 'ie': ie, 'ctext': ctext, 't': t, 'target': target,
                      'lo': lo, 'hi': hi, 'form': form, 'e': e, 'op': op})
    env = lambda t, vals: f"{','.join(sty(x) for x in t['tys'])} {','.join(str(v) for v in vals)}"
    # step 1: the subscript
    req = ''.join(f"{env(t, t['vals'])} | {rp(t['ie']) if t['ie'] else 'L i32 0'}\n" for t in tests)
    out1 = ctx.driver('eval', req).splitlines()
    if len(out1) != len(tests):
        corr.disagreements.append({'kind': 'driver', 'note': 'drv_c01 eval (lvalue subscripts): wrong number of answers'})
        return
    live = []
    for t, o in zip(tests, out1):
        if not o.startswith('ok '):
            corr.count('skipped_ub')
            continue
        w = o.split()
        kk = int(w[2])
        if not (t['lo'] <= kk <= t['hi']):
            corr.count('skipped_ub')
            corr.count('skipped_ub:subscript out of range')
            continue
        t['i'] = t['target'] + kk
        t['vals0'] = [int(x) for x in w[3].split(',')]
        live.append(t)
    # step 2: the root form on the designated variable
    def root(t):
        if t['form'] == 0:
            return f"V {t['i']}"
        if t['form'] == 1:
            return f"SET {t['i']} {rp(t['e'])}"
        return f"OPSET {t['op']} {t['i']} {rp(t['e'])}"
    out2 = ctx.driver('eval', ''.join(f"{env(t, t['vals0'])} | {root(t)}\n" for t in live)).splitlines()
    if len(out2) != len(live):
        corr.disagreements.append({'kind': 'driver', 'note': 'drv_c01 eval (lvalue root forms): wrong number of answers'})
        return
    final = []
    for t, o in zip(live, out2):
        if not o.startswith('ok '):
            corr.count('skipped_ub')
            continue
        w = o.split()
        t['want'] = [str(int(w[2]) & M64), str(SIZE[w[1]])] + [str(int(x) & M64) for x in w[3].split(',')]
        final.append(t)
    for t in final:
        lvc = t['ctext'] % rc(t['ie'], t['vt']) if '%s' in t['ctext'] else t['ctext']
        if t['form'] == 0:
            t['c'] = lvc
        elif t['form'] == 1:
            t['c'] = f"{lvc} = {rc(t['e'], t['vt'])}"
        else:
            t['c'] = f"{lvc} {CBIN[t['op']]}= {rc(t['e'], t['vt'])}"
    run_object_programs(ctx, corr, final, leaves, 'lvoracle', 'lvalue-oracle', 'lvo:',
                        'member / subscript / dereference lvalue read, assigned or compound-assigned: chibicc differs from C11 '
                        '(fields: value mod 2^64, sizeof, v0..v2, the 12 scalar members of s, a[0..3] afterwards)',
                        'lvalue root form: Spec (subscript first, then SET / OPSET on the designated object) disagrees with gcc')

# ------------------------------------------------------------------ leg (b5): lvalues other than variables anywhere in an expression

def sub_names(ctext, names):
    """replace the placeholder variables v<i> of a C text by the lvalue that designates object i"""
    return re.sub(r'\bv(\d+)\b', lambda mm: names[int(mm.group(1))], ctext)

def gen_pure_lvalue(rng, n, et, idxvars):
    """a side-effect-free lvalue over the bases p (model variable n), q (n+1), s (n+2), a (n+3), sa (n+4):
    (C text, prefix text, object type); subscripts are literals or one of the scalar variables `idxvars`"""
    ssz = lv_layout('LS0')[0]
    esz = SIZE[et]
    def idx():
        if idxvars and rng.random() < 0.4:
            j = rng.choice(idxvars)
            return f'v{j}', f'V {j}'
        c = rng.randrange(0, 4)
        t = rng.choice(['i32', 'i64', 'u32', 'u64'])
        return f'{c}{LITSUF[t]}', f'L {t} {c}'
    def members(base_c, base_p):
        path, t = gen_member_path(rng, 'LS0')
        pfx = base_p
        for _, o in path:
            pfx = f'LM {o} {pfx}'
        return base_c + ''.join('.' + m for m, _ in path), pfx, t
    k = rng.randrange(9)
    if k == 0:
        return members('s', f'LV {n + 2}')
    if k == 1:
        path, t = gen_member_path(rng, 'LS0')
        pfx = f'LD {n}'
        for _, o in path:
            pfx = f'LM {o} {pfx}'
        return 'p->' + '.'.join(m for m, _ in path), pfx, t
    if k == 2:
        return members('(*p)', f'LD {n}')
    if k == 3:
        c, pc = idx()
        return f'a[{c}]', f'LI {n + 3} {esz} {pc}', et
    if k == 4:
        c, pc = idx()
        return f'q[{c}]', f'LP {n + 1} {esz} {pc}', et
    if k == 5:
        return '*q', f'LD {n + 1}', et
    if k == 6:
        c, pc = idx()
        return members(f'sa[{c}]', f'LI {n + 4} {ssz} {pc}')
    if k == 7:
        c, pc = idx()
        return members(f'p[{c}]', f'LP {n} {ssz} {pc}')
    c, pc = idx()
    return f'*(q + {c})', f'LP {n + 1} {esz} {pc}', et

def check_lvalue_nests(ctx, corr, N):
    """Model/C01ExprA `compileA` (object of C01_value_lvalues): generated expression nests (pure, with , = op= ++ --, with && || ?:)
    whose leaves are objects reached through `s.m…`, `p->m…`, `(*p).m`, `a[c]`, `q[c]`, `*q`, `sa[c].m…`, `p[c].m…`, `*(q + c)`
    (subscripts literal or a scalar variable) besides plain variables: as operands, assigned, compound-assigned, incremented.
    Lines (instructions, labels, jumps; exact label numbers), hidden temporaries and the label counter must be the model's."""
    rng = ctx.rng
    cases, src = [], lv_struct_decls()
    for k in range(N):
        n = rng.randrange(1, 4)
        vt = [rng.choice(TYS) for _ in range(n)]
        et = rng.choice(TYS)
        M = rng.randrange(1, 4)
        objs_ = [gen_pure_lvalue(rng, n, et, list(range(n)) if rng.random() < 0.5 else []) for _ in range(M)]
        otys = vt + [t for _, _, t in objs_]
        e = gen_tie(rng, rng.randrange(1, 5), otys, effects=(k % 2 == 1), jumps=(k % 4 >= 2))
        # object index j >= n of the expression is model variable j + 5
        e_model = shift_from(e, n, 5)
        names = [f'v{i}' for i in range(n)] + [f'({c})' for c, _, _ in objs_]
        ret = rng.choice(TYS)
        name = f'h{k}'
        params = ', '.join(['struct LS0 *p', f'{CNAME[et]} *q'] + [f'{CNAME[x]} v{i}' for i, x in enumerate(vt)])
        ctext = sub_names(tie_c(e), names)
        src += f'{CNAME[ret]} {name}({params}) {{ struct LS0 s; {CNAME[et]} a[5]; struct LS0 sa[3]; &s; &a; &sa; return {ctext}; }}\n'
        cases.append((name, vt, et, ret, objs_, e_model, count_labels(e)))
    path = os.path.join(ctx.scratch, 'lvnest.c')
    open(path, 'w').write(src)
    rc_, asm, err = sh([ctx.cc, '-S', '-o', '-', path], timeout=300)
    if rc_ != 0:
        corr.violations.append({'what': 'chibicc -S fails on functions returning an expression over member / subscript / dereference lvalues',
                                'input': src[:800], 'expected': 'compiles', 'got': err[-300:]})
        return
    nlab = {c[0]: c[6] for c in cases}
    c0, ctr = {}, 1
    for nm in re.findall(r'^(h\d+):$', asm, re.M):
        if nm in nlab and nm not in c0:
            c0[nm] = ctr
            ctr += nlab[nm]
    req, live = '', []
    for name, vt, et, ret, objs_, e_model, nl in cases:
        lines = fn_text(asm, name)
        np_ = 2 + len(vt)
        if lines is None or len(lines) < 4 + np_ + 3 or name not in c0:
            corr.disagreements.append({'kind': 'asm-text', 'spec': name, 'note': 'function not found in chibicc -S output'})
            return
        offs, locs = [], []
        for l in lines[4:4 + np_]:
            mm = re.fullmatch(r'\s*mov %\w+, (-?\d+)\(%rbp\)', l)
            if not mm:
                corr.disagreements.append({'kind': 'asm-text', 'spec': name, 'note': 'prologue of unknown shape: ' + l})
                return
            offs.append(int(mm.group(1)))
        for l in lines[4 + np_:4 + np_ + 3]:
            mm = re.fullmatch(r'\s*lea (-?\d+)\(%rbp\), %rax', l)
            if not mm:
                corr.disagreements.append({'kind': 'asm-text', 'spec': name, 'note': 'address-of statement of unknown shape: ' + l})
                return
            locs.append(int(mm.group(1)))
        body = body_instrs(lines[4 + np_ + 3:])
        temps = sorted({int(x) for i in body for x in re.findall(r'(-?\d+)\(%rbp\)', i)} - set(offs) - set(locs))
        n = len(vt)
        tys = vt + ['u64', 'u64', 'i8', et, 'i8'] + [t for _, _, t in objs_]
        vo = offs[2:] + offs[:2] + locs + [0] * len(objs_)
        table = ' ; '.join([f'LV {i}' for i in range(n + 5)] + [pfx for _, pfx, _ in objs_])
        req += (f"{','.join(tys)} {','.join(str(x) for x in vo)} {','.join(str(x) for x in temps) or '-'} {c0[name]} | {table} | "
                f"CAST {ret} {rp(e_model)}\n")
        live.append((name, body, len(temps), nl))
    model = ctx.driver('compilea', req).splitlines()
    if len(model) != len(live):
        corr.disagreements.append({'kind': 'driver', 'note': f'drv_c01 compilea answered {len(model)} lines for {len(live)} functions'})
        return
    for (name, got, ntemps, nl), m in zip(live, model):
        corr.evaluations += 1
        w = m.split(' ', 6)
        cline = [l for l in src.splitlines() if f' {name}(' in l][0]
        if w[0] != 'ok' or len(w) < 7:
            corr.disagreements.append({'kind': 'asm-text', 'c': cline, 'note': 'compileA does not handle the expression: ' + m[:80]})
            return
        corr.count('lvalue-nest-tie:' + ('side conditions hold' if w[4] == '1' and w[5] == '1' else 'text only'))
        corr.nontrivial.add('lvnest:' + hashlib.sha1(cline.encode()).hexdigest())
        want = w[6].split(';;')
        bad = None
        if got != want:
            j = next((i for i in range(min(len(got), len(want))) if got[i] != want[i]), min(len(got), len(want)))
            bad = {'first_difference_at': j, 'chibicc': got[j:j + 4], 'model': want[j:j + 4], 'first_label_number': c0[name],
                   'note': 'Model/C01ExprA compileA (gen_expr over objects reached through member / subscript / dereference lvalues) does not '
                           'print what chibicc -S prints'}
        elif ntemps != int(w[2]):
            bad = {'note': f'hidden temporaries: chibicc uses {ntemps}, the model {w[2]}'}
        elif int(w[3]) != c0[name] + nl:
            bad = {'note': f'label counter: the model leaves count() at {w[3]}, expected {c0[name] + nl}'}
        if bad:
            bad.update({'kind': 'asm-text', 'c': cline})
            corr.disagreements.append(bad)
            return
    corr.extra['lvalue_nests_compared_with_chibicc_S'] = len(live)

def shift_from(e, n, k):
    """add k to every variable index >= n"""
    f = lambda i: i + k if i >= n else i
    if e[0] == 'V':
        return ('V', f(e[1]))
    if e[0] in ('SET', 'PREINC', 'PREDEC', 'POSTINC', 'POSTDEC'):
        return (e[0], f(e[1])) + tuple(shift_from(x, n, k) if isinstance(x, tuple) else x for x in e[2:])
    if e[0] == 'OPSET':
        return ('OPSET', e[1], f(e[2])) + tuple(shift_from(x, n, k) if isinstance(x, tuple) else x for x in e[3:])
    return tuple(shift_from(x, n, k) if isinstance(x, tuple) else x for x in e)

def run_lvalue_nests(ctx, corr, N):
    """generated expression nests whose objects are the scalars v0..v2, the 12 scalar members of `struct LS0 s` (written `s.m`,
    `p->m` or `(*p).m` with p = &s) and the elements of `a[4]` (written `a[k]`, `q[k-1]`, `*(q + k-1)` or `*q` with q = a + 1),
    evaluated by the Spec on the store of all objects, compiled by chibicc and gcc and run: value, sizeof and all objects
    afterwards must agree three ways."""
    rng = ctx.rng
    leaves = lv_leaves('LS0')
    tests = []
    for _ in range(N):
        vt = [rng.choice(TYS) for _ in range(3)]
        et = rng.choice(TYS)
        tys = vt + [t for _, _, t in leaves] + [et] * 4
        vals = [rng.choice(boundary(t)) if rng.random() < 0.45 else rng.randint(max(tmin(t), -40), min(tmax(t), 40)) for t in tys]
        # the expression uses a handful of the objects
        pick = sorted(rng.sample(range(len(tys)), rng.randrange(2, 6)))
        sub_t = [tys[i] for i in pick]
        mod = {'done': set()}
        e = remove_conflicts(gen_nest(rng, rng.randrange(1, 6), sub_t, set(), mod), mod['done'])
        e = rename_vars(e, pick)
        names = [f'v{k}' for k in range(3)]
        for pth, _, _ in leaves:
            names.append(rng.choice([f'(s.{pth})', f'(p->{pth})', f'((*p).{pth})']))
        for k in range(4):
            forms = [f'(a[{k}])', f'(q[{k - 1}])', f'(*(q + {k - 1}))'] + (['(*q)'] if k == 1 else [])
            names.append(rng.choice(forms))
        tests.append({'tys': tys, 'vals': vals, 'vt': vt, 'et': et, 'e': e, 'names': names})
    env = lambda t: f"{','.join(sty(x) for x in t['tys'])} {','.join(str(v) for v in t['vals'])}"
    out = ctx.driver('eval', ''.join(f"{env(t)} | {rp(t['e'])}\n" for t in tests)).splitlines()
    if len(out) != len(tests):
        corr.disagreements.append({'kind': 'driver', 'note': 'drv_c01 eval (lvalue nests): wrong number of answers'})
        return
    final = []
    for t, o in zip(tests, out):
        if not o.startswith('ok '):
            corr.count('skipped_ub')
            continue
        w = o.split()
        t['want'] = [str(int(w[2]) & M64), str(SIZE[w[1]])] + [str(int(x) & M64) for x in w[3].split(',')]
        final.append(t)
    for t in final:
        t['c'] = sub_names(rc(t['e'], t['tys']), t['names'])
    run_object_programs(ctx, corr, final, leaves, 'lvnests', 'lvalue-nest-oracle', 'lvn:',
                        'expression over member / subscript / dereference lvalues: chibicc differs from C11 (fields: value '
                        'mod 2^64, sizeof, v0..v2, the 12 scalar members of s, a[0..3] afterwards)',
                        'expression over member / subscript / dereference lvalues: Spec disagrees with gcc')

def rename_vars(e, pick):
    f = lambda i: pick[i]
    if e[0] == 'V':
        return ('V', f(e[1]))
    if e[0] in ('SET', 'PREINC', 'PREDEC', 'POSTINC', 'POSTDEC'):
        return (e[0], f(e[1])) + tuple(rename_vars(x, pick) if isinstance(x, tuple) else x for x in e[2:])
    if e[0] == 'OPSET':
        return ('OPSET', e[1], f(e[2])) + tuple(rename_vars(x, pick) if isinstance(x, tuple) else x for x in e[3:])
    return tuple(rename_vars(x, pick) if isinstance(x, tuple) else x for x in e)

# ------------------------------------------------------------------ leg (c): X86 model vs CPU

REGVALS = [0, 1, 2, 3, 5, 7, 8, 15, 16, 31, 32, 33, 63, 64, 65, 0x7f, 0x80, 0x81, 0xff, 0x100, 0x7fff, 0x8000, 0xffff, 0x10000,
           0x7fffffff, 0x80000000, 0x80000001, 0xfffffffe, 0xffffffff, 0x100000000, 0x100000001, 0x7fffffffffffffff,
           0x8000000000000000, 0x8000000000000001, 0xfffffffffffffffe, 0xffffffffffffffff, 0xffffffff00000000,
           0xffffffff80000000, 0xffffffff7fffffff, 0xdeadbeef00000005, 0xdeadbeeffffffffb, 0x00000001ffffff80,
           0xffffffffffffff80, 0xffffffffffff8000, 0x123456789abcdef0]

def x86_specs():
    specs = []
    W = ['i32', 'u32', 'i64', 'u64', 'ptr']
    for op in BINOPS:
        if op in ('gt', 'ge'):
            continue
        for t in W:
            if t == 'ptr' and op not in ('add', 'sub', 'eq', 'ne', 'lt', 'le'):
                continue
            specs.append(f'op {NK[op]} {t} {t}')
    for t in ['i32', 'u32', 'i64', 'u64']:
        specs += [f'uop ND_NEG {t}', f'uop ND_BITNOT {t}']
    for t in TYS + ['ptr', 'enum']:
        specs += [f'uop ND_NOT {t}', f'tobool {t}']
    for t in TYS + ['ptr', 'enum']:
        specs += [f'load {t}', f'store {t}']
    specs.append('push')
    for d in (0, -1, -8, -9, -16, -17, -24, -4096, 8, 16, 127, -128, -129, 2147483647, -2147483648):
        specs.append(f'lea {d}')          # gen_addr of a local: lea d(%rbp), %rax  (run with %rbp = the second register value)
    for v in (0, 1, -1, 2, 255, 65535, 2147483647, 2147483648, -2147483648, -2147483649, 4294967295, 4294967296,
              9223372036854775807, -9223372036854775808, 18446744073709551615, 9223372036854775808, 0x123456789abcdef0):
        specs.append(f'imm {v}')          # ND_NUM: mov $v, %rax  (printed with %ld)
    cells = ['i8', 'i16', 'i32', 'i64', 'u8', 'u16', 'u32', 'u64', 'bool', 'enum', 'ptr']
    for a in cells:
        for b in cells:
            if b != 'bool':
                specs.append(f'cell {a} {b}')
    # conditional jumps (Model/X86Jump): the flags of cmp / test read by each jCC; cmp_zero + je / jne on every operand type.
    # the trailing number makes the labels of the sequence unique in the assembled file
    n = 1
    for cc in ('e', 'ne', 'l', 'le', 'g', 'ge', 'b', 'be', 'a', 'ae', 'p', 'np', 's', 'ns'):
        for op in ('cmp', 'test'):
            for w in (32, 64):
                specs.append(f'jcc {cc} {op} {w} {n}')
                n += 1
    for t in TYS:
        for cc in ('e', 'ne'):
            specs.append(f'cmpz {t} {cc} {n}')
            n += 1
    return sorted(set(specs))

def check_cpu(ctx, corr, nrand):
    rng = ctx.rng
    specs = x86_specs()
    texts = ctx.driver('seq', ''.join(s + '\n' for s in specs)).splitlines()
    live = [(s, t) for s, t in zip(specs, texts) if t not in ('none',)]
    if len(live) != len(specs):
        corr.disagreements.append({'kind': 'x86', 'note': 'model has no sequence for ' + str([s for s, t in zip(specs, texts) if t == 'none'][:5])})
        return
    asm = '  .text\n'
    for n, (s, t) in enumerate(live):
        body = '' if t == 'empty' else ''.join(l + '\n' for l in t.split(';;'))
        kind = s.split()[0]
        setup = '  mov 0(%rbx), %rax\n'
        if kind == 'load':
            setup = '  lea 40(%rbx), %rax\n'
        elif kind == 'store':
            setup = '  lea 40(%rbx), %r11\n  push %r11\n  mov 0(%rbx), %rax\n'
        elif kind == 'lea':
            setup = '  push %rbp\n  mov 8(%rbx), %rbp\n  mov 0(%rbx), %rax\n'
        asm += (f'seq_{n}:  # {s}\n  push %rbx\n  push %r12\n  mov %rdi, %rbx\n  mov $1, %r11d\n  cmp $0, %r11d\n'
                '  mov 16(%rbx), %rcx\n  mov 24(%rbx), %rdx\n  mov 8(%rbx), %rdi\n' + setup + '  mov %rsp, %r12\n'
                + body +
                '  pushfq\n  pop %r11\n  sub %rsp, %r12\n  mov %r12, 48(%rbx)\n  add %r12, %rsp\n'
                '  mov %rax, 0(%rbx)\n  mov %rdi, 8(%rbx)\n  mov %rcx, 16(%rbx)\n  mov %rdx, 24(%rbx)\n'
                '  mov %r11, 32(%rbx)\n' + ('  add $8, %rsp\n' if kind == 'store' else '  pop %rbp\n' if kind == 'lea' else '')
                + '  pop %r12\n  pop %rbx\n  ret\n')
    asm += '  .data\n  .globl seq_table\nseq_table:\n' + ''.join(f'  .quad seq_{n}\n' for n in range(len(live)))
    asm += f'  .globl seq_count\nseq_count:\n  .quad {len(live)}\n  .section .note.GNU-stack,"",@progbits\n'
    spath = os.path.join(ctx.scratch, 'seqs.s')
    open(spath, 'w').write(asm)
    exe = os.path.join(ctx.scratch, 'x86h')
    rc_, o, e = sh(['gcc', '-O1', '-o', exe, os.path.join(VERIF, 'tools/harness/c01_x86_harness.c'), spath], timeout=120)
    if rc_ != 0:
        corr.disagreements.append({'kind': 'x86', 'note': 'the emitted sequences do not assemble: ' + e[-600:]})
        return
    cpu_in, drv_in, meta = '', '', []
    for n, (s, t) in enumerate(live):
        cases = []
        kind = s.split()[0]
        two = kind in ('op', 'jcc')
        pool = REGVALS
        for _ in range(nrand):
            a = rng.choice(pool) if rng.random() < 0.7 else rng.getrandbits(64)
            d = rng.choice(pool) if rng.random() < 0.7 else rng.getrandbits(rng.choice([3, 6, 31, 32, 64]))
            q = rng.choice(pool) if rng.random() < 0.5 else rng.getrandbits(64)
            cases.append((a, d if two else rng.getrandbits(64), rng.getrandbits(64), rng.getrandbits(64), q))
        if two:
            for a in (0, 1, 0x7fffffff, 0x80000000, 0xffffffff, 0x7fffffffffffffff, 0x8000000000000000, M64):
                for d in (0, 1, 2, 31, 32, 63, 64, 0xffffffff, M64, 0x80000000, 0x8000000000000000):
                    cases.append((a, d, 0x55, 0xaa, 0))
        else:
            cases += [(a, 0x11, 0x22, 0x33, a ^ 0x5555555555555555) for a in REGVALS]
            cases += [(0x77, 0x11, 0x22, 0x33, a) for a in REGVALS]
            if kind == 'lea':
                cases += [(0x77, a, 0x22, 0x33, 0) for a in REGVALS]
        for c in cases:
            cpu_in += f'{n} {c[0]} {c[1]} {c[2]} {c[3]} {c[4]}\n'
            drv_in += f'{s} | {c[0]} {c[1]} {c[2]} {c[3]} {c[4]}\n'
            meta.append((s, t, c))
    rc_, cpu, e = sh([exe], input=cpu_in, timeout=600)
    model = ctx.driver('x86exec', drv_in).splitlines()
    cpu = cpu.splitlines()
    if rc_ != 0 or len(cpu) != len(meta) or len(model) != len(meta):
        corr.disagreements.append({'kind': 'x86', 'note': f'harness rc={rc_}, {len(cpu)} cpu lines, {len(model)} model lines for {len(meta)} cases: {e[-200:]}'})
        return
    for (s, t, c), hw, md in zip(meta, cpu, model):
        corr.count('x86-cpu')
        kind = s.split()[0]
        if md == 'fault' or hw == 'fault':
            ok = md == hw
        elif md.startswith('ok ') and hw.startswith('ok '):
            m, h = md.split()[1:], hw.split()[1:]
            # model: rax rdi rcx rdx zf sf cf of pf valid mem rsp      cpu: rax rdi rcx rdx zf sf cf of pf mem rspdelta
            rsp0 = {'store': 0x2000, 'push': 0x2008}.get(kind, 0)
            regs_m = [m[0], m[2], m[3]] if kind == 'store' else m[:4]       # the model's object address is symbolic
            regs_h = [h[0], h[2], h[3]] if kind == 'store' else h[:4]
            ok = (regs_m == regs_h and (m[9] == '0' or m[4:9] == h[4:9]) and m[10] == h[9]
                  and (rsp0 - int(m[11])) % (1 << 64) == int(h[10]) % (1 << 64))
        else:
            ok = False
        if not ok:
            corr.disagreements.append({'kind': 'x86', 'sequence': t, 'spec': s, 'rax_rdi_rcx_rdx_mem': list(c), 'cpu': hw, 'model': md,
                                       'note': 'Model/X86.lean disagrees with the host CPU (model fields: rax rdi rcx rdx zf sf cf of pf '
                                               'valid mem rsp; cpu fields: rax rdi rcx rdx zf sf cf of pf mem rsp-delta)'})
            return
    corr.extra['x86_sequences_validated'] = len(live)
    corr.extra['x86_cases'] = len(meta)

# ------------------------------------------------------------------ corpus / plugin entry points

def load_corpus():
    d = os.path.join(VERIF, 'corpus', 'C01')
    tests = []
    if os.path.isdir(d):
        for fn in sorted(os.listdir(d)):
            if fn.endswith('.json'):
                for item in json.load(open(os.path.join(d, fn))):
                    t = unpack(item)
                    t['tag'] = 'corpus'
                    t['corpus_file'] = fn
                    tests.append(t)
    return tests

def known_witness(ctx, corr):
    """region of C01-bool-postfix-incdec: postfix ++/-- on a `_Bool` bit-field / `_Atomic _Bool` must yield the old value.
    Reported as the known finding while it fails; other lines of the same program are ordinary checks."""
    src = ('int printf(const char *, ...);\nstruct S { _Bool b : 1; int x; };\nint main(void) {\n'
           '  struct S s = {1, 0}, z = {0, 0}; _Atomic _Bool a1 = 1, a0 = 0; _Bool p1 = 1, p0 = 0;\n'
           '  _Bool r;\n'
           '  r = s.b++; printf("bf++ %d %d\\n", r, s.b);\n  r = z.b--; printf("bf-- %d %d\\n", r, z.b);\n'
           '  r = a1++; printf("at++ %d %d\\n", r, a1);\n  r = a0--; printf("at-- %d %d\\n", r, a0);\n'
           '  r = p1++; printf("ob++ %d %d\\n", r, p1);\n  r = p0--; printf("ob-- %d %d\\n", r, p0);\n'
           '  r = ++s.b; printf("++bf %d %d\\n", r, s.b);\n  r = --z.b; printf("--bf %d %d\\n", r, z.b);\n'
           '  return 0;\n}\n')
    want = {'bf++': '1 1', 'bf--': '0 1', 'at++': '1 1', 'at--': '0 1', 'ob++': '1 1', 'ob--': '0 1', '++bf': '1 1', '--bf': '0 0'}
    path = os.path.join(ctx.scratch, 'known.c')
    open(path, 'w').write(src)
    exe = path + '.exe'
    rc_, o, e = sh([ctx.cc, '-o', exe, path], timeout=60)
    if rc_ != 0:
        corr.violations.append({'what': 'chibicc fails on ++/-- of _Bool bit-field / _Atomic _Bool', 'input': src, 'expected': 'compiles', 'got': e[-300:]})
        return
    rc_, o, e = sh([exe], timeout=20)
    got = {l.split()[0]: ' '.join(l.split()[1:]) for l in o.splitlines() if l.strip()}
    corr.evaluations += len(want)
    for k, w in want.items():
        if got.get(k) == w:
            continue
        if k in ('bf++', 'bf--', 'at++', 'at--'):
            corr.count('known:' + KNOWN_BOOL_POSTFIX)
            if KNOWN_BOOL_POSTFIX not in corr.known_hits:
                corr.known_hits.append(KNOWN_BOOL_POSTFIX)
            corr.violations.append({'what': 'postfix ++/-- on a _Bool bit-field / _Atomic _Bool yields (value, stored) != C11',
                                    'input': k + ' in: ' + src, 'expected': w, 'got': got.get(k), 'known_id': KNOWN_BOOL_POSTFIX})
        else:
            corr.violations.append({'what': '++/-- on a _Bool operand: (value, stored) differs from C11', 'input': k + ' in: ' + src,
                                    'expected': w, 'got': got.get(k)})

def correspond(ctx, corr):
    corr.rule = ('generated C expressions over _Bool/char/short/int/long (signed and unsigned), enum constants and enum objects: '
                 'all 16 binary operators x 81 type pairs x boundary/random operand values at depth 1, 4 unary operators and 81 '
                 'casts on all boundary values, every context (initializer, argument, return, 8 condition forms, =, the ten op=, '
                 'prefix/postfix ++ --), seeded random nests to depth 6, pointer +- integer / pointer - pointer / pointer '
                 'comparison; each evaluated by Spec/IntSpec (undefined cases dropped and counted as skipped_ub), compiled by '
                 'chibicc and gcc and run: value mod 2^64, sizeof and signedness of the expression type and the variables '
                 'afterwards must agree three ways.  non-trivial = has an operator or conversion context and involves a type '
                 'other than int; distinct by (context, variable types and values, expression).  Plus: asm text of 1,300+ '
                 'one-operator functions against the model; text (instructions, labels, jumps) of generated expression trees (pure, with '
                 ', = op= ++ --, with && || ?:) and of every pointer-arithmetic form x element size x index type against compileE / '
                 'compileX / compileJ / scaleCode (non-trivial = more than 12 lines); pointer scaling with byte offsets beyond 2^31 and 2^32 (non-trivial = '
                 '|offset| >= 2^31); members / subscripts / dereferences read, assigned, compound-assigned: text of generated functions '
                 'against compileL and a three-way oracle on the objects afterwards; every modelled instruction sequence (incl. lea, mov $imm) and every conditional jump after cmp / test against the host CPU.')
    known_witness(ctx, corr)
    check_sequences(ctx, corr)
    if not corr.disagreements:
        check_compile(ctx, corr, 700 if not ctx.thorough else 12000)
    if not corr.disagreements:
        check_pointer_text(ctx, corr)
    if not corr.disagreements:
        check_lvalues(ctx, corr, 400 if not ctx.thorough else 6000)
    if not corr.disagreements:
        check_lvalue_nests(ctx, corr, 400 if not ctx.thorough else 6000)
    check_cpu(ctx, corr, 60 if not ctx.thorough else 1500)
    if corr.disagreements:
        return
    K = 8 if not ctx.thorough else 16
    if run_tests(ctx, corr, load_corpus(), 'corpus'):
        return
    if run_tests(ctx, corr, gen_depth1(ctx, K), 'depth1'):
        return
    if run_tests(ctx, corr, gen_contexts(ctx, 2 if not ctx.thorough else 12), 'context'):
        return
    if run_tests(ctx, corr, gen_random(ctx, 8000 if not ctx.thorough else 120000), 'nest'):
        return
    run_pointers(ctx, corr, 2 if not ctx.thorough else 20)
    run_pointer_scaling(ctx, corr, 2 if not ctx.thorough else 40)
    run_lvalue_oracle(ctx, corr, 1500 if not ctx.thorough else 15000)
    run_lvalue_nests(ctx, corr, 1500 if not ctx.thorough else 15000)
    corr.extra['exhaustive_subspace'] = ('operators x 9x9 operand type pairs x ' + ('all boundary x boundary value pairs' if ctx.thorough else 'sampled boundary/random value pairs') + '; 81 cast pairs and 4 unary operators x all boundary values; every instruction sequence of the model on the CPU')

def search(ctx, broken, corr):
    """a proof or a tie broke and the standard run saw no violation: push the end-to-end oracle harder"""
    c2 = Corr()
    for rounds in range(3):
        if run_tests(ctx, c2, gen_depth1(ctx, 40), 'search-depth1') or run_tests(ctx, c2, gen_contexts(ctx, 6), 'search-context') \
           or run_tests(ctx, c2, gen_random(ctx, 20000), 'search-nest'):
            break
    run_pointers(ctx, c2, 6)
    run_pointer_scaling(ctx, c2, 8)
    run_lvalue_oracle(ctx, c2, 6000)
    run_lvalue_nests(ctx, c2, 6000)
    corr.evaluations += c2.evaluations
    for v in c2.violations:
        if not v.get('known_id'):
            return v
    return None

def replay(ctx, corr, path):
    payload = json.load(open(path))
    t = payload.get('test')
    if payload.get('ptr_scale'):
        run_pointer_scaling(ctx, corr, 0, only=payload['ptr_scale'])
        print('replay:', 'still fails: ' + json.dumps(corr.violations[-1]['got']) if corr.violations else 'pointer arithmetic now has the C11 value')
        return
    if not t:
        corr.extra['replay'] = 'replay file carries no generated test (proof/tie break without failing input)'
        print('replay: nothing to run')
        return
    n = run_tests(ctx, corr, [unpack(t)], 'replay')
    print('replay:', 'still fails: ' + json.dumps(corr.violations[-1]['got']) if corr.violations else 'expression now has the C11 value and type')

MANIFEST = {
    'level_text': 'Lean 4 theorems, each for all operand values / all 2^64 register contents: the regenerated get_common_type equals '
                  'C11 6.3.1.8 on every pair of the nine integer types (and enum, pointer arms) and the regenerated add_type table '
                  'gives every operator the C11 operand conversions and result type (C01_common_type*, C01_op_type, C01_unop_type); '
                  'every integer cell of the regenerated cast table and the _Bool conversion turn a register representing v into one '
                  'representing the C11-converted value (C01_cast, 81 pairs); every emitted operator sequence - add/sub/imul/and/or/xor '
                  'at 32/64 bits, cdq;idiv, cqo;idiv, mov $0,%edx;div, shl/shr/sar %cl, cmp+setcc+movzb for == != < <= signed and '
                  'unsigned, neg, not, cmp;sete - runs without CPU fault and leaves the C11 result whenever C11 defines it '
                  '(C01_binop, C01_shift, C01_unop, C01_unary_full, C01_lognot); sign/zero-extending loads and truncating stores '
                  'against byte-addressed memory (C01_load, C01_store); postfix ++/-- value formula for every type except _Bool '
                  '(C01_incdec_partial; _Bool bit-fields / _Atomic _Bool are known finding C01-bool-postfix-incdec with a kernel-checked witness); '
                  'COMPOSITION, by induction on the expression tree through the push/pop stack discipline over byte-addressed memory: '
                  'every side-effect-free expression of arbitrary nesting (C01_value), every expression with , = the ten op= and '
                  'prefix/postfix ++ -- on variables, including the hidden pointer temporaries of parse.c and the swap of evaluation '
                  'order under the C11 no-conflict condition (C01_value_effects; frame hypothesis discharged from offsets by C01_layout), '
                  'and EVERY expression of the type E incl. && || ?: (C01_value_full: code with labels and jumps over a small-step machine '
                  'with label resolution by position; freshness of the count() labels C01_labels_fresh; termination within code-length '
                  'steps because every jump is forward; short-circuit evaluation: side effects of unevaluated operands do not happen) '
                  'leaves %rax representing the C11 value in the C11 type, the frame holding the C11 store, %rsp/%rbp and all other '
                  'memory at or above %rsp unchanged; pointer arithmetic scales the index by a 64-bit multiplication of the '
                  'sign/zero-extended index for every index type and value (C01_ptr_scale, C01_ptr_add, C01_ptr_diff); p += e, p -= e, '
                  '++p, --p, p++, p-- through the hidden pointer temporary store and yield the C11 address (C01_ptr_opassign, '
                  'C01_ptr_postfix); an lvalue s.m / a[i] / *p / p->m / p[i] (any nesting, index any expression) read, assigned or '
                  'compound-assigned at the root of an expression behaves as on the variable it designates - gen_addr computes the '
                  'C11 address, the member rewriting of op= included (C01_lvalue_load, C01_lvalue_assign, C01_lvalue_opassign); and '
                  'C01_value_full holds with such lvalues ANYWHERE in the expression (operands, =, op=, ++ --) when their address '
                  'computations are side-effect-free and do not depend on a variable the expression assigns (C01_value_lvalues; '
                  'C01_value_lvalues_extends: with plain variables it is C01_value_full).  Tied every run '
                  'by translators (tables), asm-text equality of 1,458 one-operator functions, of generated expression trees and of 550+ pointer-arithmetic functions with chibicc -S, CPU execution of every '
                  'modelled sequence, and a three-way chibicc / Spec / gcc oracle on generated expression programs in every context.',
    'level_note': 'Not proved: postfix ++/-- on _Bool objects (two temporaries), '
                  'lvalues with side effects in their address computation (a[i++]) or depending on an assigned variable when not the '
                  'root of the expression, bit-field members, the typing function elab of parse.c as a whole (its table is proved: C01_op_type): '
                  'covered by the text ties and the end-to-end oracle (testing). '
                  'Trusted: Spec/IntSpec (validated against gcc), Model/X86 (validated against the CPU), Model/C01Codegen (asm text tie).',
    'technique': 'Lean 4 bit-vector proofs (simp + omega over toNat/toInt, no bv_decide/native_decide) over regenerated tables; '
                 'whole-table decide; asm-text, CPU and three-way differential ties',
    'design_ref': 'DESIGN.md section 6, C01',
}
