"""C06 - signature generator, psABI layout of the test types, C text of caller/callee pairs, expected logs.

Used by checklib/C06.py.  Everything here is independent of chibicc: layouts follow psABI 3.1.2 (natural alignment)
and are re-validated by every compiler through _Static_assert in the emitted header.

A test case ("signature") is  Sig(ret, params, n_named, variadic, depth):
  ret      Ty or None (void)
  params   argument types (named parameters first, then the variadic arguments, already of promoted type)
  depth    number of 8-byte slots already pushed by an enclosing call when the call is made (0..2)
"""
import struct

MASK64 = (1 << 64) - 1


class Ty:
    def __init__(self, k, **kw):
        self.k = k                # 'int' 'flt' 'dbl' 'ldbl' 'agg' 'arr'
        self.cname = kw.get('cname')
        self.size = kw.get('size')
        self.align = kw.get('align')
        self.uns = kw.get('uns', False)
        self.isbool = kw.get('isbool', False)
        self.isunion = kw.get('isunion', False)
        self.members = kw.get('members')      # [(name, Ty, offset, member_alignas)]
        self.elem = kw.get('elem')
        self.n = kw.get('n')
        self.tag = kw.get('tag')
        self.packed = kw.get('packed', False)

    # ------------------------------------------------------------ text for the Lean driver
    def lean(self):
        if self.k == 'int':
            return 'b' if self.isbool else ('u' if self.uns else 'i') + str(self.size)
        if self.k == 'flt':
            return 'f'
        if self.k == 'dbl':
            return 'd'
        if self.k == 'ldbl':
            return 'ld'
        if self.k == 'arr':
            return f'[ {self.n} {self.elem.lean()} ]'
        ms = ' '.join(f'{off} {t.lean()}' for _, t, off, _ in self.members)
        return f"{{ {'u' if self.isunion else 's'} {self.size} {self.align} {ms} }}".replace('  ', ' ')

    def cdecl(self, name):
        if self.k == 'arr':
            return self.elem.cdecl(f'{name}[{self.n}]')
        if self.k == 'agg':
            return f"{'union' if self.isunion else 'struct'} {self.tag} {name}"
        if self.cname.endswith('*'):
            return f'{self.cname}{name}'
        return f'{self.cname} {name}'

    def short(self):
        """compact human-readable spelling (for evidence and replays)"""
        if self.k == 'agg':
            inner = '; '.join((f'_Alignas({al}) ' if al else '') + t.short_decl(n) for n, t, _, al in self.members)
            return ("union" if self.isunion else "struct") + (' __attribute__((packed))' if self.packed else '') + ' {' + inner + ';}'
        if self.k == 'arr':
            return self.elem.short() + f'[{self.n}]'
        return self.cname

    def short_decl(self, n):
        if self.k == 'arr':
            return self.elem.short_decl(f'{n}[{self.n}]')
        return self.short() + ' ' + n

    def key(self):
        return self.short() if self.k == 'agg' else self.lean()


def _int(cname, size, uns=False, isbool=False):
    return Ty('int', cname=cname, size=size, align=size, uns=uns, isbool=isbool)


BOOL = _int('_Bool', 1, True, True)
CHAR = _int('char', 1)
SCHAR = _int('signed char', 1)
UCHAR = _int('unsigned char', 1, True)
SHORT = _int('short', 2)
USHORT = _int('unsigned short', 2, True)
INT = _int('int', 4)
UINT = _int('unsigned int', 4, True)
LONG = _int('long', 8)
ULONG = _int('unsigned long', 8, True)
PTR = _int('char *', 8, True)
FLT = Ty('flt', cname='float', size=4, align=4)
DBL = Ty('dbl', cname='double', size=8, align=8)
LDBL = Ty('ldbl', cname='long double', size=16, align=16)
INTS = [BOOL, CHAR, SCHAR, UCHAR, SHORT, USHORT, INT, UINT, LONG, ULONG, PTR]
SCALARS = INTS + [FLT, DBL, LDBL]


def arr(elem, n):
    return Ty('arr', elem=elem, n=n, size=elem.size * n, align=elem.align)


_tagno = [0]


def agg(members, isunion=False, packed=False, tag=None):
    """members: list of Ty or (Ty, member_alignas).  Offsets by the psABI: each member at the next multiple of its
    alignment (1 when packed); size rounded up to the aggregate's alignment."""
    ms = []
    off = 0
    align = 1
    size = 0
    for i, m in enumerate(members):
        t, al = (m if isinstance(m, tuple) else (m, 0))
        a = 1 if packed else t.align
        if al:
            a = max(a, al)
        align = max(align, a)
        if isunion:
            o = 0
            size = max(size, t.size)
        else:
            o = (off + a - 1) // a * a
            off = o + t.size
            size = off
        ms.append((f'm{i}', t, o, al))
    size = (size + align - 1) // align * align
    if tag is None:
        _tagno[0] += 1
        tag = f'T{_tagno[0]}'
    return Ty('agg', isunion=isunion, members=ms, size=size, align=align, tag=tag, packed=packed)


def struct_of(*members, **kw):
    return agg(list(members), **kw)


def union_of(*members, **kw):
    return agg(list(members), isunion=True, **kw)


# ---------------------------------------------------------------- leaves and values

def leaves(t, path='', off=0):
    """[(path, scalar Ty, absolute offset)]; for a union only the first member of maximal size is followed"""
    if t.k == 'agg':
        if not t.members:
            return []
        if t.isunion:
            best = max(t.members, key=lambda m: m[1].size)
            return leaves(best[1], path + '.' + best[0], off + best[2])
        out = []
        for n, mt, o, _ in t.members:
            out += leaves(mt, path + '.' + n, off + o)
        return out
    if t.k == 'arr':
        out = []
        for i in range(t.n):
            out += leaves(t.elem, path + f'[{i}]', off + i * t.elem.size)
        return out
    return [(path, t, off)]


def all_leaves(t, off=0):
    """every scalar of the member tree with its offset (all union members) - for region predicates"""
    if t.k == 'agg':
        out = []
        for n, mt, o, _ in t.members:
            out += all_leaves(mt, off + o)
        return out
    if t.k == 'arr':
        out = []
        for i in range(t.n):
            out += all_leaves(t.elem, off + i * t.elem.size)
        return out
    return [(t, off)]


def f80_words(v):
    """x87 extended encoding of a (finite, non-zero, exactly representable) python float -> (low 64 bits, high 16 bits)"""
    bits = struct.unpack('<Q', struct.pack('<d', v))[0]
    sign = bits >> 63
    e = (bits >> 52) & 0x7ff
    m = bits & ((1 << 52) - 1)
    assert 0 < e < 0x7ff
    mant = (1 << 63) | (m << 11)
    exp = e - 1023 + 16383
    return mant, (sign << 15) | exp


def leaf_value(t, seq):
    """the distinct value carried by leaf number `seq`: list of 64-bit words as the callee must see them
    (one word; two for long double: 64-bit significand, 16-bit sign+exponent)"""
    h = (seq * 0x9E3779B97F4A7C15 + 0x1234567) & MASK64
    if t.k == 'int':
        if t.isbool:
            return [(h >> 17) & 1]
        v = h | (1 << (8 * t.size - 1)) if seq % 2 else h       # sign bit set on every other leaf
        return [v & ((1 << (8 * t.size)) - 1)]
    if t.k == 'flt':
        v = (seq % 97 + 1) * 1.25 + 0.5
        if seq % 3 == 0:
            v = -v
        return [struct.unpack('<I', struct.pack('<f', v))[0]]
    if t.k == 'dbl':
        v = (seq % 89 + 1) * 2.125 + 0.0625
        if seq % 3 == 1:
            v = -v
        return [struct.unpack('<Q', struct.pack('<d', v))[0]]
    if t.k == 'ldbl':
        v = (seq % 83 + 1) * 3.5 + 0.03125
        if seq % 3 == 2:
            v = -v
        lo, hi = f80_words(v)
        return [lo, hi]
    raise ValueError(t.k)


def c_set(lv, t, words):
    if t.k == 'ldbl':
        return f'{{ unsigned long u_[2] = {{ {words[0]:#x}UL, {words[1]:#x}UL }}; memcpy(&{lv}, u_, 10); }}'
    return f'{{ unsigned long u_ = {words[0]:#x}UL; memcpy(&{lv}, &u_, sizeof({lv})); }}'


def c_rec(lv, t, rid):
    if t.k == 'ldbl':
        return f'{{ unsigned long u_[2] = {{0, 0}}; memcpy(u_, &{lv}, 10); rec({rid}, u_[0]); rec({rid}, u_[1]); }}'
    return f'{{ unsigned long u_ = 0; memcpy(&u_, &{lv}, sizeof({lv})); rec({rid}, u_); }}'


# ---------------------------------------------------------------- signatures

class Sig:
    def __init__(self, ret, params, n_named=None, variadic=False, depth=0, unproto=False):
        self.unproto = unproto
        self.ret = ret
        self.params = list(params)
        self.variadic = variadic
        self.n_named = len(self.params) if n_named is None or not variadic else n_named
        self.depth = depth

    def lean(self):
        r = self.ret.lean() if self.ret else 'v'
        ps = ' ; '.join(p.lean() for p in self.params)
        return f"{self.depth} {1 if self.variadic else 0} {self.n_named} {r} ; {ps}".rstrip().rstrip(';').rstrip()

    def short(self):
        ps = [p.short() for p in self.params]
        if self.variadic:
            ps = ps[:self.n_named] + ['...'] + ps[self.n_named:]
        return f"{self.ret.short() if self.ret else 'void'} f({', '.join(ps) or 'void'})" + (f' @depth{self.depth}' if self.depth else '') + (' @unprototyped-call' if self.unproto else '')

    def key(self):
        return self.short()

    def with_params(self, params, n_named):
        return Sig(self.ret, params, n_named, self.variadic, self.depth, self.unproto)


def agg_types_of(t, acc):
    if t is None:
        return
    if t.k == 'agg':
        for _, mt, _, _ in t.members:
            agg_types_of(mt, acc)
        if t not in acc:
            acc.append(t)
    elif t.k == 'arr':
        agg_types_of(t.elem, acc)


def c_typedefs(sigs):
    """definitions of every aggregate used, in dependency order, with layout assertions"""
    acc = []
    for s in sigs:
        agg_types_of(s.ret, acc)
        for p in s.params:
            agg_types_of(p, acc)
    out = []
    chk = []
    for t in acc:
        kw = 'union' if t.isunion else 'struct'
        body = ' '.join((f'_Alignas({al}) ' if al else '') + mt.cdecl(n) + ';' for n, mt, _, al in t.members)
        out.append(f"{kw} {'__attribute__((packed)) ' if t.packed else ''}{t.tag} {{ {body} }};")
        chk.append((f'sizeof({kw} {t.tag})', t.size))
        chk.append((f'_Alignof({kw} {t.tag})', t.align))
        for n, mt, o, _ in t.members:
            chk.append((f'(unsigned long)&((({kw} {t.tag} *)0)->{n})', o))
    return out, chk


def proto(s, name):
    ps = [p.cdecl(f'p{i}') for i, p in enumerate(s.params[:s.n_named])]
    if s.variadic:
        ps.append('...')
    r = s.ret.cdecl('') if s.ret else 'void '
    return f"{r.strip()} {name}({', '.join(ps) if ps else 'void'})"


COMMON = ('void rec(int id, unsigned long v);\n'
          'void *memcpy(void *, const void *, unsigned long);\n'
          'void *memset(void *, int, unsigned long);\n')


def plan(s, k):
    """assign record ids and values.  Returns (arg_leaves, ret_leaves, expected_log_lines)
    arg_leaves: per parameter [(path, ty, words, rid)]"""
    seq = k * 131 + 1
    rid = 0
    args = []
    exp = []
    for i, p in enumerate(s.params):
        ls = []
        for path, lt, _ in leaves(p):
            w = leaf_value(lt, seq)
            ls.append((path, lt, w, rid))
            for x in w:
                exp.append(f'{k} {rid} {x:x}')
            seq += 1
            rid += 1
        args.append(ls)
    rets = []
    if s.ret is not None:
        for path, lt, _ in leaves(s.ret):
            w = leaf_value(lt, seq)
            rets.append((path, lt, w, rid))
            for x in w:
                exp.append(f'{k} {rid} {x:x}')
            seq += 1
            rid += 1
    return args, rets, exp


def c_callee(s, k):
    args, rets, _ = plan(s, k)
    o = [proto(s, f'f{k}') + ' {']
    o.append(f'  begin({k});')
    if s.variadic:
        o.append('  va_list ap_;')
        last = f'p{s.n_named - 1}'
        o.append(f'  va_start(ap_, {last});')
    for i, p in enumerate(s.params):
        if i >= s.n_named:
            # declaration + assignment: initialising a union from a union-typed expression is a different property (C05)
            o.append(f'  {p.cdecl(f"p{i}")};')
            o.append(f'  p{i} = va_arg(ap_, {p.cdecl("").strip()});')
        for path, lt, w, rid in args[i]:
            o.append('  ' + c_rec(f'p{i}{path}', lt, rid))
    if s.variadic:
        o.append('  va_end(ap_);')
    if s.ret is not None:
        o.append(f'  {s.ret.cdecl("r_")};')
        o.append('  memset(&r_, 0, sizeof(r_));')
        for path, lt, w, rid in rets:
            o.append('  ' + c_set(f'r_{path}', lt, w))
        o.append('  return r_;')
    o.append('}')
    return '\n'.join(o)


def c_caller(s, k):
    args, rets, _ = plan(s, k)
    o = [f'void call{k}(void) {{']
    for i, p in enumerate(s.params):
        o.append(f'  {p.cdecl(f"a{i}")};')
        o.append(f'  memset(&a{i}, 0, sizeof(a{i}));')
        for path, lt, w, rid in args[i]:
            o.append('  ' + c_set(f'a{i}{path}', lt, w))
    call = f"f{k}({', '.join(f'a{i}' for i in range(len(s.params)))})"
    if s.ret is not None:
        o.append(f'  {s.ret.cdecl("r_")};')
        call = f'r_ = {call}'
    if s.depth == 0:
        o.append(f'  {call};')
    else:
        # the call is evaluated while `depth` slots of an enclosing call are pushed
        extra = ', '.join(str(70 + j) for j in range(s.depth))
        o.append(f'  sink{s.depth}((({call}), 69), {extra});')
    for path, lt, w, rid in rets:
        o.append('  ' + c_rec(f'r_{path}', lt, rid))
    o.append('}')
    return '\n'.join(o)


def expected_log(s, k):
    _, _, exp = plan(s, k)
    pre = [f'B {k}']
    if s.depth:
        pre_sink = [f'S {s.depth} ' + ' '.join(str(69 + j) for j in range(s.depth + 1))]
    else:
        pre_sink = []
    nargs = sum(len(leaf_value(lt, 0)) for p in s.params for _, lt, _ in leaves(p))
    return pre + exp[:nargs] + pre_sink + exp[nargs:]


UTIL_C = r'''
#include <stdio.h>
#include <stdlib.h>
#include <stdint.h>
static int cur = -1;
void begin(int k) { cur = k; printf("B %d\n", k); }
void rec(int id, unsigned long v) { printf("%d %d %lx\n", cur, id, v); }
void lay(int who, int idx, unsigned long got, unsigned long want) { if (got != want) printf("LAYOUT %d %d %lu %lu\n", who, idx, got, want); }
void sink1(int a, int b) { printf("S 1 %d %d\n", a, b); }
void sink2(int a, int b, int c) { printf("S 2 %d %d %d\n", a, b, c); }
'''


def emit_files(sigs, first_k=0):
    """returns dict name -> text: types.h, callee.c, caller.c, main.c (main.c is always compiled by gcc)"""
    defs, chk = c_typedefs(sigs)
    hdr = ['#include <stdarg.h>'] + defs + [COMMON, 'void begin(int k);', 'void lay(int who, int idx, unsigned long got, unsigned long want);',
           'void sink1(int, int); void sink2(int, int, int);']
    for i, s in enumerate(sigs):
        hdr.append(f'void call{first_k + i}(void);')
    # every compiler confirms the layout the generator computed (C08 is a different property: a disagreement is
    # reported as LAYOUT and the case is dropped, not counted as a calling-convention failure)
    def layfn(name, who):
        return (f'void {name}(void) {{\n' + '\n'.join(f'  lay({who}, {i}, {e}, {v});' for i, (e, v) in enumerate(chk)) + '\n}')
    def protos(for_caller):
        out = []
        for i, s in enumerate(sigs):
            if for_caller and getattr(s, 'unproto', False):
                r = s.ret.cdecl('') if s.ret else 'void '
                out.append(f'{r.strip()} f{first_k + i}();')        # no prototype: default argument promotions
            else:
                out.append(proto(s, f'f{first_k + i}') + ';')
        return out
    callee = ['#include "types.h"'] + protos(False) + [layfn('layout_callee', 1)] + [c_callee(s, first_k + i) for i, s in enumerate(sigs)]
    caller = ['#include "types.h"'] + protos(True) + [layfn('layout_caller', 0)] + [c_caller(s, first_k + i) for i, s in enumerate(sigs)]
    main = [UTIL_C] + [f'void call{first_k + i}(void);' for i in range(len(sigs))]
    main.append('void layout_caller(void); void layout_callee(void);')
    main.append('int main(void) {')
    main.append('  layout_caller(); layout_callee();')
    for i in range(len(sigs)):
        main.append(f'  call{first_k + i}(); fflush(stdout);')
    main.append('  printf("END\\n"); return 0; }')
    return {'types.h': '\n'.join(hdr) + '\n', 'callee.c': '\n\n'.join(callee) + '\n',
            'caller.c': '\n\n'.join(caller) + '\n', 'main.c': '\n'.join(main) + '\n'}


DUMP_MAIN = r'''
#include <stdio.h>
struct Dump { unsigned long k, gp[6], xmm[8], al, rsp; unsigned char stack[1024]; } dump;
void begin(int k) {}
void rec(int id, unsigned long v) {}
void lay(int who, int idx, unsigned long got, unsigned long want) { if (got != want) printf("LAYOUT %d %d %lu %lu\n", who, idx, got, want); }
void sink1(int a, int b) {}
void sink2(int a, int b, int c) {}
void layout_caller(void);
static void dump_print(void) {
  printf("D %lu", dump.k >> 1);
  for (int i = 0; i < 6; i++) printf(" %lx", dump.gp[i]);
  for (int i = 0; i < 8; i++) printf(" %lx", dump.xmm[i]);
  printf(" %lx %lx ", dump.al & 0xff, dump.rsp & 15);
  for (int i = 0; i < 1024; i++) printf("%02x", dump.stack[i]);
  printf("\n");
}
'''

DUMP_ASM = r'''
  .text
dumpregs:
  mov %r11, dump(%rip)
  mov %rdi, dump+8(%rip)
  mov %rsi, dump+16(%rip)
  mov %rdx, dump+24(%rip)
  mov %rcx, dump+32(%rip)
  mov %r8, dump+40(%rip)
  mov %r9, dump+48(%rip)
  movq %xmm0, dump+56(%rip)
  movq %xmm1, dump+64(%rip)
  movq %xmm2, dump+72(%rip)
  movq %xmm3, dump+80(%rip)
  movq %xmm4, dump+88(%rip)
  movq %xmm5, dump+96(%rip)
  movq %xmm6, dump+104(%rip)
  movq %xmm7, dump+112(%rip)
  mov %rax, dump+120(%rip)
  mov %rsp, dump+128(%rip)
  lea 8(%rsp), %rsi
  lea dump+136(%rip), %rdi
  mov $1024, %ecx
  rep movsb
  mov dump+8(%rip), %rax
  testb $1, dump(%rip)
  jz 1f
  fldz
1:
  ret
'''


def emit_dump_files(sigs, first_k=0):
    """caller.c as in emit_files; the callees are assembly stubs that record every argument register, al, rsp and
    256 bytes of stack (dump.s), printed by main.c after each call"""
    fs = emit_files(sigs, first_k)
    stubs = []
    for i, s in enumerate(sigs):
        k = first_k + i
        isld = 1 if (s.ret is not None and s.ret.k == 'ldbl') else 0
        stubs.append(f'  .globl f{k}\nf{k}:\n  mov ${k * 2 + isld}, %r11d\n  jmp dumpregs\n')
    main = [DUMP_MAIN] + [f'void call{first_k + i}(void);' for i in range(len(sigs))]
    main.append('int main(void) {')
    main.append('  layout_caller();')
    for i in range(len(sigs)):
        main.append(f'  call{first_k + i}(); dump_print(); fflush(stdout);')
    main.append('  printf("END\\n"); return 0; }')
    return {'types.h': fs['types.h'], 'caller.c': fs['caller.c'], 'main.c': '\n'.join(main) + '\n',
            'dump.s': DUMP_ASM + '\n'.join(stubs) + '\n  .section .note.GNU-stack,"",@progbits\n'}


RET_MAIN = r'''
#include <stdio.h>
struct RetDump { unsigned long k, rax, rdx, xmm0, xmm1, st0[2]; } rd;
unsigned char retbuf[512];
void *memcpy(void *, const void *, unsigned long);
void *memset(void *, int, unsigned long);
static void ret_print(void) {
  printf("R %lu %lx %lx %lx %lx %lx %lx %d ", rd.k, rd.rax, rd.rdx, rd.xmm0, rd.xmm1, rd.st0[0], rd.st0[1] & 0xffff, rd.rax == (unsigned long)retbuf);
  for (int i = 0; i < 512; i++) printf("%02x", retbuf[i]);
  printf("\n");
}
'''


def emit_ret_files(sigs, st0_flags, first_k=0):
    """ret_callee.c: one function per signature that only builds and returns the value; retdump.s: stubs that call it with a
    hidden-pointer candidate in rdi and record rax, rdx, xmm0, xmm1 (and st0 when `st0_flags[i]`); main.c prints"""
    defs, _ = c_typedefs(sigs)
    callee = list(defs) + [COMMON]
    stubs = ['  .text']
    main = [RET_MAIN]
    calls = []
    for i, s in enumerate(sigs):
        k = first_k + i
        _, rets, _ = plan(s, k)
        callee.append(f'{s.ret.cdecl("").strip()} r{k}(void) {{')
        callee.append(f'  {s.ret.cdecl("r_")};')
        callee.append('  memset(&r_, 0, sizeof(r_));')
        for path, lt, w, rid in rets:
            callee.append('  ' + c_set(f'r_{path}', lt, w))
        callee.append('  return r_;\n}')
        stubs.append(f'  .globl callr{k}\ncallr{k}:\n  sub $8, %rsp\n  movq ${k}, rd(%rip)\n  lea retbuf(%rip), %rdi\n  call r{k}\n'
                     f'  mov %rax, rd+8(%rip)\n  mov %rdx, rd+16(%rip)\n  movq %xmm0, rd+24(%rip)\n  movq %xmm1, rd+32(%rip)\n'
                     + ('  fstpt rd+40(%rip)\n' if st0_flags[i] else '') + '  add $8, %rsp\n  ret\n')
        main.append(f'void callr{k}(void);')
        calls.append(f'  memset(retbuf, 0, sizeof retbuf); memset(&rd, 0, sizeof rd); callr{k}(); ret_print(); fflush(stdout);')
    main.append('int main(void) {')
    main += calls
    main.append('  printf("END\\n"); return 0; }')
    stubs.append('  .section .note.GNU-stack,"",@progbits')
    return {'ret_callee.c': '\n'.join(callee) + '\n', 'retdump.s': '\n'.join(stubs) + '\n', 'ret_main.c': '\n'.join(main) + '\n'}


def emit_tie_files(sigs, first_k=0):
    """sources for the asm-text tie: tie_caller.c (one function per signature that only makes the call, arguments are
    global variables) and tie_callee.c (takes the address of every parameter, returns a global)"""
    defs, _ = c_typedefs(sigs)
    caller = list(defs) + ['extern int h0, h1, h2;', 'void sink1(int, int); void sink2(int, int, int);']
    callee = list(defs) + ['extern void *sink;']
    for i, s in enumerate(sigs):
        k = first_k + i
        caller.append(proto(s, f'f{k}') + ';')
        for j, p in enumerate(s.params):
            caller.append('extern ' + p.cdecl(f'g{k}_{j}') + ';')
        call = f"f{k}({', '.join(f'g{k}_{j}' for j in range(len(s.params)))})"
        if s.depth == 0:
            caller.append(f'void caller{k}(void) {{ {call}; }}')
        else:
            extra = ', '.join(f'h{j + 1}' for j in range(s.depth))
            caller.append(f'void caller{k}(void) {{ sink{s.depth}((({call}), h0), {extra}); }}')
        body = [f'sink = &p{j};' for j in range(s.n_named)]
        if s.ret is not None:
            callee.append('extern ' + s.ret.cdecl(f'gret{k}') + ';')
            body.append(f'return gret{k};')
        callee.append(proto(s, f'f{k}') + ' { ' + ' '.join(body) + ' }')
    return {'tie_caller.c': '\n'.join(caller) + '\n', 'tie_callee.c': '\n'.join(callee) + '\n'}


# ---------------------------------------------------------------- random generation

def rand_small_agg(rng, cls=None, allow_ld=False, allow_odd=False):
    """an aggregate of at most 16 bytes with a chosen mix.  cls in
       'II' 'SS' 'IS' 'SI' 'I' 'S' (eightbyte classes) or None (random shape)"""
    def int8():
        return rng.choice([[LONG], [ULONG], [PTR], [INT, INT], [INT, UINT], [SHORT, SHORT, INT], [CHAR, SHORT, INT],
                           [arr(CHAR, 8)], [arr(SHORT, 4)], [INT, FLT], [FLT, INT], [CHAR, FLT], [arr(UCHAR, 5)],
                           [INT, SHORT, CHAR], [BOOL, CHAR, USHORT, FLT]])
    def sse8():
        return rng.choice([[DBL], [FLT, FLT], [arr(FLT, 2)]])
    def int_tail():
        return rng.choice([[LONG], [INT], [CHAR], [SHORT], [INT, INT], [arr(CHAR, 3)], [INT, CHAR], [PTR], [FLT, INT], [INT, FLT]])
    def sse_tail():
        return rng.choice([[DBL], [FLT], [FLT, FLT]])
    if cls is None:
        cls = rng.choice(['II', 'SS', 'IS', 'SI', 'I', 'S', 'I', 'S'])
    if cls == 'I':
        ms = rng.choice([[INT], [CHAR], [SHORT], [LONG], [arr(CHAR, 3)], [INT, FLT], [arr(CHAR, 7)], [PTR], [SHORT, CHAR],
                         [BOOL], [UINT, SHORT], [arr(SHORT, 3)], [FLT, CHAR]])
    elif cls == 'S':
        ms = rng.choice([[FLT], [DBL], [FLT, FLT], [arr(FLT, 2)]])
    else:
        first = int8() if cls[0] == 'I' else sse8()
        second = int_tail() if cls[1] == 'I' else sse_tail()
        ms = first + second
    # sometimes nest a part
    if len(ms) >= 2 and rng.random() < 0.3:
        i = rng.randrange(len(ms))
        ms[i] = agg([ms[i]], isunion=rng.random() < 0.3)
    if rng.random() < 0.12 and cls in ('I', 'S', 'II', 'SS'):
        # a union over the same shape
        alt = {'I': [LONG], 'S': [DBL], 'II': [arr(LONG, 2)], 'SS': [arr(DBL, 2)]}[cls]
        return union_of(agg(ms), *alt)
    return agg(ms)


def rand_big_agg(rng):
    kind = rng.randrange(5)
    if kind == 0:
        return agg([LONG, LONG, rng.choice([CHAR, INT, LONG, DBL])])
    if kind == 1:
        return agg([arr(rng.choice([CHAR, INT, DBL]), rng.choice([17, 5, 9]) if True else 3)] + [DBL, DBL])
    if kind == 2:
        return agg([DBL, DBL, FLT])
    if kind == 3:
        return union_of(arr(LONG, 3), DBL)
    # sizes of every residue modulo 8 (copies by pieces of 8/4/2/1 bytes have a tail case per residue)
    x = rng.random()
    if x < 0.5:
        return agg([arr(CHAR, rng.choice([17, 24, 33, 100] + list(range(17, 41))))])
    if x < 0.75:
        return agg([arr(CHAR, rng.choice([1, 2, 3, 5, 7])), arr(CHAR, rng.choice([16, 17, 20, 30, 32]))])
    return agg([arr(SHORT, rng.choice([9, 11, 13, 15, 17]))] + ([CHAR] if rng.random() < 0.3 else []))


def empty_agg(rng):
    """the GNU empty struct / union (size 0): takes no register and no stack slot"""
    return agg([], isunion=rng.random() < 0.3)


def rand_param(rng, weights=None):
    x = rng.random()
    if x < 0.04:
        return empty_agg(rng)
    if x < 0.30:
        return rng.choice(INTS)
    if x < 0.48:
        return rng.choice([FLT, DBL, DBL])
    if x < 0.56:
        return LDBL
    if x < 0.90:
        return rand_small_agg(rng)
    return rand_big_agg(rng)


def promote(t):
    if t.k == 'flt':
        return DBL
    if t.k == 'int' and t.size < 4:
        return INT
    return t


def rand_ret(rng):
    x = rng.random()
    if x < 0.03:
        return empty_agg(rng)
    if x < 0.12:
        return None
    if x < 0.40:
        return rng.choice(INTS)
    if x < 0.52:
        return rng.choice([FLT, DBL])
    if x < 0.58:
        return LDBL
    if x < 0.90:
        return rand_small_agg(rng)
    return rand_big_agg(rng)
