"""C02: chains of conversions (used by checklib/C02.py).

Two legs over what `gen_expr` does with NESTED `ND_CAST` nodes (explicit casts and the conversions parse.c inserts):

  run_chain_tie     model <-> code, text: generated chains of 1-4 conversions over all twelve arithmetic types in three
                    contexts (`return`, assignment to a global, the arms of `?:`) are compiled with `chibicc -S` (many functions
                    per file); the instruction lines of each function must equal what `drv_c02 seq` renders from
                    Model/FpChain.lean (`fnChainRet`, `fnChainAssign`, `fnChainCond`: one `cast()` per node, nothing elided).
                    This is what ties `C02_cast_chain` to the code: any peephole in the ND_CAST arm changes the text.
  run_chain_oracle  end to end, chibicc <-> gcc <-> python spec: generated chains of 2-4 conversions, explicit and implicit
                    (initialisation, `return`, argument passing, `?:` with mixed operand types, compound assignment), executed on
                    boundary values per link (just above 2^24 / 2^53 / 2^63, 2^64-1, negatives, sticky-bit patterns); the result
                    bytes must agree.  The spec is the composition of `c02_oracle.spec_convert` in order; a chain with an
                    undefined link is dropped and counted.
"""
import os, re
from fractions import Fraction
from concurrent.futures import ThreadPoolExecutor
from .framework import *
from .c02_fp import *
from . import c02_oracle as O

A = O.ATYS
RANK = {'f32': 1, 'f64': 2, 'f80': 3}


def usual(t1, t2):
    """C11 6.3.1.8 on the type names of c02_oracle"""
    fs = [t for t in (t1, t2) if t in FMT]
    if fs:
        return max(fs, key=lambda t: RANK[t])

    def prom(t):
        return t if t in ('u32', 'i64', 'u64') else 'i32'
    a, b = prom(t1), prom(t2)
    if a == b:
        return a
    order = ['i32', 'u32', 'i64', 'u64']
    if {a, b} == {'u32', 'i64'}:
        return 'i64'
    return max(a, b, key=order.index)


def cast_expr(ts, operand, typedefs=False):
    """`(Tn)...(T1)operand`"""
    e = operand
    for t in ts:
        e = f'({"T_" + t if typedefs else O.CNAME[t]}){e}'
    return e


# -------------------------------------------------------------------------------------------------- text tie

def tie_shapes(ctx):
    """[(kind, ...)]: ('ret', t0, [t1..tn], ret) | ('asg', t0, [t1..tn], tg) | ('cond', ta, t1, tb, t2, ret)"""
    rng = ctx.rng
    out = []
    # R f(void) { return (T1)a; }: one explicit and one implicit conversion, every triple (includes every same-type round trip)
    for t0 in A:
        for t1 in A:
            for r in A:
                out.append(('ret', t0, [t1], r))
    # T2 f(void) { return (T2)(T1)a; }: two explicit conversions
    triples = [(t0, t1, t2) for t0 in A for t1 in A for t2 in A]
    for t0, t1, t2 in (triples if ctx.thorough else rng.sample(triples, 500)):
        out.append(('ret', t0, [t1, t2], t2))
    # g = (T1)a with g of the type of a (round trip through an assignment), and other targets
    for t0 in A:
        for t1 in A:
            out.append(('asg', t0, [t1], t0))
    for t0, t1, t2 in (triples if ctx.thorough else rng.sample(triples, 300)):
        if t2 != t0:
            out.append(('asg', t0, [t1], t2))
    # longer chains
    for _ in range(4000 if ctx.thorough else 300):
        n = rng.choice([2, 3, 3, 4])
        t0 = rng.choice(A)
        ts = [rng.choice(A) for _ in range(n)]
        if rng.random() < 0.5:
            # steer towards round trips: the same type two steps apart
            k2 = rng.randrange(0, n - 1)
            ts[k2 + 1] = t0 if k2 == 0 else ts[k2 - 1]
        out.append((rng.choice(['ret', 'asg']), t0, ts, rng.choice(A)))
    # c ? (T1)a : (T2)b
    for _ in range(3000 if ctx.thorough else 300):
        ta, t1, tb, t2, r = (rng.choice(A) for _ in range(5))
        if rng.random() < 0.4:
            r = ta
        out.append(('cond', ta, t1, tb, t2, r))
    return out


def tie_source(k, shape):
    C = O.CNAME
    if shape[0] == 'ret':
        _, t0, ts, r = shape
        return f'{C[t0]} a{k};\n{C[r]} f{k}(void) {{ return {cast_expr(ts, f"a{k}")}; }}\n'
    if shape[0] == 'asg':
        _, t0, ts, g = shape
        return f'{C[t0]} a{k};\n{C[g]} g{k};\nint f{k}(void) {{ g{k} = {cast_expr(ts, f"a{k}")}; return 0; }}\n'
    _, ta, t1, tb, t2, r = shape
    return (f'int c{k};\n{C[ta]} a{k};\n{C[tb]} b{k};\n'
            f'{C[r]} f{k}(void) {{ return c{k} ? ({C[t1]})a{k} : ({C[t2]})b{k}; }}\n')


def function_bodies(text):
    """{function name: instruction lines between the prologue and the final `jmp .L.return.<name>`} (comments stripped)"""
    lines = [l for l in text.splitlines() if not re.match(r'\s*\.(loc|file)\b', l)]
    pos = {l[:-1]: i for i, l in enumerate(lines) if re.fullmatch(r'f\d+:', l)}
    out = {}
    for name, i in pos.items():
        try:
            j = lines.index(f'.L.return.{name}:', i)
        except ValueError:
            continue
        body = lines[i + 1:j]
        if len(body) < 5 or body[:2] != ['  push %rbp', '  mov %rsp, %rbp'] or not re.fullmatch(r'  sub \$\d+, %rsp', body[2]) \
                or body[3] != '  mov %rsp, -8(%rbp)' or body[-1] != f'  jmp .L.return.{name}':
            continue
        out[name] = [re.sub(r'\s+#.*$', '', l) for l in body[4:-1]]
    return out


def run_chain_tie(ctx, corr):
    shapes = tie_shapes(ctx)
    d = os.path.join(ctx.scratch, 'chaintie')
    os.makedirs(d, exist_ok=True)
    per = 150
    chunks = [list(range(i, min(i + per, len(shapes)))) for i in range(0, len(shapes), per)]

    def one(ci):
        src = os.path.join(d, f'c{ci}.c')
        with open(src, 'w') as f:
            f.write(''.join(tie_source(k, shapes[k]) for k in chunks[ci]))
        return sh([ctx.cc, '-S', '-o', '-', src], timeout=120)
    with ThreadPoolExecutor(NPROC) as ex:
        outs = list(ex.map(one, range(len(chunks))))
    impl = {}
    for ci, (rc, o, e) in enumerate(outs):
        if rc != 0:
            corr.violations.append({'what': 'chibicc -S fails on functions that only convert a global', 'expected': 'assembly', 'got': e[-300:],
                                    'input': ''.join(tie_source(k, shapes[k]) for k in chunks[ci])[:3000]})
            return
        impl.update(function_bodies(o))
    specs = []
    bodies = []
    for k, sh_ in enumerate(shapes):
        body = impl.get(f'f{k}')
        if body is not None:
            body = [re.sub(r'\b([abcg])%d\(%%rip\)' % k, r'\1(%rip)', l) for l in body]
        bodies.append(body)
        if sh_[0] in ('ret', 'asg'):
            specs.append(f'{"chainret" if sh_[0] == "ret" else "chainasg"} {sh_[1]} {" ".join(sh_[2])} {sh_[3]}')
        else:
            n = 0
            for l in body or []:
                m = re.fullmatch(r'  je \.L\.else\.(\d+)', l)
                if m:
                    n = int(m.group(1))
                    break
            specs.append(f'chaincond {sh_[1]} {sh_[2]} {sh_[3]} {sh_[4]} {sh_[5]} {n}')
    model = ctx.driver('seq', ''.join(s + '\n' for s in specs)).splitlines()
    if len(model) != len(specs):
        corr.disagreements.append({'kind': 'chain tie', 'what': f'driver printed {len(model)} lines for {len(specs)} specs'})
        return
    bad = 0
    for k, (spec, body) in enumerate(zip(specs, bodies)):
        corr.evaluations += 1
        corr.count('chaintie:' + shapes[k][0])
        corr.nontrivial.add('chaintie ' + spec)
        mod = [] if model[k] == 'empty' else (None if model[k] == 'none' else model[k].split(';;'))
        if body is None or mod is None or body != mod:
            bad += 1
            if bad <= 3:
                j = 0
                if body and mod:
                    j = next((j for j in range(min(len(body), len(mod))) if body[j] != mod[j]), min(len(body), len(mod)))
                corr.disagreements.append({
                    'kind': 'chain tie (gen_expr ND_CAST: one cast() per node)', 'spec': spec, 'source': tie_source(k, shapes[k]),
                    'impl': (body[j] if body and j < len(body) else '<end>') if body is not None else 'unrecognised function shape',
                    'model': (mod[j] if mod and j < len(mod) else '<end>') if mod is not None else 'none', 'line': j,
                    'impl_lines': len(body or []), 'model_lines': len(mod or [])})
    if bad:
        corr.count('chaintie_mismatch', bad)
    corr.sample({'chain tie': {'functions': len(shapes), 'example': specs[len(specs) // 2], 'model': model[len(specs) // 2][:200]}})


# -------------------------------------------------------------------------------------------------- oracle

P = lambda k: 1 << k
CORE_INT = [0, 1, -1, 2, 127, 128, 255, 256, -128, -129, 32767, 32768, 65535, 65536, -32768,
            P(24) - 1, P(24), P(24) + 1, P(24) + 3, P(25) + 2, P(25) + 6, -(P(24) + 1), -(P(24) + 3), 0xF0000001, P(31) - 1, P(31) - 64, P(31) - 65,
            -P(31), -P(31) + 1, P(31), P(31) + 129, P(32) - 1, P(32) - 128, P(32) - 129, P(32) + 1, P(53) - 1, P(53), P(53) + 1, P(53) + 3, P(54) + 2, P(54) + 6,
            -(P(53) + 1), -(P(53) + 3), P(62) + P(38) + 1, P(63) - 1, P(63) - 512, P(63) - 513, P(63) - P(39), P(63) - P(39) - 1, -P(63), -P(63) + 1,
            -(P(63) - P(39) - 1), P(63), P(63) + 1, P(63) + P(10), P(63) + P(10) + 1, P(63) + P(11) + P(10), P(63) + P(39), P(63) + P(39) + 1,
            P(63) + P(40) + P(39), P(64) - 1, P(64) - P(10), P(64) - P(10) - 1, P(64) - P(11), P(64) - P(39) - 1, P(64) - P(40), 0x8000008000000001,
            1000000007, -123456789012345678]


def core_fp(fmt):
    F = Fraction
    p = FMT[fmt]['p']
    u = pow2(64 - p)
    xs = [F(0), F(1, 2), F(3, 2), F(5, 2), F(255, 2), F(511, 2), F(65535, 2), 1 + pow2(-23), 1 + pow2(-24), 1 + pow2(-24) + pow2(-52), 1 + pow2(-52),
          1 + pow2(-53), 1 + pow2(-53) + pow2(-63), 1 + pow2(-63), F(1, 3), F(1, 10), pow2(24), pow2(24) + 1, pow2(24) + 2, pow2(24) + 3,
          pow2(31) - 128, pow2(31) - 1, pow2(31) - F(1, 2), pow2(31), pow2(31) + 256, pow2(32) - 256, pow2(32) - 1, pow2(32) - F(1, 2), pow2(32),
          pow2(53) - 1, pow2(53), pow2(53) + 1, pow2(53) + 2, pow2(53) + 3, pow2(63) - u, pow2(63) - u / 2, pow2(63), pow2(63) + u, pow2(63) * F(3, 2),
          pow2(64) - 2 * u, pow2(64) - u, pow2(64), pow2(100), pow2(127) * (2 - pow2(-23)), pow2(127) * (2 - pow2(-24)), pow2(128), pow2(-126), pow2(-149),
          pow2(-150), pow2(-150) * 3, pow2(1023) * (2 - pow2(-52)), pow2(1023) * (2 - pow2(-53)), pow2(1024), pow2(-1074), pow2(-1075), pow2(-1075) * 3,
          F(10) ** 10 / 3, F(16777217), F(9007199254740993), F(4026531841)]
    vals = []
    for x in xs:
        for s in (0, 1):
            b = round_bits(fmt, s, x)
            if b not in vals:
                vals.append(b)
    for s in (0, 1):
        for b in (inf_bits(fmt, s), qnan_bits(fmt, s, 0x1234), snan_bits(fmt, s, 1)):
            vals.append(b)
    return vals


def chain_spec(t0, ts, v):
    """compose spec_convert: -> ('ub',) | ('int', v) | ('bits', b) | ('hw',)"""
    cur_t, cur = t0, v
    nan = False
    for t in ts:
        if nan:
            # a NaN whose payload the hardware chose: still a NaN
            if t == 'bool':
                sp = ('int', 1)
                nan = False
            elif t in O.ITYS:
                return ('ub',)
            else:
                sp = ('hw',)
        else:
            sp = O.spec_convert(cur_t, t, cur)
        if sp[0] == 'ub':
            return sp
        if sp[0] == 'hw':
            nan = True
        else:
            cur = sp[1]
        cur_t = t
    return ('hw',) if nan else sp


OPASSIGN = [('+=', '0.0f', 'f32', Fraction(0)), ('+=', '0.5f', 'f32', Fraction(1, 2)), ('-=', '0.5', 'f64', Fraction(1, 2)),
            ('*=', '1.0L', 'f80', Fraction(1)), ('+=', '0.25L', 'f80', Fraction(1, 4)), ('*=', '1.0f', 'f32', Fraction(1)),
            ('+=', '0.0', 'f64', Fraction(0)), ('*=', '0.5f', 'f32', Fraction(1, 2))]


def opassign_spec(t0, op, ct, c, v):
    """`x OP= C` with x : t0 holding v and the constant C of floating type: (T0)((CT)x OP (CT)C), CT = usual(t0, type of C)"""
    sp = O.spec_convert(t0, ct, v)
    if sp[0] != 'bits':
        return ('skip',)
    d = decode(ct, sp[1])
    if d[0] != 'fin':
        return ('skip',)
    x = -d[2] if d[1] else d[2]
    if op == '+=':          # c >= 0: a zero sum is +0 (x = -0 and c = +0 included)
        r = x + c
        s = 1 if r < 0 else 0
    elif op == '-=':        # x + (-c): a zero result is -0 only for (-0) - (+0)
        r = x - c
        s = (1 if r < 0 else 0) if r != 0 else (1 if (d[1] and c == 0) else 0)
    else:                   # c > 0
        r = x * c
        s = d[1]
    bits = round_bits(ct, s, abs(r))
    return O.spec_convert(ct, t0, bits)


def lean_evaluable(shape):
    """can `drv_c02 chainval` (Spec.FpC11.convertChain on the toy FPU) give the value?  Integer source, integer result, and no link
    that narrows a floating type (FpuSpec has no contract on the value of a narrowing)"""
    c, t0, ts, _ = shape
    if c == 'opassign' or t0 not in O.ITYS or ts[-1] not in O.ITYS:
        return False
    prev = t0
    for t in ts:
        if prev in FMT and t in FMT and RANK[t] < RANK[prev]:
            return False
        prev = t
    return True


def oracle_shapes(ctx):
    """[(ctx, t0, ts, extra)]: the conversions performed are t0 -> ts[0] -> ... -> ts[-1]"""
    rng = ctx.rng
    out = []
    CT4 = ['cast', 'init', 'ret', 'arg']
    # every round trip T -> F -> T in every context (quick: the context rotates, the interesting ones in all four)
    k = 0
    for t0 in A:
        for t1 in A:
            if t0 == t1:
                continue
            hot = (t0 in O.ITYS and t1 in FMT and O.IBITS[t0] >= 32) or (t0 in FMT and t1 in FMT)
            for c in (CT4 if (ctx.thorough or hot) else [CT4[k % 4]]):
                out.append((c, t0, [t1, t0], None))
            k += 1
    # via a third type
    for _ in range(6000 if ctx.thorough else 350):
        n = rng.choice([2, 3, 3, 4])
        t0 = rng.choice(A)
        ts = [rng.choice(A) for _ in range(n)]
        if rng.random() < 0.5:
            k2 = rng.randrange(0, n - 1)
            ts[k2 + 1] = t0 if k2 == 0 else ts[k2 - 1]
        out.append((rng.choice(CT4), t0, ts, None))
    # ?: with mixed operand types: t0 -> t1 -> common(t1, t2) [-> r]
    pairs = [(t0, t1, t2) for t0 in A for t1 in A for t2 in A if usual(t1, t2) != t1]
    for t0, t1, t2 in (pairs if ctx.thorough else rng.sample(pairs, 250)):
        ct = usual(t1, t2)
        arm = rng.choice(['then', 'else'])
        if rng.random() < 0.5:
            out.append(('cond', t0, [t1, ct], (t2, arm)))
        else:
            r = t0 if rng.random() < 0.6 else rng.choice(A)
            out.append(('condcast', t0, [t1, ct, r], (t2, arm)))
    # compound assignment with a floating constant
    for t0 in A:
        if t0 == 'bool':
            continue
        for oa in OPASSIGN:
            out.append(('opassign', t0, [usual(t0, oa[2]), t0], oa))
    return out


def source_values(ctx):
    rng = ctx.rng
    vals, ncore = {}, {}
    for t in O.ITYS:
        lo, hi = O.irange(t)
        vs = [v for v in CORE_INT if lo <= v <= hi]
        for v in O.int_values(t, rng, 40 if ctx.thorough else 6):
            if v not in vs:
                vs.append(v)
        vals[t] = list(dict.fromkeys(vs))
        ncore[t] = len(list(dict.fromkeys(v for v in CORE_INT if lo <= v <= hi)))
    for t in O.FTYS:
        vs = list(dict.fromkeys(core_fp(t)))
        ncore[t] = len(vs)
        for b in O.fp_values(t, rng, 200 if ctx.thorough else 12):
            if b not in vs:
                vs.append(b)
        vals[t] = list(dict.fromkeys(vs))
    return vals, ncore


def shape_stmt(k, shape, typedefs=True):
    """-> (file-scope helper text or '', statement computing `T_r r` from the volatile `x`)"""
    c, t0, ts, extra = shape
    T = (lambda t: 'T_' + t) if typedefs else (lambda t: O.CNAME[t])
    r = ts[-1]
    if c == 'cast':
        return '', f'{T(r)} r = {cast_expr(ts, "x", typedefs)};'
    if c == 'init':
        return '', f'{T(r)} r = {cast_expr(ts[:-1], "x", typedefs)};'
    if c == 'ret':
        return (f'static {T(r)} rt{k}({T(t0)} p) {{ return {cast_expr(ts[:-1], "p", typedefs)}; }}\n',
                f'{T(r)} r = rt{k}(x);')
    if c == 'arg':
        return (f'static {T(r)} ag{k}({T(r)} p) {{ return p; }}\n',
                f'{T(r)} r = ag{k}({cast_expr(ts[:-1], "x", typedefs)});')
    if c in ('cond', 'condcast'):
        t2, arm = extra
        a, b = f'({T(ts[0])})x', f'({T(t2)})0'
        e = f'one ? {a} : {b}' if arm == 'then' else f'zero ? {b} : {a}'
        if c == 'cond':
            return '', f'{T(r)} r = {e};'
        return '', f'{T(r)} r = ({T(r)})({e});'
    op, lit, _, _ = extra
    return '', f'{T(t0)} r = x; r {op} {lit};'


def chain_program(shapes, values, use):
    """use[k] = indices into values[t0] that shape k is run on (defined cases only)"""
    out = [O.PRELUDE, 'static volatile int one = 1, zero = 0;']
    for t in A:
        out.append(O.carray(f'S_{t}', O.src_rows(t, values[t])))
    calls = []
    for k, shape in enumerate(shapes):
        if not use[k]:
            continue
        c, t0, ts, _ = shape
        helper, stmt = shape_stmt(k, shape)
        out.append(helper + f'static void ch{k}(void) {{\n  static const int idx[] = {{{",".join(map(str, use[k]))}}};\n'
                   f'  for (int q = 0; q < {len(use[k])}; q++) {{ int i = idx[q];\n'
                   f'    T_{t0} t; memcpy(&t, S_{t0}[i], sizeof t); volatile T_{t0} x = t;\n'
                   f'    {stmt} dump("c{k}", i, 0, &r, {O.nbytes(ts[-1])});\n  }}\n}}')
        calls.append(f'  ch{k}();')
    parts = [calls[i:i + 400] for i in range(0, len(calls), 400)]
    for pi, pc in enumerate(parts):
        out.append(f'static void part{pi}(void) {{\n' + '\n'.join(pc) + '\n}')
    out.append('int main(void) {\n' + '\n'.join(f'  part{pi}();' for pi in range(len(parts))) + '\n  return 0;\n}')
    return '\n'.join(out) + '\n'


def chain_minimal(k, shape, v):
    c, t0, ts, _ = shape
    helper, stmt = shape_stmt(0, shape, typedefs=False)
    b = v if t0 in FMT else O.int_bits(t0, v)
    return (f'#include <stdio.h>\n#include <string.h>\nstatic volatile int one = 1, zero = 0;\n' + helper +
            f'int main(void) {{\n  unsigned char s[16] = {{{",".join(map(str, to_bytes(16, b)))}}};\n'
            f'  {O.CNAME[t0]} t; memcpy(&t, s, sizeof t); volatile {O.CNAME[t0]} x = t;\n  {stmt}\n'
            f'  unsigned char o[16]; memcpy(o, &r, sizeof r);\n'
            f'  for (int i = 0; i < {O.nbytes(ts[-1])}; i++) printf("%02x", o[i]);\n  printf("\\n");\n  return 0;\n}}\n')


def describe_shape(shape):
    c, t0, ts, extra = shape
    C = O.CNAME
    path = ' -> '.join(C[t] for t in [t0] + ts)
    how = {'cast': 'explicit casts', 'init': 'last conversion by initialisation', 'ret': 'last conversion by `return`',
           'arg': 'last conversion by argument passing', 'cond': 'operand of ?: converted to the common type',
           'condcast': 'operand of ?: converted to the common type, then cast', 'opassign': 'compound assignment'}[c]
    if c == 'opassign':
        return f'`x {extra[0]} {extra[1]}` on {C[t0]} x ({path}; {how})'
    return f'{path} ({how})'


def run_chain_oracle(ctx, corr, compile_run, parse_output, violation, describe, maxv=3):
    rng = ctx.rng
    shapes = oracle_shapes(ctx)
    values, ncores = source_values(ctx)
    per = 48 if ctx.thorough else 22
    use, specs = [], []
    skipped = 0
    lean_cases = []
    for k, shape in enumerate(shapes):
        c, t0, ts, extra = shape
        vs = values[t0]
        ncore = ncores[t0]
        # all core values for the hot round trips, a sample otherwise
        hot = len(ts) == 2 and ts[1] == t0 and ts[0] in FMT
        idx = list(range(len(vs))) if (hot or len(vs) <= per) else sorted(rng.sample(range(ncore), min(ncore, per * 2 // 3)) +
                                                                           rng.sample(range(ncore, len(vs)), min(len(vs) - ncore, per // 3)))
        ok, sp_k = [], {}
        lean_ok = lean_evaluable(shape)
        for i in idx:
            sp = opassign_spec(t0, extra[0], ts[0], extra[3], vs[i]) if c == 'opassign' else chain_spec(t0, ts, vs[i])
            if lean_ok:
                lean_cases.append((f'{t0} {vs[i]} {" ".join(ts)}', sp, shape))
            if sp[0] in ('ub', 'skip'):
                skipped += 1
                continue
            ok.append(i)
            sp_k[i] = sp
        use.append(ok)
        specs.append(sp_k)
    corr.count('skipped_ub', skipped)
    # the specification of C02_cast_chain itself (Spec.FpC11.convertChain, on the toy FPU) against the python spec, undefined cases included
    res = ctx.driver('chainval', ''.join(l + '\n' for l, _, _ in lean_cases)).splitlines()
    if len(res) != len(lean_cases):
        corr.disagreements.append({'kind': 'chain spec', 'what': f'driver answered {len(res)} lines for {len(lean_cases)} chains'})
        return
    for (line, sp, shape), r in zip(lean_cases, res):
        corr.evaluations += 1
        corr.count('chain:lean-spec')
        want = 'ub' if sp[0] == 'ub' else (f'int {sp[1]}' if sp[0] == 'int' else '?')
        if r != want:
            corr.disagreements.append({'kind': 'Lean Spec.convertChain vs python spec', 'chain': line, 'what': describe_shape(shape),
                                       'lean': r, 'python': want})
            return
    text = chain_program(shapes, values, use)
    oc, og, errs = compile_run(ctx, 'chain', text)
    for e in errs:
        if e.startswith('gcc:'):
            corr.disagreements.append({'kind': 'oracle harness', 'what': 'gcc failed on the generated chain program', 'detail': e})
        else:
            corr.violations.append({'what': 'chibicc fails on a well-defined generated program (chains of conversions)', 'detail': e,
                                    'input': text[:4000] + '...', 'expected': 'compiles and runs', 'got': e})
    if errs:
        return
    pc, pg = parse_output(oc or ''), parse_output(og or '')
    nv = 0
    for k, shape in enumerate(shapes):
        c, t0, ts, extra = shape
        n = O.nbytes(ts[-1])
        for i in use[k]:
            v = values[t0][i]
            key = f'c{k} {i} 0'
            corr.evaluations += 1
            corr.count(f'chain:{c}:{len(ts)}')
            g, cc = pg.get(key), pc.get(key)
            if g is None:
                corr.disagreements.append({'kind': 'oracle harness', 'what': f'gcc binary printed nothing for {key} ({describe_shape(shape)})'})
                return
            sp = specs[k][i]
            if sp[0] in ('int', 'bits'):
                want = O.int_to_hex(sp[1], n)
                if want != g[1]:
                    corr.disagreements.append({'kind': 'spec vs gcc', 'what': f'chain {describe_shape(shape)} of {v:#x}: python spec {want}, gcc {g[1]}',
                                               'program': chain_minimal(k, shape, v)})
                    return
            corr.nontrivial.add(f'chain {c} {t0} {" ".join(ts)} {extra[:2] if extra else ""} {v:x}')
            if len(ts) >= 2 and ts[-1] == t0 and sp[0] in ('int', 'bits') and sp[1] != v:
                corr.count('chain: round trip that is not the identity')
            same = cc is not None and cc[1] == g[1]
            if not same and cc is not None and sp[0] == 'hw' and ts[-1] in FMT:
                # a NaN carried through floating -> floating conversions: C11 does not fix the payload or the quiet bit (gcc folds
                # `(float)(double)x` to `x` and keeps a signalling NaN, the conversion instructions quiet it): require a NaN
                corr.count('nan_payload_not_compared')
                same = decode(ts[-1], O.hex_to_int(cc[1]))[0] == 'nan' and decode(ts[-1], O.hex_to_int(g[1]))[0] == 'nan'
            if not same:
                corr.count(f'mismatch:chain {c}')
                if nv < maxv:
                    nv += 1
                    violation(corr, f'chain of conversions {describe_shape(shape)} applied to {describe(t0, v)}: different result bytes'
                              + (' (chibicc returns the operand unchanged: were both conversions dropped?)'
                                 if cc is not None and ts[-1] == t0 and O.hex_to_int(cc[1]) == (v if t0 in FMT else O.int_bits(t0, v)) else ''),
                              chain_minimal(k, shape, v), g[1], cc[1] if cc else 'no output', source_bits=f'{v:#x}')
    corr.sample({'chains': {'shapes': len(shapes), 'example': describe_shape(shapes[len(shapes) // 3]),
                            'values per integer type': {t: len(values[t]) for t in ('i32', 'i64', 'u64')}}})
