"""C14 - driver process discipline under failure and concurrency (main.c).

Process harness (no hooks in /repo): the REAL driver from the snapshot is run in a private directory with
  * PATH prefixed by shim scripts `as` and `ld` that count their invocations and fail on the k-th one
    (exit code, or `kill -<sig> $$`), optionally after leaving junk in their output, otherwise exec the real tool;
  * an argv[0] shim through which the driver re-executes "itself" for cc1, so the k-th cc1 can be made to
    exit non-zero or die by a signal before it runs; cc1 failures are also provoked for real (syntax error,
    preprocessing error, error raised during code generation, missing input, output in a missing directory);
  * an LD_PRELOAD observer (tools/harness/c14_preload.c) logging mkstemp / unlink / execvp / wait of the driver.
The event trace (temporaries renamed tmp#k), exit status and final file set are compared with the Lean model
(`drv_c14 trace`) for the same command shape and fault schedule, and the property's postconditions are checked
directly on the real run (oracle vs implementation).
"""
import os, json, itertools, hashlib, shutil, subprocess, time, threading
from concurrent.futures import ThreadPoolExecutor
from .framework import *
from . import c14_argv as A

PROPERTY = 'C14'
GEN_MODULES = ['c14args']
LEAN_TARGETS = ['ChibiVerif.Props.C14', 'ChibiVerif.Props.C14Args', 'ChibiVerif.Findings.C14', 'ChibiVerif.Findings.C14Args']
PROPS_FILES = ['ChibiVerif/Props/C14.lean', 'ChibiVerif/Props/C14Args.lean']
NEEDS_HOOKS = False
TRUSTED_BASE = [
    'Lean 4.33.0 kernel; axioms admitted: propext, Classical.choice, Quot.sound (audited per theorem on every run)',
    'hand-written small-step model lean/ChibiVerif/Model/DriverProc.lean of main.c main/run_subprocess/run_cc1/assemble/'
    'run_linker/create_tmpfile/cleanup; tied on every run by trace correspondence with the real driver (event trace, exit '
    'status, final file set) over the enumerated command shapes x single fault points',
    'the process harness: PATH shims for as/ld, argv[0] shim for cc1, LD_PRELOAD observer tools/harness/c14_preload.c',
    'assumed behaviour of fork/execvp/wait/mkstemp/unlink/atexit/fopen: mkstemp returns a name that did not exist; atexit '
    'handlers run on exit() and on return from main, not when the driver itself is killed by a signal; a child writes only '
    'its output path; fork does not fail',
    'cc1 is modelled only as far as the property needs: a failing front end writes nothing to its output path (checked on '
    'the real cc1 with errors raised by the tokenizer, the preprocessor, the parser and the code generator); the order of its writes '
    '(output first, dependency file last, nothing that can fail afterwards) is regenerated from main.c (cc1Plan) and decided',
    'translator tools/extract/c14args.py: take_arg list, option ladder of parse_args, option variables, parse_opt_x, get_file_type, '
    'run_cc1/assemble/run_linker command lines, cc1\'s tail, every file-system call site -> Gen/C14ArgsGen.lean (ExtractError on any other '
    'shape); hand-written semantics of those tables Model/C14Args.lean, Model/C14Compose.lean (quote_makefile, replace_extn, basename, '
    'dependency_path, print_dependencies transcribed; their C text is pinned by the translator), tied on every run by (a) the in-process '
    'harness tools/harness/c14_args_harness.c (snapshot main.c under ASan/UBSan, every option variable after parse_args) and (b) real '
    'driver runs from generated command lines: status, trace, files, dependency-file text, full command line of every child',
    'Model/C14Deps.lean: a cc1 child that ends with status 0 has written its dependency file, any other has not (cc1Plan + the runs with '
    'failing front ends and unwritable dependency files)',
]
ASSUMPTIONS = [
    'temporary names returned by mkstemp differ from every path named on the command line',
    'two concurrent drivers write disjoint paths (requested outputs and temporaries) and neither writes a path the other reads',
    'a driver killed by a signal itself is outside the property (it speaks of failing steps)',
    'the dependency file of a unit (-MD/-MF) is not one of the driver\'s own paths (requested output, temporary, input) - proved for the '
    'derived <stem>.d names (C14_deps_never_output), an obligation of the user for -MF and for -o x.d',
    'a word `-cc1` on the command line makes the process the compiler proper, not the driver: outside the argv-level theorems (isDriver)',
]

# cc1 write errors on the output (ENOSPC: `-o /dev/full`).  None: cases not generated; 'fixed': ordinary cases (the
# driver must exit non-zero); 'known': generated and tagged with the known-finding id below.
WRITE_ERROR_CASES = 'fixed'
WRITE_ERROR_KNOWN_ID = 'C14-write-error-ignored'

SIGNUM = {'SEGV': 11, 'KILL': 9, 'TERM': 15, 'ABRT': 6}
JUNK = b'JUNK'

AS_LD_SHIM = r'''#!/bin/bash
# C14 shim: counts invocations, fails on the configured one, otherwise runs the real tool
unset LD_PRELOAD
prog="${0##*/}"
d="$C14_DIR"
n=0
[ -f "$d/$prog.count" ] && read n < "$d/$prog.count"
echo $((n+1)) > "$d/$prog.count"
spec_var="C14_FAULT_$prog"
spec="${!spec_var}"
if [ -n "$spec" ]; then
  IFS=: read k how num wrote <<< "$spec"
  if [ "$k" = "$n" ]; then
    if [ "$wrote" = "w" ]; then
      out=""; prev=""
      for a in "$@"; do [ "$prev" = "-o" ] && out="$a"; prev="$a"; done
      [ -n "$out" ] && printf 'JUNK' > "$out"
    fi
    if [ "$wrote" = "r" ]; then
      out=""; prev=""
      for a in "$@"; do [ "$prev" = "-o" ] && out="$a"; prev="$a"; done
      [ -n "$out" ] && rm -f "$out"
    fi
    echo fired > "$d/$prog.fired"
    if [ "$how" = "sig" ]; then ulimit -c 0; kill -"$num" $$; sleep 10; fi
    exit "$num"
  fi
fi
if [ "$prog" = "ld" ] && [ -n "$C14_FAKE_LD" ]; then
  # argv leg: the command line is what is compared; the "executable" is an ELF header (e_type = ET_EXEC) followed by the
  # origin markers of every file named on the command line
  out=""; prev=""
  for a in "$@"; do [ "$prev" = "-o" ] && out="$a"; prev="$a"; done
  [ -n "$out" ] || exit 1
  { printf '\177ELF\002\001\001\000\000\000\000\000\000\000\000\000\002\000' > "$out"; } 2>/dev/null || { echo "ld: cannot open output file $out" >&2; exit 1; }
  for a in "$@"; do
    if [ -f "$a" ] && [ "$a" != "$out" ]; then grep -a -o 'c14_u[0-9]*_' "$a" | sort -u >> "$out"; fi
  done
  exit 0
fi
real_var="C14_REAL_$prog"
exec "${!real_var}" "$@"
'''

CC_SHIM = r'''#!/bin/bash
# C14 argv[0] shim: the driver runs as "$0" (so it re-executes this script for cc1); the k-th cc1 can be failed
real="$C14_REAL_CC"
iscc1=0
for a in "$@"; do [ "$a" = "-cc1" ] && iscc1=1; done
if [ $iscc1 = 0 ]; then exec -a "$0" "$real" "$@"; fi
d="$C14_DIR"
n=0
[ -f "$d/cc1.count" ] && read n < "$d/cc1.count"
echo $((n+1)) > "$d/cc1.count"
spec="$C14_FAULT_cc1"
if [ -n "$spec" ]; then
  IFS=: read k how num wrote <<< "$spec"
  if [ "$k" = "$n" ]; then
    echo fired > "$d/cc1.fired"
    if [ "$how" = "sig" ]; then ulimit -c 0; kill -"$num" $$; sleep 10; fi
    exit "$num"
  fi
fi
exec -a "$real" "$real" "$@"
'''

BAD_SOURCES = {
    'syntax': 'int c14_u%d_f(void) { return 1 +; }\n',
    'codegen': 'int c14_u%d_f(void) { 1 = 2; return 0; }\n',          # error raised inside codegen (gen_addr: not an lvalue)
    'pp': '#if 1\nint c14_u%d_f(void) { return 0; }\n',               # unterminated conditional directive
    'token': 'int c14_u%d_f(void) { return "abc; }\n',                # unclosed string literal
}


class Harness:
    def __init__(self, ctx):
        self.ctx = ctx
        self.base = os.path.join(ctx.scratch, 'c14')
        os.makedirs(self.base, exist_ok=True)
        self.shim = os.path.join(self.base, 'shim')
        os.makedirs(self.shim, exist_ok=True)
        for name in ('as', 'ld'):
            p = os.path.join(self.shim, name)
            open(p, 'w').write(AS_LD_SHIM)
            os.chmod(p, 0o755)
        self.ccshim = os.path.join(self.base, 'ccshim', 'chibicc')
        os.makedirs(os.path.dirname(self.ccshim), exist_ok=True)
        open(self.ccshim, 'w').write(CC_SHIM)
        os.chmod(self.ccshim, 0o755)
        self.real_as = shutil.which('as')
        self.real_ld = shutil.which('ld')
        if not self.real_as or not self.real_ld:
            raise BuildFailure('as/ld not found on PATH')
        self.preload = os.path.join(self.base, 'c14_preload.so')
        rc, o, e = sh(['gcc', '-shared', '-fPIC', '-O1', '-o', self.preload,
                       os.path.join(VERIF, 'tools/harness/c14_preload.c'), '-ldl'], timeout=120)
        if rc != 0:
            raise RuntimeError('preload observer does not compile: ' + e[-800:])
        self.cc = ctx.cc
        self.libpaths = A.find_lib_paths()
        self.pool = {}
        self.counter = itertools.count()
        self.lock = threading.Lock()
        self.make_pool()

    # ------------------------------------------------------------ sources
    def good_c(self, pos):
        tag = pos + 1
        s = f'int c14_u{tag}_f(void) {{ return {tag}; }}\n'
        if pos == 0:
            s += 'int main(void) { return 0; }\n'
        return s

    def make_pool(self):
        """good .c/.s/.o for each of the three positions (position 0 defines main), built with the snapshot compiler"""
        d = os.path.join(self.base, 'pool')
        os.makedirs(d, exist_ok=True)
        for pos in range(3):
            c = os.path.join(d, f'p{pos}.c')
            open(c, 'w').write(self.good_c(pos))
            for flag, ext in (('-S', 's'), ('-c', 'o')):
                out = os.path.join(d, f'p{pos}.{ext}')
                rc, o, e = sh([self.cc, flag, '-o', out, c], timeout=60)
                if rc != 0 or not os.path.exists(out):
                    raise BuildFailure(f'snapshot compiler cannot build the pool file p{pos}.{ext}: {e[-400:]}')
            self.pool[(pos, 'c')] = open(c, 'rb').read()
            self.pool[(pos, 's')] = open(os.path.join(d, f'p{pos}.s'), 'rb').read()
            self.pool[(pos, 'o')] = open(os.path.join(d, f'p{pos}.o'), 'rb').read()

    # ------------------------------------------------------------ one real run
    def env_for(self, ctl, case):
        env = dict(os.environ)
        env['PATH'] = self.shim + os.pathsep + env.get('PATH', '')
        env['LD_PRELOAD'] = self.preload
        env['C14_LOG'] = os.path.join(ctl, 'log')
        env['C14_DIR'] = ctl
        env['C14_REAL_as'] = self.real_as
        env['C14_REAL_ld'] = self.real_ld
        env['C14_REAL_CC'] = self.cc
        for k in ('C14_FAULT_as', 'C14_FAULT_ld', 'C14_FAULT_cc1', 'C14_MKFAIL', 'C14_FAKE_LD'):
            env.pop(k, None)
        if case.get('fake_ld'):
            env['C14_FAKE_LD'] = '1'
        f = case.get('fault')
        if f and f['via'] == 'shim':
            env['C14_FAULT_' + f['prog']] = f"{f['k']}:{f['how']}:{f['num']}:{f.get('leaves', 'n')}"
        if case.get('mkfail') is not None:
            env['C14_MKFAIL'] = str(case['mkfail'])
        return env

    def materialize(self, wd, case):
        """create the input files and sentinels; returns {relpath: tag} of the files that exist"""
        if 'spec' in case:
            return A.materialize(self, wd, case['spec'])
        files = {}
        for inp in case['inputs']:
            if inp['kind'] == 'l':
                continue
            path = os.path.join(wd, inp['name'])
            os.makedirs(os.path.dirname(path), exist_ok=True)
            bad = inp.get('bad')
            tag = inp['pos'] + 1
            if bad == 'missing':
                continue
            if bad:
                data = (BAD_SOURCES[bad] % tag).encode()
            elif inp['kind'] in ('c', 'x'):
                data = self.pool[(inp['pos'], 'c')]
            else:
                data = self.pool[(inp['pos'], inp['kind'])]
            open(path, 'wb').write(data)
            files[inp['name']] = tag
        for j, p in enumerate(case.get('sentinels', [])):
            path = os.path.join(wd, p)
            if os.path.exists(path) or not os.path.isdir(os.path.dirname(path)):
                continue
            open(path, 'wb').write(b'SENTINEL c14_u%d_\n' % (11 + j))
            files[p] = 11 + j
        old = 1000000000
        for p in files:
            os.utime(os.path.join(wd, p), (old, old))
        return files

    def argv(self, case):
        if 'argv' in case:
            return list(case['argv'])
        a = []
        if case['mode'] != 'link':
            a.append('-' + case['mode'])
        if case['out']:
            a += ['-o', case['out']]
        a += [i['name'] for i in case['inputs']]
        return a

    def snapshot_dir(self, wd):
        out = {}
        for root, dirs, fs in os.walk(wd):
            for fn in fs:
                p = os.path.join(root, fn)
                rel = os.path.relpath(p, wd)
                try:
                    st = os.stat(p)
                    out[rel] = (st.st_mtime_ns, st.st_size, hashlib.sha1(open(p, 'rb').read()).hexdigest())
                except FileNotFoundError:
                    pass        # a concurrent driver's child (ld) unlinks its output before rewriting it
        return out

    def run_real(self, case, wd=None, ctl=None, prepared=None, start_barrier=None):
        """run the real driver on the case; returns an observation dict"""
        with self.lock:
            n = next(self.counter)
        if wd is None:
            wd = os.path.join(self.base, f'w{n}')
            os.makedirs(wd)
        if ctl is None:
            ctl = os.path.join(self.base, f'ctl{n}')
            os.makedirs(ctl)
        files = prepared if prepared is not None else self.materialize(wd, case)
        pre = self.snapshot_dir(wd)
        env = self.env_for(ctl, case)
        if start_barrier is not None:
            start_barrier.wait()
        try:
            p = subprocess.Popen([self.ccshim] + self.argv(case), cwd=wd, env=env, stdout=subprocess.PIPE,
                                 stderr=subprocess.PIPE)
            so, se = p.communicate(timeout=120)
            rc = p.returncode
            pid = p.pid
        except subprocess.TimeoutExpired:
            p.kill()
            so, se = p.communicate()
            rc, pid = -9, p.pid
        post = self.snapshot_dir(wd)
        log = []
        lp = os.path.join(ctl, 'log')
        if os.path.exists(lp):
            for line in open(lp, errors='replace').read().splitlines():
                w = line.split('\t')
                if len(w) >= 3:
                    log.append(w)
        obs = {'rc': rc, 'pid': pid, 'stderr': se.decode(errors='replace'), 'stdout': so, 'log': log, 'pre': pre, 'post': post,
               'wd': wd, 'ctl': ctl, 'files0': files}
        if 'argv' in case:
            A.canon_real(self, case, obs, self.libpaths)
        else:
            self.canon(case, obs)
        return obs

    # ------------------------------------------------------------ canonicalisation of the real run
    @staticmethod
    def classify(wd, rel, pre, post):
        if rel in pre and pre[rel] == post[rel]:
            data = open(os.path.join(wd, rel), 'rb').read()
            return 'orig', Harness.markers(data)
        data = open(os.path.join(wd, rel), 'rb').read()
        if data == JUNK:
            cls = 'junk'
        elif len(data) == 0:
            cls = 'empty'
        elif data[:4] == b'\x7fELF':
            et = int.from_bytes(data[16:18], 'little')
            cls = 'obj' if et == 1 else 'exe' if et in (2, 3) else 'elf?'
        elif b'.globl' in data or b'.file 1' in data or b'.text' in data:
            cls = 'asm'
        else:
            cls = 'pp'
        return cls, Harness.markers(data)

    @staticmethod
    def markers(data):
        return sorted({int(m) for m in re.findall(rb'c14_u(\d+)_', data)})

    def canon(self, case, obs):
        pid = str(obs['pid'])
        temps = {}
        ev = []
        created = []

        def nm(p):
            return temps.get(p, p)
        errs = []
        se = obs['stderr']
        if "cannot specify '-o'" in se:
            errs.append('error multi-o')
        if 'unknown file extension' in se:
            errs.append('error unknown-ext')
        if 'no input files' in se:
            errs.append('error no-input')
        for w in obs['log']:
            wp, wpp, kind = w[0], w[1], w[2]
            if kind == 'mkstemp' and wp == pid:
                if w[3] == 'FAIL':
                    ev.append('mkstemp-failed')
                else:
                    temps[w[3]] = f'tmp#{len(temps)}'
                    created.append(w[3])
                    ev.append(f'mkstemp {temps[w[3]]}')
            elif kind == 'unlink' and wp == pid:
                ev.append(f'unlink {nm(w[3])}')
            elif kind == 'wait' and wp == pid:
                st = int(w[4])
                sig = st & 0x7f
                ev.append(('wait', f'sig:{sig}' if sig else f'exit:{(st >> 8) & 0xff}'))
            elif kind == 'execvp' and wpp == pid:
                argv = w[3:]
                base = os.path.basename(argv[0]) if argv else ''
                if '-cc1' in argv:
                    inp = argv[argv.index('-cc1-input') + 1] if '-cc1-input' in argv else '?'
                    if '-cc1-output' in argv:
                        out = argv[argv.index('-cc1-output') + 1]
                    elif '-E' in argv and '-o' in argv:
                        out = argv[argv.index('-o') + 1]
                    else:
                        out = '-'
                    ev.append(('spawn', 'cc1', f'spawn cc1 in={nm(inp)} out={nm(out)}'))
                elif base == 'as':
                    # as -c <input> -o <output>
                    inp = argv[2] if len(argv) > 2 else '?'
                    out = argv[4] if len(argv) > 4 else '?'
                    ev.append(('spawn', 'as', f'spawn as in={nm(inp)} out={nm(out)}'))
                elif base == 'ld':
                    out = argv[argv.index('-o') + 1] if '-o' in argv else '?'
                    user = self.ld_user_args(argv)
                    ev.append(('spawn', 'ld', f"spawn ld out={nm(out)} args={','.join(nm(a) for a in user)}"))
                else:
                    ev.append(('spawn', '?', 'spawn ? ' + ' '.join(argv[:3])))
        # attach program names to waits (children are run one at a time)
        trace = []
        last = '?'
        for e in ev:
            if isinstance(e, tuple) and e[0] == 'spawn':
                last = e[1]
                trace.append(e[2])
            elif isinstance(e, tuple) and e[0] == 'wait':
                trace.append(f'wait {last} {e[1]}')
            else:
                trace.append(e)
        # the driver's own error() precedes the cleanup block
        if errs:
            i = len(trace)
            while i > 0 and trace[i - 1].startswith('unlink '):
                i -= 1
            trace[i:i] = errs
        trace.append(f"exit {obs['rc']}")
        files = []
        for rel in sorted(obs['post']):
            try:
                cls, mk = self.classify(obs['wd'], rel, obs['pre'], obs['post'])
            except FileNotFoundError:
                continue        # shared directory of a concurrent round: another driver's ld unlinked its output just now
            files.append(f"{rel}={cls}[{','.join(map(str, mk))}]")
        obs['temps'] = created
        obs['leftover'] = [t for t in created if os.path.lexists(t)]
        for t in obs['leftover']:           # recorded; do not litter /tmp
            try:
                os.unlink(t)
            except OSError:
                pass
        obs['trace'] = trace
        obs['line'] = f"status={obs['rc']} trace={'|'.join(trace)} files={';'.join(files)}"
        obs['changed'] = sorted(r for r in obs['post'] if obs['pre'].get(r) != obs['post'][r]) + \
            sorted(r for r in obs['pre'] if r not in obs['post'])

    @staticmethod
    def ld_user_args(argv):
        """the part of ld's argv that comes from ld_extra_args/ld_args: between `-dynamic-linker <path>` and the fixed tail
        `-lc -lgcc --as-needed -lgcc_s --no-as-needed <crtend.o> <crtn.o>`"""
        if '-dynamic-linker' not in argv:
            return ['?']
        i = argv.index('-dynamic-linker') + 2
        tail = argv[-7:]
        if tail[:5] != ['-lc', '-lgcc', '--as-needed', '-lgcc_s', '--no-as-needed']:
            return ['?'] + argv[i:]
        return argv[i:-7]

    # ------------------------------------------------------------ model side
    def model_line_input(self, case, files):
        ins = ','.join(i['name'] for i in case['inputs']) or '-'
        fl = ','.join(f'{p}:{t}' for p, t in sorted(files.items())) or '-'
        faults = '-'
        f = case.get('fault')
        if f:
            faults = f"{f['prog']}:{f['k']}:{f['how']}:{f['num']}:{f.get('leaves', 'n')}"
        mk = case.get('mkfail')
        return (f"mode={case['mode']} out={case['out'] or '-'} in={ins} files={fl} faults={faults} "
                f"mkfail={'-' if mk is None else mk}")


def get_harness(ctx):
    h = getattr(ctx, '_c14_harness', None)
    if h is None:
        h = Harness(ctx)
        ctx._c14_harness = h
    return h


# ---------------------------------------------------------------- command shapes and fault points

def stem(name):
    b = os.path.basename(name)
    return b[:b.rindex('.')] if '.' in b else b

def mk_inputs(kinds, subdir_first=False):
    ext = {'c': 'c', 's': 's', 'o': 'o', 'x': 'xyz'}
    out = []
    for pos, k in enumerate(kinds):
        if k == 'l':
            out.append({'name': '-lm', 'kind': 'l', 'pos': pos})
        else:
            name = f'u{pos}.{ext[k]}'
            if subdir_first and pos == 0:
                name = 'sub/' + 'v.w.' + ext[k]      # replace_extn: basename, last dot
            out.append({'name': name, 'kind': k, 'pos': pos})
    return out

def eff_kind(case, inp):
    if inp['kind'] == 'l':
        return 'l'
    if case['mode'] == 'E':
        return 'c'
    return inp['kind']

def pipeline(case):
    """independent reading of the driver's pipeline: list of (prog, input index or None) in invocation order, or
    ('reject', why).  Used to enumerate the fault points and by the oracle."""
    ins = case['inputs']
    if len(ins) > 1 and case['out'] and case['mode'] != 'link':
        return [('reject', 'multi-o')]
    steps = []
    m = case['mode']
    for idx, inp in enumerate(ins):
        k = eff_kind(case, inp)
        if k == 'l' or k == 'o':
            continue
        if k == 'x':
            steps.append(('reject', 'unknown-ext'))
            return steps
        if k == 'c':
            steps.append(('cc1', idx))
            if m in ('c', 'link'):
                steps.append(('as', idx))
        elif k == 's':
            if m in ('c', 'link'):
                steps.append(('as', idx))
    if m == 'link':
        steps.append(('ld', None))
    return steps

def unit_output(case, inp):
    if case['out']:
        return case['out']
    return stem(inp['name']) + ('.s' if case['mode'] == 'S' else '.o')

def requested(case):
    """the outputs the command asks for, by gcc's rules: {path: (class, markers)}"""
    m = case['mode']
    req = {}
    if m == 'link':
        mk = sorted(i['pos'] + 1 for i in case['inputs'] if i['kind'] in ('c', 's', 'o'))
        req[case['out'] or 'a.out'] = ('exe', mk)
        return req
    for inp in case['inputs']:
        k = eff_kind(case, inp)
        if m == 'E' and k == 'c' and case['out']:
            req[case['out']] = ('pp', [inp['pos'] + 1])
        elif m == 'S' and k == 'c':
            req[unit_output(case, inp)] = ('asm', [inp['pos'] + 1])
        elif m == 'c' and k in ('c', 's'):
            req[unit_output(case, inp)] = ('obj', [inp['pos'] + 1])
    return req

def final_output(case, inp):
    """path whose content must survive a front-end failure of this unit"""
    if case['mode'] == 'link':
        return case['out'] or 'a.out'
    if case['mode'] == 'E':
        return case['out']
    return unit_output(case, inp)

def shapes(max_inputs, kinds_alphabet):
    for mode in ('E', 'S', 'c', 'link'):
        for with_o in (False, True):
            for n in range(1, max_inputs + 1):
                for kinds in itertools.product(kinds_alphabet, repeat=n):
                    if mode == 'E' and any(k in ('s', 'o') for k in kinds):
                        continue        # -E reads every file as C; assembler text / ELF bytes are not meaningful C input
                    yield mode, with_o, kinds

def base_case(mode, with_o, kinds, sub=False):
    case = {'mode': mode, 'inputs': mk_inputs(kinds, sub), 'fault': None, 'mkfail': None}
    case['out'] = ('out.bin' if mode == 'link' else 'out.' + {'E': 'i', 'S': 's', 'c': 'o'}[mode]) if with_o else None
    case['sentinels'] = []
    return case

def with_sentinels(case):
    s = list(requested(case).keys())
    if case['mode'] != 'link':
        s.append('a.out')                # must never appear / change when not linking
    case = dict(case, sentinels=s)
    return case

def fault_variants(case, full):
    """every single point of failure of the pipeline, by exit status or by signal; real cc1 failures by bad input"""
    steps = pipeline(case)
    out = []
    counts = {'cc1': 0, 'as': 0, 'ld': 0}
    for prog, idx in steps:
        if prog == 'reject':
            break
        k = counts[prog]
        counts[prog] += 1
        hows = [('exit', 1), ('exit', 3), ('sig', 11), ('sig', 9)] if full else [('exit', 2), ('sig', 11)]
        for how, num in hows:
            # what the failing as/ld leaves at its output path: nothing touched / junk / removed (GNU as, ld unlink on error)
            leaves = ('n', 'w', 'r') if (prog != 'cc1' and full) else (('w',) if prog != 'cc1' and how == 'sig' else
                                                                        ('r',) if prog != 'cc1' else ('n',))
            for lv in leaves:
                c = json.loads(json.dumps(case))
                c['fault'] = {'prog': prog, 'k': k, 'how': how, 'num': num, 'leaves': lv, 'via': 'shim', 'unit': idx}
                out.append(c)
        if prog == 'cc1':
            bads = ['syntax', 'codegen', 'pp', 'token', 'missing'] if full else ['codegen', 'missing']
            if case['mode'] == 'E':
                bads = [b for b in bads if b in ('pp', 'token', 'missing')]
            for bad in bads:
                c = json.loads(json.dumps(case))
                c['inputs'][idx]['bad'] = bad
                c['fault'] = {'prog': 'cc1', 'k': k, 'how': 'exit', 'num': 1, 'leaves': 'n', 'via': 'input', 'unit': idx}
                out.append(c)
        if prog == 'as' and case['inputs'][idx]['kind'] == 's' and full:
            c = json.loads(json.dumps(case))
            c['inputs'][idx]['bad'] = 'missing'
            c['fault'] = {'prog': 'as', 'k': k, 'how': 'exit', 'num': 1, 'leaves': 'r', 'via': 'input', 'unit': idx}   # GNU as unlinks its output on error
            out.append(c)
    # unwritable output: -o into a directory that does not exist (the checks may run as root, so no permission games)
    if case['out'] and steps and steps[0][0] != 'reject':
        c = json.loads(json.dumps(case))
        c['out'] = 'nodir/' + case['out']
        last = [s for s in steps if s[0] != 'reject'][-1]
        if case['mode'] in ('E', 'S') and last[0] == 'cc1' and len([s for s in steps if s[0] == 'cc1']) == 1:
            c['fault'] = {'prog': 'cc1', 'k': 0, 'how': 'exit', 'num': 1, 'leaves': 'n', 'via': 'outdir', 'unit': last[1]}
            out.append(c)
        elif case['mode'] == 'c' and len([s for s in steps if s[0] == 'as']) == 1:
            c['fault'] = {'prog': 'as', 'k': 0, 'how': 'exit', 'num': 1, 'leaves': 'n', 'via': 'outdir', 'unit': last[1]}
            out.append(c)
        elif case['mode'] == 'link':
            c['fault'] = {'prog': 'ld', 'k': 0, 'how': 'exit', 'num': 1, 'leaves': 'n', 'via': 'outdir', 'unit': None}
            out.append(c)
    return out

def case_key(case):
    f = case.get('fault')
    return json.dumps([case['mode'], case['out'], [(i['name'], i.get('bad')) for i in case['inputs']],
                       [f[k] for k in ('prog', 'k', 'how', 'num', 'leaves', 'via')] if f else None, case.get('mkfail'),
                       sorted(case.get('sentinels', []))])

def describe(case):
    f = case.get('fault')
    cmd = 'chibicc ' + ' '.join((['-' + case['mode']] if case['mode'] != 'link' else []) +
                                (['-o', case['out']] if case['out'] else []) + [i['name'] for i in case['inputs']])
    bad = [f"{i['name']}:{i['bad']}" for i in case['inputs'] if i.get('bad')]
    return {'command': cmd, 'fault': f, 'bad_inputs': bad, 'mkfail': case.get('mkfail'), 'sentinels': case.get('sentinels', [])}


# ---------------------------------------------------------------- oracle: the property's postconditions on the real run

def oracle(case, obs):
    """returns a list of violation descriptions (oracle vs implementation)"""
    bad = []
    steps = pipeline(case)
    rejected = any(s[0] == 'reject' for s in steps)
    faulted = case.get('fault') is not None or case.get('mkfail') is not None
    rc = obs['rc']
    if obs['leftover']:
        bad.append(f"temporary file(s) left behind: {obs['leftover']}")
    if rc < 0:
        bad.append(f'the driver itself died (signal/timeout {rc})')
        return bad
    if (faulted or rejected) and rc == 0:
        bad.append('a step failed but the driver exited with status 0')
    if not faulted and not rejected and rc != 0:
        bad.append(f"no step failed but the driver exited with status {rc}: {obs['stderr'][-200:]}")
    req = requested(case)
    post, pre, wd = obs['post'], obs['pre'], obs['wd']

    def cls_of(p):
        if p not in post:
            return None
        return Harness.classify(wd, p, pre, post)
    if not faulted and not rejected and rc == 0:
        changed = set(obs['changed'])
        if changed != set(req):
            bad.append(f'created/overwritten paths {sorted(changed)} differ from the requested outputs {sorted(req)}')
        for p, (cls, mk) in req.items():
            got = cls_of(p)
            if got is None or got[0] != cls or got[1] != mk:
                bad.append(f'requested output {p} should be {cls}{mk}, is {got}')
    f = case.get('fault')
    if f and rc != 0:
        unit = f.get('unit')
        if f['prog'] == 'cc1' and unit is not None:
            inp = case['inputs'][unit]
            o = final_output(case, inp)
            if o is not None and o in obs['changed']:
                bad.append(f'front end of {inp["name"]} failed but its output path {o} was created/overwritten '
                           f'(now {cls_of(o)})')
        # units before the failing one are complete, units after it untouched
        if unit is not None and case['mode'] in ('S', 'c'):
            for j, inp in enumerate(case['inputs']):
                k = eff_kind(case, inp)
                is_unit = (case['mode'] == 'S' and k == 'c') or (case['mode'] == 'c' and k in ('c', 's'))
                if not is_unit:
                    continue
                o = unit_output(case, inp)
                if j < unit:
                    got = cls_of(o)
                    want = ('asm' if case['mode'] == 'S' else 'obj', [inp['pos'] + 1])
                    if got is None or (got[0], got[1]) != want:
                        bad.append(f'output {o} of the earlier unit {inp["name"]} is not complete: {got}')
                elif j > unit and o in obs['changed']:
                    bad.append(f'unit {inp["name"]} after the failing one was started: {o} changed')
        if 'a.out' in obs['changed'] and case['mode'] != 'link':
            bad.append('a.out created/changed although not linking')
    if rejected and not faulted:
        reach = set()
        for s in steps:
            if s[0] == 'reject':
                break
            reach.add(s[1])
        for p in obs['changed']:
            ok = any(unit_output(case, case['inputs'][j]) == p for j in reach if j is not None) and case['mode'] in ('S', 'c')
            if not ok:
                bad.append(f'rejected command changed {p}')
    return bad


# ---------------------------------------------------------------- the check

def gen_cases(ctx):
    rng = ctx.rng
    cases = []
    # corpus: repaired defects (A) .s input in link mode, (B) linker inputs when not linking; past failures
    cdir = os.path.join(VERIF, 'corpus', 'C14')
    if os.path.isdir(cdir):
        for fn in sorted(os.listdir(cdir)):
            if fn.endswith('.json') and not fn.startswith('argv'):
                c = json.load(open(os.path.join(cdir, fn)))
                c['tag'] = 'corpus:' + fn
                cases.append(c)
    alphabet = ['c', 's', 'o']
    allshapes = list(shapes(3, alphabet))
    for mode, with_o, kinds in allshapes:
        b = base_case(mode, with_o, kinds, sub=(rng.random() < 0.3))
        ok = dict(b, tag='success')
        if rng.random() < 0.5:
            ok = dict(with_sentinels(b), tag='success')
        cases.append(ok)
        fv = fault_variants(with_sentinels(b), ctx.thorough)
        if not ctx.thorough and len(fv) > 7:
            # quick: the first cc1 signal fault, one real front-end failure, and two seeded others
            pick = [x for x in fv if x['fault']['via'] == 'input'][:1] + rng.sample(fv, min(6, len(fv)))
            fv = pick
        for c in fv:
            c['tag'] = 'fault:' + c['fault']['prog'] + ':' + c['fault']['how'] + (':' + c['fault']['via'])
            cases.append(c)
    # special shapes: -l, unknown extension (error() in the middle of the loop), -E of a file with another extension
    specials = [('link', False, ('c', 'l')), ('c', False, ('c', 'l')), ('S', False, ('c', 'x')), ('c', False, ('c', 'x', 'c')),
                ('link', True, ('c', 'x')), ('E', False, ('c', 'x')), ('E', True, ('x',)), ('E', False, ('c', 'l')),
                ('link', False, ('x',)), ('c', True, ('s',)), ('S', True, ('s',)), ('S', False, ('s', 'o'))]
    for mode, with_o, kinds in specials:
        b = with_sentinels(base_case(mode, with_o, kinds))
        cases.append(dict(b, tag='special'))
        if ctx.thorough:
            for c in fault_variants(b, False):
                c['tag'] = 'special-fault'
                cases.append(c)
    # the output cannot be written although it can be opened (ENOSPC on /dev/full): cc1 must fail, the driver must exit non-zero
    if WRITE_ERROR_CASES and os.path.exists('/dev/full'):
        for mode in ('S', 'E'):
            c = with_sentinels(base_case(mode, False, ('c',)))
            c['out'] = '/dev/full'
            c['sentinels'] = ['a.out']
            c['fault'] = {'prog': 'cc1', 'k': 0, 'how': 'exit', 'num': 1, 'leaves': 'n', 'via': 'devfull', 'unit': 0}
            c['tag'] = 'write-error'
            cases.append(c)
    # failing mkstemp (create_tmpfile's error path): every mkstemp call of a few shapes
    for mode, kinds in (('c', ('c', 'c')), ('link', ('c', 's')), ('link', ('c', 'c', 'c'))):
        nt = sum({'c': {'c': 1, 'link': 2}, 's': {'c': 0, 'link': 1}}[k][mode] for k in kinds)
        for k in range(nt):
            c = with_sentinels(base_case(mode, False, kinds))
            c['mkfail'] = k
            c['tag'] = 'mkstemp-fails'
            cases.append(c)
    # de-duplicate
    seen, out = set(), []
    for c in cases:
        k = case_key(c)
        if k not in seen:
            seen.add(k)
            out.append(c)
    return out

def run_cases(ctx, corr, H, cases):
    """real runs in parallel, model in one batch; compare"""
    t0 = time.time()
    with ThreadPoolExecutor(max_workers=max(2, min(NPROC, 16))) as ex:
        obs = list(ex.map(lambda c: H.run_real(c), cases))
    text = ''.join(H.model_line_input(c, o['files0']) + '\n' for c, o in zip(cases, obs))
    model = ctx.driver('trace', text).splitlines()
    corr.extra['real_runs_s'] = round(time.time() - t0, 1)
    for i, (c, o) in enumerate(zip(cases, obs)):
        corr.evaluations += 1
        corr.count(c.get('tag', '?').split(':')[0] if not c.get('tag', '').startswith('fault') else c['tag'])
        corr.count('mode:' + c['mode'])
        if c.get('fault') or c.get('mkfail') is not None or len(c['inputs']) > 1:
            corr.nontrivial.add(case_key(c))
        m = model[i] if i < len(model) else '<missing>'
        viol = oracle(c, o)
        known = (c.get('fault') or {}).get('via') == 'devfull' and WRITE_ERROR_CASES == 'known'
        for v in viol:
            rec = {'what': v, 'input': describe(c), 'case': c, 'expected': 'C14 postcondition',
                   'got': {'status': o['rc'], 'trace': o['trace'], 'changed': o['changed'],
                           'leftover': o['leftover'], 'stderr': o['stderr'][-300:]}}
            if known:
                rec['known_id'] = WRITE_ERROR_KNOWN_ID
                if WRITE_ERROR_KNOWN_ID not in corr.known_hits:
                    corr.known_hits.append(WRITE_ERROR_KNOWN_ID)
            corr.violations.append(rec)
        if known and viol:
            continue      # the model follows the property here, the code does not: not a tie break
        if m != o['line']:
            corr.disagreements.append({'kind': 'driver trace', 'input': describe(c), 'case': c, 'model': m, 'impl': o['line'],
                                       'stderr': o['stderr'][-300:]})
        if viol or m != o['line']:
            if len(corr.violations) + len(corr.disagreements) > 12:
                break
    return obs

def concurrency(ctx, corr, H):
    """N drivers at once in ONE directory, disjoint outputs, some with injected faults; each must behave as when run alone"""
    rng = ctx.rng
    rounds = 20 if ctx.thorough else 6
    for rnd in range(rounds):
        n = rng.randrange(4, 9)
        jobs = []
        for j in range(n):
            mode = rng.choice(['S', 'c', 'link', 'link', 'c', 'E'])
            nin = rng.randrange(1, 4) if mode == 'link' else 1
            kinds = tuple(rng.choice(['c', 'c', 's', 'o']) if mode != 'E' else 'c' for _ in range(nin))
            if mode == 'S':
                kinds = ('c',)
            c = base_case(mode, True, kinds)
            c['out'] = f'job{j}.' + {'E': 'i', 'S': 's', 'c': 'o', 'link': 'bin'}[mode]
            if rng.random() < 0.4:
                fv = fault_variants(c, False)
                fv = [x for x in fv if x['fault']['via'] == 'shim']
                if fv:
                    c = rng.choice(fv)
            c['sentinels'] = [c['out']] if rng.random() < 0.5 else []
            jobs.append(c)
        # shared directory: inputs are shared (same names, same contents), outputs disjoint
        with H.lock:
            num = next(H.counter)
        wd = os.path.join(H.base, f'conc{num}')
        os.makedirs(wd)
        prepared = []
        for c in jobs:
            prepared.append(H.materialize(wd, c))
        # solo reference runs, each in its own fresh copy of the same initial directory
        solo = []
        for c in jobs:
            solo.append(H.run_real(c))
        barrier = threading.Barrier(n)
        with ThreadPoolExecutor(max_workers=n) as ex:
            futs = [ex.submit(H.run_real, c, wd, None, p, barrier) for c, p in zip(jobs, prepared)]
            conc = [f.result() for f in futs]
        for c, s, o in zip(jobs, solo, conc):
            corr.evaluations += 1
            corr.count('concurrent')
            corr.nontrivial.add('conc:' + str(rnd) + ':' + case_key(c))
            own = c['out']
            def own_file(ob):
                if own not in ob['post']:
                    return None
                final = H.snapshot_dir(ob['wd'])       # after ALL drivers of the round have finished
                if own not in final:
                    return None
                return H.classify(ob['wd'], own, ob['pre'], final)
            a = (s['rc'], s['trace'], own_file(s))
            b = (o['rc'], o['trace'], own_file(o))
            if o['leftover']:
                corr.violations.append({'what': f"temporary file(s) left behind in a concurrent run: {o['leftover']}",
                                        'input': {'jobs': [describe(x) for x in jobs]}, 'expected': 'no temporaries', 'got': o['leftover']})
            if a != b:
                corr.violations.append({'what': 'a driver run concurrently with others behaved differently from its solo run',
                                        'input': {'job': describe(c), 'others': [describe(x) for x in jobs if x is not c]},
                                        'expected': {'status': a[0], 'trace': a[1], 'output': a[2]},
                                        'got': {'status': b[0], 'trace': b[1], 'output': b[2]}})
                return
        # nothing but the union of the own outputs changed in the shared directory
        allowed = {c['out'] for c in jobs}
        last = conc[-1]
        final = H.snapshot_dir(wd)
        init = {}
        for o in conc:
            for p, v in o['pre'].items():
                init.setdefault(p, v)
        stray = [p for p in final if p not in allowed and p not in init]
        if stray:
            corr.violations.append({'what': f'concurrent drivers created paths nobody requested: {stray}',
                                    'input': {'jobs': [describe(x) for x in jobs]}, 'expected': sorted(allowed), 'got': stray})
            return
    corr.extra['concurrency_rounds'] = rounds
    model_interleavings(ctx, corr, H)

def model_interleavings(ctx, corr, H):
    """the executable two-driver system of the model (`drv_c14 pair`) under seeded interleavings: each side must print
    what its solo run prints (this exercises C14_concurrent's statement on the executable model)"""
    rng = ctx.rng
    n = 200 if ctx.thorough else 30
    lines, solos = [], []
    for it in range(n):
        pair = []
        for j in range(2):
            mode = rng.choice(['S', 'c', 'link', 'E'])
            kinds = tuple(rng.choice(['c', 's', 'o']) if mode != 'E' else 'c' for _ in range(rng.randrange(1, 3) if mode == 'link' else 1))
            c = base_case(mode, True, kinds)
            c['out'] = f'side{j}.out'
            if rng.random() < 0.5:
                fv = [x for x in fault_variants(c, False) if x['fault']['via'] == 'shim']
                if fv:
                    c = rng.choice(fv)
            pair.append(c)
        files = {}
        for c in pair:
            for i in c['inputs']:
                files[i['name']] = i['pos'] + 1
        a, b = (H.model_line_input(c, files) for c in pair)
        il = ''.join(rng.choice('01') for _ in range(rng.randrange(0, 40)))
        lines.append(f'{a}\n{b}\nil={il}\n')
        solos.append((a, b))
    out = ctx.driver('pair', ''.join(lines)).splitlines()
    solo_out = ctx.driver('trace', ''.join(f'{a}\n{b}\n' for a, b in solos)).splitlines()
    for it in range(n):
        corr.evaluations += 1
        corr.count('model-interleaving')
        parts = out[it].split(' || ')
        sa = solo_out[2 * it].split(' files=')[0]
        sb = solo_out[2 * it + 1].split(' files=')[0]
        if parts[0] != sa or parts[1].replace('tmq#', 'tmp#') != sb:
            corr.disagreements.append({'kind': 'model interleaving differs from model solo run', 'input': lines[it],
                                       'model': out[it], 'impl': [sa, sb]})
            return

# ---------------------------------------------------------------- argv level (parser, composition, dependency output)

def args_leg(ctx, corr):
    """in-process: parse_args of the snapshot (ASan/UBSan) against `drv_c14 parse` on generated argument lists"""
    T = A.read_tables(ctx.lean_dir)
    try:
        AH = A.ArgsHarness(ctx, T, sh, VERIF)
    except RuntimeError as e:
        corr.disagreements.append({'kind': 'argument-parser harness', 'input': '-', 'model': '-', 'impl': str(e)})
        return
    rng = ctx.rng
    cases = A.boundary_words(T)
    n = 40000 if ctx.thorough else 4000
    cases += [A.gen_words(rng, T) for _ in range(n)]
    seen, uniq = set(), []
    for c in cases:
        k = A.US.join(c) + '#' + str(len(c))
        if k not in seen and not (len(c) == 1 and c[0] == ''):
            seen.add(k)
            uniq.append(c)
    real, err = AH.run(uniq)
    model = ctx.driver('parse', ''.join('argv=' + A.US.join(c) + '\n' for c in uniq)).split('\n')
    corr.extra['parse_cases'] = len(uniq)
    if len(real) != len(uniq):
        corr.disagreements.append({'kind': 'argument-parser harness', 'input': '-', 'model': f'{len(uniq)} cases',
                                   'impl': f'{len(real)} lines; stderr: {err[-600:]}'})
        return
    for i, c in enumerate(uniq):
        corr.evaluations += 1
        r = real[i]
        m = model[i] if i < len(model) else '<missing>'
        kind = r.split(' ')[0]
        corr.count('parse:' + kind)
        if len(c) >= 2 and any(w.startswith('-') and len(w) > 1 for w in c):
            corr.nontrivial.add('parse:' + A.US.join(c))
        if kind == 'signal' or kind == 'exit':
            corr.violations.append({'what': 'parse_args does not answer this argument list with a return, usage() or error(): ' + r[:200],
                                    'input': {'argv': ['chibicc'] + c}, 'argv': c, 'expected': 'C14_args_total: usage(1) or a diagnostic',
                                    'got': r[:300]})
            continue
        if A.norm_parse_line(r) != A.norm_parse_line(m):
            corr.disagreements.append({'kind': 'parse_args', 'input': {'argv': ['chibicc'] + c}, 'argv': c, 'model': m[:1500], 'impl': r[:1500]})
            if len(corr.disagreements) > 6:
                break
    for c, r in list(zip(uniq, real))[:4000]:
        if r.startswith('usage 1') and len(c) >= 3 and len(corr.samples) < 2:
            corr.sample({'argv': c, 'real': r})

def argv_cases(ctx):
    rng = ctx.rng
    n = 900 if ctx.thorough else 110
    cases = []
    cdir = os.path.join(VERIF, 'corpus', 'C14')
    if os.path.isdir(cdir):
        for fn in sorted(os.listdir(cdir)):
            if fn.startswith('argv') and fn.endswith('.json'):
                c = json.load(open(os.path.join(cdir, fn)))
                c['corpus'] = fn
                cases.append(c)
    for it in range(n):
        spec = A.gen_spec(rng, ctx.thorough)
        c = {'argv': A.words(spec, rng), 'spec': spec, 'fake_ld': True, 'fault': None, 'mkfail': None, 'tag': 'argv'}
        r = rng.random()
        if r < 0.10:
            c['argv'] = c['argv'] + rng.choice([['-zz'], ['-x'], ['-o'], ['-xfoo'], ['-MF'], ['-D'], ['-L'], ['-I'], ['-Xlinker'], ['-MT'], ['-include']])
            c['tag'] = 'argv:odd'
        elif r < 0.40:
            prog = rng.choice(['cc1', 'as', 'ld', 'cc1'])
            how, num = rng.choice([('exit', 1), ('exit', 3), ('sig', 11), ('sig', 9)])
            c['fault'] = {'prog': prog, 'k': rng.choice([0, 0, 0, 1]), 'how': how, 'num': num, 'leaves': rng.choice(['n', 'w', 'r']) if prog != 'cc1' else 'n',
                          'via': 'shim', 'unit': None}
            c['tag'] = 'argv:fault:' + prog
        elif r < 0.45:
            c['mkfail'] = rng.randrange(0, 3)
            c['tag'] = 'argv:mkstemp-fails'
        elif r < 0.60:
            cs = [i for i in spec['inputs'] if A.effective_kind(spec, i) == 'c']
            if cs and '-E' not in spec['modes'] and '-M' not in spec['modes']:
                rng.choice(cs)['bad'] = rng.choice(['syntax', 'codegen'])
                c['tag'] = 'argv:bad-source'
        modes = spec['modes']
        if '-E' in modes and '-M' not in modes and spec['out'] not in (None, '-'):
            c['cc1_o'] = spec['out']
        cases.append(c)
    return cases

def argv_key(c):
    return json.dumps([c['argv'], c.get('fault') and [c['fault'][k] for k in ('prog', 'k', 'how', 'num', 'leaves')], c.get('mkfail')])

def argv_describe(c):
    return {'command': 'chibicc ' + ' '.join(json.dumps(w) if (not w or re.search(r'[^A-Za-z0-9_./=,+-]', w)) else w for w in c['argv']),
            'fault': c.get('fault'), 'mkfail': c.get('mkfail')}

def dep_text_check(ctx, H, c, o):
    """the TEXT of every dependency file a fault-free run wrote against Model depText (`drv_c14 deptext`); returns disagreements"""
    spec = c['spec']
    out = []
    snapdir = os.path.dirname(H.cc)
    std = [os.path.join(snapdir, 'include'), '/usr/local/include', '/usr/include/x86_64-linux-gnu', '/usr/include']
    pre_inc = [m[1] for m in spec['misc'] if m[0] == '-include']
    lines, wants = [], []
    for inp in spec['inputs']:
        if A.effective_kind(spec, inp) != 'c':
            continue
        dp = A.dep_path(spec, inp)
        if dp is None:
            continue
        d = os.path.dirname(inp['name']) or '.'
        incl = pre_inc + [inp['name'], d + '/c14_h.h', os.path.join(snapdir, 'include', 'stddef.h')]
        lines.append('\t'.join(['argv=' + A.US.join(c['argv']), 'input=' + inp['name'], 'incl=' + A.US.join(incl), 'std=' + A.US.join(std)]))
        wants.append((inp, dp))
    if not lines:
        return out
    model = ctx.driver('deptext', ''.join(l + '\n' for l in lines)).split('\n')
    # several units may share one dependency file: the last one wins
    final = {}
    for (inp, dp), m in zip(wants, model):
        final[dp] = (inp, m)
    for dp, (inp, m) in final.items():
        mm = re.match(r'deps=(\S*) path=(\S+)$', m)
        if not mm:
            out.append({'kind': 'dependency text', 'input': argv_describe(c), 'case': c, 'model': m, 'impl': '-'})
            continue
        want_text, want_path = A.dec(mm.group(1)), A.dec(mm.group(2))
        p = os.path.join(o['wd'], dp)
        got = open(p, 'rb').read().decode(errors='replace') if os.path.isfile(p) else None
        if want_path != dp or got != want_text:
            out.append({'kind': 'dependency text', 'input': argv_describe(c), 'case': c, 'model': {'path': want_path, 'text': want_text},
                        'impl': {'path': dp, 'text': got}})
    return out

def argv_oracle(c, o):
    """the property's postconditions on a real run of a structured command (independent of the model)"""
    bad = []
    spec = c['spec']
    rc = o['rc']
    if o['leftover']:
        bad.append(f"temporary file(s) left behind: {o['leftover']}")
    if rc < 0:
        bad.append(f'the driver itself died (signal/timeout {rc})')
        return bad
    failed_child = [x for x in o['children'] if x[2] != 'exit:0']
    if failed_child and rc == 0:
        bad.append(f'a child failed ({failed_child[0][0]} #{failed_child[0][1]}: {failed_child[0][2]}) but the driver exited with status 0')
    # a unit whose front end failed has none of its outputs created or overwritten -- the dependency file included
    cs = [i for i in spec['inputs'] if A.effective_kind(spec, i) == 'c']
    for prog, k, st, opath in o['children']:
        if prog == 'cc1' and st != 'exit:0' and k < len(cs):
            inp = cs[k]
            front_end = bool(inp.get('bad')) or (c.get('fault') or {}).get('prog') == 'cc1'
            if not front_end:
                continue
            dp = A.dep_path(spec, inp)
            later = [A.dep_path(spec, j) for j in cs[:k]]
            if dp is not None and dp in o['changed'] and dp not in later:
                bad.append(f"front end of {inp['name']} failed but its dependency file {dp} was created/overwritten")
            if opath is not None and opath in o['changed']:
                bad.append(f"front end of {inp['name']} failed but its output {opath} was created/overwritten")
    if c.get('expect_fail') and rc == 0:
        bad.append('an output of this command cannot be written but the driver exited with status 0')
    if c['tag'] != 'argv':
        return bad
    kind, outs = A.expected(spec)
    if kind == 'fail' and rc == 0:
        bad.append(f'the command must be rejected ({outs}) but the driver exited with status 0')
    if kind == 'ok':
        if rc != 0:
            bad.append(f"nothing can fail in this command but the driver exited with status {rc}: {o['stderr'][-300:]}")
        else:
            changed = set(o['changed'])
            if changed != set(outs):
                bad.append(f'created/overwritten paths {sorted(changed)} differ from the requested outputs {sorted(outs)}')
            name_tags = dict(o['files0'])
            for p, cls in outs.items():
                if p in o['post']:
                    got = A.classify(H_GLOBAL[0], o['wd'], p, o['pre'], o['post'], name_tags)
                    if got[0] != cls:
                        bad.append(f'requested output {p} should be {cls}, is {got}')
    return bad

H_GLOBAL = [None]

def argv_leg(ctx, corr, H):
    H_GLOBAL[0] = H
    cases = argv_cases(ctx)
    t0 = time.time()
    with ThreadPoolExecutor(max_workers=max(2, min(NPROC, 16))) as ex:
        obs = list(ex.map(lambda c: H.run_real(c), cases))
    text = ''
    for c, o in zip(cases, obs):
        faults = A.observed_faults(H, c, o)
        text += A.model_input(c, o, H.libpaths, faults) + '\n'
    model = ctx.driver('argv', text).split('\n')
    corr.extra['argv_runs_s'] = round(time.time() - t0, 1)
    corr.extra['argv_cases'] = len(cases)
    for i, (c, o) in enumerate(zip(cases, obs)):
        corr.evaluations += 1
        corr.count('argv:corpus' if c.get('corpus') else c['tag'])
        corr.nontrivial.add('argv:' + argv_key(c))
        m = model[i] if i < len(model) else '<missing>'
        viol = argv_oracle(c, o)
        for v in viol:
            corr.violations.append({'what': v, 'input': argv_describe(c), 'case': c, 'expected': 'C14 postcondition',
                                    'got': {'status': o['rc'], 'trace': o['trace'], 'changed': o['changed'], 'leftover': o['leftover'],
                                            'stderr': o['stderr'][-300:]}})
        if m != o['line']:
            corr.disagreements.append({'kind': 'driver run from argv', 'input': argv_describe(c), 'case': c, 'model': m, 'impl': o['line'],
                                       'stderr': o['stderr'][-300:]})
        elif o['rc'] == 0 and c['tag'] == 'argv':
            corr.disagreements += dep_text_check(ctx, H, c, o)
            if '=deps[' in o['line']:
                corr.count('argv:deps-file-text-compared')
        if len(corr.violations) + len(corr.disagreements) > 8:
            break
    for c, o in zip(cases, obs):
        if c.get('spec', {}).get('deps') and o['rc'] == 0 and len(corr.samples) < 5:
            corr.sample({'case': argv_describe(c), 'real': o['line'][:700]})
            break

def stdout_write_errors(ctx, corr, H, only=None):
    """the requested output is STANDARD OUTPUT (-E without -o, `-o -`, -M / -MM) and cannot be written (ENOSPC on /dev/full,
    a closed descriptor): "unwritable output" of the property - the driver must exit non-zero and leave nothing behind.
    Real runs only (the model's file system has no descriptor table); cwd = a fresh directory per case."""
    if not os.path.exists('/dev/full'):
        corr.count('stdout-write-error-skipped')
        return
    shapes = [['-E', 'a.c'], ['-E', '-o', '-', 'a.c'], ['-S', '-o', '-', 'a.c'], ['-M', 'a.c'], ['-MM', 'a.c'], ['-E', 'a.c', 'b.c'],
              ['-E', '-o', '-', 'a.c', 'b.c'], ['-M', '-MP', 'a.c'], ['-E', '-MD', 'a.c']]
    for si, argv in enumerate(shapes):
        for how in ('devfull', 'closed'):
            if only and (list(argv), how) != (list(only[0]), only[1]):
                continue
            with H.lock:
                num = next(H.counter)
            wd = os.path.join(H.base, f'so{num}')
            os.makedirs(wd)
            for n in ('a.c', 'b.c'):
                open(os.path.join(wd, n), 'w').write('#include "h.h"\nint f_%s(void) { return VALUE; }\n' % n[0])
            open(os.path.join(wd, 'h.h'), 'w').write('#define VALUE 42\n')
            tmpd = os.path.join(wd, 'tmp')
            os.makedirs(tmpd)
            before = set(os.listdir('/tmp'))
            if how == 'devfull':
                out = open('/dev/full', 'w')
                p = subprocess.Popen([ctx.cc] + argv, cwd=wd, stdout=out, stderr=subprocess.PIPE)
            else:
                p = subprocess.Popen(['sh', '-c', 'exec "$0" "$@" >&-', ctx.cc] + argv, cwd=wd, stderr=subprocess.PIPE)
            try:
                _, se = p.communicate(timeout=60)
                rc = p.returncode
            except subprocess.TimeoutExpired:
                p.kill(); p.communicate(); rc, se = -9, b'timeout'
            if how == 'devfull':
                out.close() if not out.closed else None
            corr.evaluations += 1
            corr.count('stdout-write-error')
            corr.nontrivial.add(f'stdout-write-error {how} {" ".join(argv)}')
            leftover = sorted(x for x in set(os.listdir('/tmp')) - before if x.startswith('chibicc-'))
            created = sorted(x for x in os.listdir(wd) if x not in ('a.c', 'b.c', 'h.h', 'tmp') and not (x.endswith('.d') and '-MD' in argv))
            bad = []
            if rc == 0:
                bad.append('exit status 0 although the output (standard output) could not be written')
            if created:
                bad.append(f'files created: {created}')
            if bad:
                corr.violations.append({'what': '; '.join(bad), 'input': f'chibicc {" ".join(argv)} > ' + ('/dev/full' if how == 'devfull' else '&-'),
                                        'kind': 'stdout-write-error', 'argv': argv, 'how': how, 'expected': 'non-zero exit status, nothing created',
                                        'got': {'status': rc, 'stderr': se.decode(errors='replace')[-300:], 'created': created, 'tmp': leftover}})
                return

def correspond(ctx, corr):
    H = get_harness(ctx)
    corr.rule = ('cases = command shapes {-E,-S,-c,link} x {-o, none} x 1..3 inputs (.c/.s/.o, plus -l, unknown extension, sub/dir '
                 'names) x {no fault, every single fault point of the subprocess pipeline: k-th cc1 / k-th as / ld by exit status or '
                 'by signal (shims), real front-end failures (syntax, preprocessor, tokenizer, code-generation error, missing input), '
                 'missing output directory, failing mkstemp}.  Each case runs the real driver under the LD_PRELOAD observer and the '
                 'Lean model; traces, status and final file sets are compared, and the property postconditions are checked on the '
                 'real run.  non-trivial = a fault is injected or the command has more than one input; distinct = by case text.  '
                 'Argument parser: every exact/prefix option of the regenerated ladder alone, after a file, before each option that takes '
                 'an argument, plus seeded random argument lists (joined/separate/missing/empty/odd arguments, several inputs) through the '
                 'snapshot\'s parse_args in process (ASan/UBSan) and through the model; non-trivial = at least two words one of which is an '
                 'option.  Driver from argv: structured command lines (mode flags incl. -M, -o joined/separate, -x, -MD/-MMD/-MF/-MP/-MT/-MQ, '
                 '-D/-U/-I/-include/-idirafter, -l/-L/-Wl,/-Xlinker/-s/-static/-shared, ignored options, 1..3 inputs of every kind, '
                 'trailing options without argument) x {no fault, shim faults, bad sources, failing mkstemp, unwritable outputs}; the model '
                 'is given the children\'s observed outcomes, and status, trace, files, dependency text and every child command line are '
                 'compared; independently the property\'s postconditions (exactly the requested outputs incl. dependency files; a failing '
                 'front end leaves neither output nor dependency file).  '
                 'Standard output as the requested output (-E, -o -, -M, -MM) made unwritable (/dev/full, closed descriptor): non-zero exit, nothing created.  '
                 'Then N=4..8 drivers run simultaneously in one directory and each is compared with its solo run.')
    cases = gen_cases(ctx)
    obs = run_cases(ctx, corr, H, cases)
    for c, o in list(zip(cases, obs))[:400]:
        if c.get('fault') and c['fault']['how'] == 'sig' and len(corr.samples) < 3:
            corr.sample({'case': describe(c), 'real': o['line'][:600]})
    corr.exhaustive = bool(ctx.thorough)
    corr.extra['exhaustive_subspace'] = ('all shapes with 1..3 inputs over {.c,.s,.o} x every single fault point x {exit 1, exit 3, '
                                         'SIGSEGV, SIGKILL} x {output untouched, junk, removed}' if ctx.thorough
                                         else 'all shapes with 1..3 inputs over {.c,.s,.o}; per shape a seeded sample of 7 fault points')
    if not corr.violations and not corr.disagreements:
        stdout_write_errors(ctx, corr, H)
    if not corr.violations and not corr.disagreements:
        args_leg(ctx, corr)
    if not corr.violations and not corr.disagreements:
        argv_leg(ctx, corr, H)
    if not corr.violations and not corr.disagreements:
        concurrency(ctx, corr, H)
    # a handful of witnesses is enough; every one of them is a replay file
    del corr.violations[4:]
    del corr.disagreements[4:]

def search(ctx, broken, corr):
    """a proof or the tie broke without a violation in the standard run: full enumeration with the postconditions as oracle"""
    H = get_harness(ctx)
    H_GLOBAL[0] = H
    # (a) the argument parser in process: any argument list that crashes parse_args
    try:
        T = A.read_tables(ctx.lean_dir)
        AH = A.ArgsHarness(ctx, T, sh, VERIF)
        words = A.boundary_words(T) + [A.gen_words(ctx.rng, T) for _ in range(6000)]
        words = [w for w in words if not (len(w) == 1 and w[0] == '')]
        real, err = AH.run(words)
        for w, r in zip(words, real):
            if r.split(' ')[0] in ('signal', 'exit'):
                return {'what': 'parse_args does not answer this argument list with a return, usage() or error(): ' + r[:200],
                        'input': {'argv': ['chibicc'] + w}, 'argv': w, 'expected': 'usage(1) or a diagnostic', 'got': r[:300]}
    except Exception as e:
        log('C14 search: argument-parser harness unavailable:', str(e)[:300])
    # (b) structured command lines with the property's postconditions as oracle
    for c in argv_cases(ctx):
        o = H.run_real(c)
        v = argv_oracle(c, o)
        if v:
            return {'what': v[0], 'input': argv_describe(c), 'case': c, 'expected': 'C14 postcondition',
                    'got': {'status': o['rc'], 'trace': o['trace'], 'changed': o['changed'], 'leftover': o['leftover']}}
    # (c) the enumerated shapes x fault points
    for mode, with_o, kinds in shapes(3, ['c', 's', 'o']):
        b = with_sentinels(base_case(mode, with_o, kinds))
        for c in [b] + fault_variants(b, True):
            o = H.run_real(c)
            v = oracle(c, o)
            if v:
                return {'what': v[0], 'input': describe(c), 'case': c, 'expected': 'C14 postcondition',
                        'got': {'status': o['rc'], 'trace': o['trace'], 'changed': o['changed'], 'leftover': o['leftover']}}
    return None

def replay(ctx, corr, path):
    payload = json.load(open(path))
    if payload.get('kind') == 'stdout-write-error':
        H = get_harness(ctx)
        stdout_write_errors(ctx, corr, H, only=(payload['argv'], payload['how']))
        print('replay:', payload.get('input'), '->', 'VIOLATED' if corr.violations else 'holds')
        return
    c = payload.get('case')
    if not c and payload.get('argv') is not None:
        words = payload['argv']
        T = A.read_tables(ctx.lean_dir)
        AH = A.ArgsHarness(ctx, T, sh, VERIF)
        real, err = AH.run([words])
        m = ctx.driver('parse', 'argv=' + A.US.join(words) + '\n').strip()
        corr.evaluations = 1
        print('replay: parse_args on', ['chibicc'] + words)
        print('  real :', real[0] if real else err[-300:])
        print('  model:', m)
        r = real[0] if real else 'no output'
        if r.split(' ')[0] in ('signal', 'exit', 'no'):
            corr.violations.append({'what': 'parse_args does not answer this argument list with a return, usage() or error(): ' + r[:200],
                                    'input': {'argv': ['chibicc'] + words}, 'argv': words, 'expected': 'usage(1) or a diagnostic', 'got': r[:300]})
        elif A.norm_parse_line(r) != A.norm_parse_line(m):
            corr.disagreements.append({'kind': 'parse_args', 'input': {'argv': ['chibicc'] + words}, 'argv': words, 'model': m, 'impl': r})
        return
    if c and 'argv' in c:
        H = get_harness(ctx)
        H_GLOBAL[0] = H
        o = H.run_real(c)
        corr.evaluations = 1
        m = ctx.driver('argv', A.model_input(c, o, H.libpaths, A.observed_faults(H, c, o)) + '\n').strip()
        v = argv_oracle(c, o)
        print('replay:', argv_describe(c))
        print('  real :', o['line'])
        print('  model:', m)
        print('  postconditions:', v or 'hold')
        for x in v:
            corr.violations.append({'what': x, 'input': argv_describe(c), 'case': c, 'expected': 'C14 postcondition',
                                    'got': {'status': o['rc'], 'trace': o['trace'], 'changed': o['changed'], 'leftover': o['leftover']}})
        if m != o['line']:
            corr.disagreements.append({'kind': 'driver run from argv', 'input': argv_describe(c), 'case': c, 'model': m, 'impl': o['line']})
        elif o['rc'] == 0 and c.get('tag') == 'argv':
            corr.disagreements += dep_text_check(ctx, H, c, o)
        return
    if not c:
        corr.extra['replay'] = 'replay file carries no case'
        return
    H = get_harness(ctx)
    o = H.run_real(c)
    corr.evaluations = 1
    v = oracle(c, o)
    m = ctx.driver('trace', H.model_line_input(c, o['files0']) + '\n').strip()
    print('replay:', describe(c))
    print('  real :', o['line'])
    print('  model:', m)
    print('  postconditions:', v or 'hold')
    for x in v:
        corr.violations.append({'what': x, 'input': describe(c), 'case': c, 'expected': 'C14 postcondition',
                                'got': {'status': o['rc'], 'trace': o['trace'], 'changed': o['changed'], 'leftover': o['leftover']}})
    if m != o['line']:
        corr.disagreements.append({'kind': 'driver trace', 'input': describe(c), 'case': c, 'model': m, 'impl': o['line']})

MANIFEST = {
    'level_text': 'Lean 4 theorems about the driver FROM ARGV: the option ladder of parse_args, take_arg\'s list, the linker/assembler/cc1 '
                  'command lines, cc1\'s write order and every file-system call site are regenerated from main.c on every run; parse_args '
                  'is total - no argument list, in particular no option missing its argument at the end, reaches a NULL dereference or '
                  'stores a NULL (C14_args_total: a whole-table decide that pass 1 and pass 2 walk argv in step); the cc1 child re-parses '
                  'the same options (C14_cc1_reparse); the process always exits, with non-zero status iff something failed, without '
                  'temporaries (C14_argv_*), and is the driver-loop run of the parsed command (C14_argv_compose), so that the following '
                  'hold for argv; dependency output (-M/-MD/-MF): written last and only on success (C14_deps_written_last), never into a '
                  'path of the driver, untouched when the front end failed (C14_deps_output, C14_deps_untouched_on_failure, '
                  'C14_deps_never_output); the only resources two drivers share are user-named outputs and mkstemp\'s name space '
                  '(C14_shared_resources, C14_concurrent_hypotheses, C14_concurrent_mkstemp).  '
                  'Lean 4 theorems over a small-step model of main.c\'s driver, for ALL commands (any number of inputs of any '
                  'kind), ALL fault schedules (any child may end with any exit code or signal; a failing as/ld may leave junk) '
                  'and all initial file systems: the driver always terminates; exit status 1 iff some step failed (C14_status); '
                  'no temporary exists in any terminal world (C14_no_temps); a failing front end leaves its unit\'s output path '
                  'untouched, starts nothing afterwards, and earlier outputs are complete (C14_no_partial_output); without '
                  'faults exactly the requested outputs are created/overwritten with complete contents (C14_success_outputs); '
                  'any interleaving of two drivers with disjoint write sets gives each its solo result (C14_concurrent). The '
                  'model is tied to the code on every run by trace correspondence with the real driver under PATH/argv[0] shims '
                  'and an LD_PRELOAD observer over the enumerated shapes x single fault points, plus real concurrent runs.',
    'level_note': 'Trusted: Lean kernel (axioms propext, Classical.choice, Quot.sound only), the hand model (tied by differential '
                  'trace correspondence, which is testing), the harness; assumed OS behaviour (mkstemp freshness, atexit on '
                  'exit/return, children write only their output). cc1/as/ld are environment: their failure is universally '
                  'quantified, their success is "writes the output completely". Real scheduler interleavings are sampled, '
                  'the theorem covers the interleavings of the model.',
    'technique': 'Lean 4 invariants over all fault schedules of a small-step system (big-step presentation proved equal), '
                 'non-interference proof for two interleaved drivers; process-level trace correspondence with the real driver',
    'design_ref': 'DESIGN.md section 6, C14',
}
