/-
C13 — code generation never reaches an abort site on trees that carry what it dereferences (DESIGN.md section 6, C13:
`genExpr/genStmt` — `unreachable()`, `assert(depth == 0)`, `reg_ax/reg_dx`, NULL dereferences).  Property theorems only;
lemmas in Lemmas/C13Codegen.lean and Lemmas/C13CodegenMain.lean.  The model is C20's byte-exact double of codegen.c
(Model/Codegen.lean; tie: assembly text equal to `chibicc -S` on every dumped function).

Failure outcomes of the model (`M α = St → Except String …`): the three `error_tok` sites of codegen.c — "not an lvalue",
"invalid expression", "invalid statement": located diagnostics, the set `Located` — and everything else: "NULL dereference:
…", "unreachable: reg_ax/reg_dx/store_fp", "assert(…)", "argreg: index out of range", "align_to: division by zero",
"gen_expr: not an expression …".

Scope `okE/okA/okS` (decidable, Lemmas/C13Codegen.lean): every expression kind except calls (`ND_FUNCALL`) and the two atomic
builtins (`ND_CAS`, `ND_EXCH`), every statement kind; `return` of a struct/union value is outside.  Each node carries the
fields its arm dereferences (`node->ty`, `node->var->ty`, `node->member`, the operand types `cmp_zero`/`cast` read, the declared
type of a bit-field in the type table) — which parse.c/type.c establish for every tree they hand to codegen (`add_type`), and
which the AST dump of the tie shows for every function compiled.  The typing side condition of C20 (`typedE/typedS`: where
long double values live) is independent of it: an ill-typed tree in the sense of C20 still fails only with a located
diagnostic.

Outside the scope: the call arm (`push_args`, register classification: `argreg` indices, `assert(ty->size …)` of
copy_struct_reg), `reg_ax/reg_dx` in the atomic arms — the campaign found a real `internal error at codegen.c:76` there
(`__builtin_compare_and_swap(int *, long double *, …)`, repaired by fix 4993f7e).
-/
import ChibiVerif.Lemmas.C13CodegenMain
import ChibiVerif.Props.C20

namespace ChibiVerif.Props.C13
open ChibiVerif.Ast ChibiVerif.Asm ChibiVerif.Codegen ChibiVerif.C13Codegen

/-- full statement: on every tree (calls and atomics included) whose nodes carry their types, code generation fails only
    with a located diagnostic.  Open: the call arm and the atomic arms are not covered by `okE`. -/
def C13_codegen_nocrash_Statement : Prop :=
  ∀ (env : Env) (n : Node) (s : St) (e : String), ChibiVerif.C20Scope.typedS env n = true →
    genStmt env n s = .error e → Located e

/-- **C13 (gen_expr / gen_addr never abort; partial).**  For every environment and every expression tree in scope, whatever
    the state: `gen_expr` and `gen_addr` end in code or in "not an lvalue" / "invalid expression" / "invalid statement" —
    never in a NULL dereference, `unreachable()`, an `assert` or an out-of-range register index. -/
theorem C13_codegen_expr_nocrash_partial (env : Env) (n : Node) (s : St) (e : String) :
    (okE env n = true → genExpr env n s = .error e → Located e) ∧
    (okA env n = true → genAddr env n s = .error e → Located e) :=
  ⟨fun h he => (exprClean env n h).out s e he, fun h he => (addrClean env n h).out s e he⟩

/-- a scalar type record for the examples -/
def exTy (k : TyKind) (sz : Int) (base : Int := -1) : Ty :=
  { (default : Ty) with kind := k, size := sz, align := sz, base := base }
def exVar (id : Int) (name : String) (t : Ty) : Var :=
  { (default : Var) with id := id, name := some name, ty := some t, isLocal := true }

-- non-vacuity: `*p = -x % 3.0` (ill-typed for `%`: ends in "invalid expression"), with all node types present
example :
    let ti := exTy .int 4
    let td := exTy .double 8
    let tp := exTy .ptr 8 0
    let x : Node := .var ⟨some ti, 1, 1⟩ (some (exVar 1 "x" ti))
    let p : Node := .var ⟨some tp, 1, 1⟩ (some (exVar 2 "p" tp))
    let n : Node := .assign ⟨some td, 1, 1⟩ (.deref ⟨some td, 1, 1⟩ p)
      (.binop ⟨some td, 1, 1⟩ .mod (.cast ⟨some td, 1, 1⟩ (.neg ⟨some ti, 1, 1⟩ x)) (.num ⟨some td, 1, 1⟩ 0 0 0 0 0))
    okE { fpic := false, types := [ti] } n = true := by
  decide

/-- **C13 (gen_stmt never aborts; partial).**  The same for every statement tree in scope (all control flow, labels, `goto`,
    `switch` with any case list, statement expressions, `asm`, `return` of a scalar or of nothing). -/
theorem C13_codegen_stmt_nocrash_partial (env : Env) (n : Node) (h : okS env n = true) (s : St) (e : String)
    (he : genStmt env n s = .error e) : Located e :=
  (stmtClean env n h).out s e he

example : okS { fpic := false, types := [] }
    (.block ⟨none, 1, 1⟩ (.cons (.if_ ⟨none, 1, 1⟩ (.num ⟨some (exTy .int 4), 1, 1⟩ 1 0 0 0 0)
      (.ret ⟨none, 1, 1⟩ .null) .null) (.cons (.goto_ ⟨none, 1, 1⟩ (some "l") (some ".L1")) .nil))) = true := by
  decide

/-- **C13 (a function body: neither an abort site nor `assert(depth == 0)`).**  For a body in scope (and in C20's `okN`: it
    contains no call at all, so vacuously no empty-struct argument), started with `depth == 0`: `emit_text`'s
    `gen_stmt(fn->body); assert(depth == 0);` ends in code or in a located diagnostic.  Corollary of `C20_assert`. -/
theorem C13_codegen_body_nocrash_partial (env : Env) (fn : Obj) (hs : okS env fn.body = true)
    (hn : ChibiVerif.C20Scope.okN fn.body = true) (s : St) (h0 : s.depth = 0) (e : String)
    (he : fnBody env fn s = .error e) : Located e := by
  cases hg : genStmt env fn.body s with
  | error e' =>
    have : fnBody env fn s = .error e' := by
      simp [fnBody, bind, M.bind, hg]
    rw [this] at he
    simp only [Except.error.injEq] at he
    subst he
    exact (stmtClean env fn.body hs).out s e' hg
  | ok r =>
    obtain ⟨u, s', ls⟩ := r
    have := ChibiVerif.Props.C20.C20_assert env fn hn s s' ls hg h0
    rw [this] at he
    cases he

end ChibiVerif.Props.C13
