/-
C06 — calls obey the System V x86-64 calling convention.

Property theorems only (helper lemmas: Lemmas/CallConvLemmas.lean, Lemmas/PsABILemmas.lean).
Model: Model/CallConv.lean (codegen.c push_args / push_args2 / ND_FUNCALL / assign_lvar_offsets / emit_text /
copy_struct_reg / copy_struct_mem / copy_ret_buffer, include/stdarg.h); specification: Spec/PsABI.lean (psABI 3.2.3,
3.5.7); known-finding regions: Spec/CallRegions.lean.  Every theorem is for **all** signatures: any number and order of
parameters, any member trees.

`sizesOk s` (decidable) is the well-formedness of the types of `s`: an aggregate of at most 16 bytes is not empty and
an eightbyte moved with movss/movsd has 4 or 8 bytes (fails only for the GNU empty struct and for packed structs: known
finding C06-packed-unaligned-param, where cc1 aborts), integer-class scalars have 1..8 bytes, no array is passed by value.
`supported s` (decidable) = outside the regions of the five known findings of known_findings.json.
-/
import ChibiVerif.Model.CallConv
import ChibiVerif.Spec.PsABI
import ChibiVerif.Spec.CallRegions
import ChibiVerif.Lemmas.CallConvLemmas
import ChibiVerif.Lemmas.PsABILemmas
import ChibiVerif.Lemmas.VaLemmas

namespace ChibiVerif.Props.C06
open ChibiVerif.CallConv
open ChibiVerif.Spec
open ChibiVerif.Spec.CallRegions (supported)
open ChibiVerif.Gen.Templates (templates GP_MAX FP_MAX)

/-! ## chibicc ↔ chibicc -/

/-- full statement: for every signature, neither side reaches an abort site of cc1 and the callee reads every named
    parameter from where the caller put the argument.  False as stated: see Findings/C06.lean (packed / empty structs). -/
def C06_self_Statement : Prop :=
  ∀ s : Sig, ∃ a, callerAssign s = .ok a ∧ calleeAssign s = .ok (a.take s.nNamed)

/-- **C06 (chibicc-compiled caller and callee agree).**  For every well-formed signature the three loops of the caller
    (classification in `push_args`, the two pushing passes, the pop phase of `ND_FUNCALL`) and the two loops of the callee
    (`assign_lvar_offsets`, the register stores of the prologue) put and expect every argument in the same register
    pieces or at the same stack offset, and no abort site (`assert(depth == 0)`, `unreachable()`, `argreg64[6]`) is reached.
    Missing for the full statement: packed structs with unaligned members and the GNU empty struct (known finding). -/
theorem C06_self_partial (s : Sig) (h : sizesOk s = true) :
    ∃ a, callerAssign s = .ok a ∧ calleeAssign s = .ok (a.take s.nNamed) := by
  simp only [sizesOk, Bool.and_eq_true] at h
  refine ⟨_, callerAssign_eq s h.1, ?_⟩
  rw [calleeAssign_eq s h.1, Sig.named, refLoop_take]

example : sizesOk { ret := some (.agg false 24 8 (.cons 0 (.int 8 false false) (.cons 8 (.int 8 false false) (.cons 16 .dbl .nil)))),
                    params := [.int 4 false false, .agg false 16 8 (.cons 0 (.int 8 false false) (.cons 8 .dbl .nil)), .ldbl,
                               .dbl, .flt, .agg false 12 4 (.cons 0 (.arr .flt 3) .nil)],
                    nNamed := 4, variadic := true } = true := by decide

/-! ## chibicc ↔ any ABI-conforming compiler -/

/-- full statement: for every well-formed signature both sides of chibicc place arguments, al and return values exactly as
    psABI 3.2.3 does.  False: see the five witnesses in Findings/C06.lean. -/
def C06_abi_Statement : Prop :=
  ∀ s : Sig, sizesOk s = true →
    callerAssign s = .ok (PsABI.assign s) ∧ calleeAssign s = .ok ((PsABI.assign s).take s.nNamed) ∧
    callerAl s = PsABI.al s ∧ retCaller s.ret = .ok (PsABI.ret s.ret) ∧ retCallee s.ret = .ok (PsABI.ret s.ret)

/-- **C06 (psABI conformance outside the known findings).**  For every well-formed signature outside the regions
    `C06-struct-with-ldouble`, `C06-packed-unaligned-param`, `C06-padding-eightbyte`, `C06-ldouble-stack-align`:
    the caller puts every argument where psABI 3.2.3 puts it (registers rdi rsi rdx rcx r8 r9 / xmm0-7 per eightbyte,
    all-or-nothing for aggregates, stack slots left to right from (%rsp)), the callee takes every named parameter from
    there, `mov $N, %rax` gives the number of vector registers used, and return values travel in rax/rdx/xmm0/xmm1/st0 or
    through the hidden pointer with rax = that pointer on return, on both sides.
    Proof: structural induction on member trees (`hasFlonum_leaves`: has_flonum is a statement about the flat list of
    scalars), the merge loop invariant (`foldClasses_getD`), and induction on the argument list with the (gp, fp, stack)
    counters as invariant (`caller_loop`, `callee_loop`, `abi_loop`). -/
theorem C06_abi_partial (s : Sig) (hs : sizesOk s = true) (h : supported s = true) :
    callerAssign s = .ok (PsABI.assign s) ∧ calleeAssign s = .ok ((PsABI.assign s).take s.nNamed) ∧
    callerAl s = PsABI.al s ∧ retCaller s.ret = .ok (PsABI.ret s.ret) ∧ retCallee s.ret = .ok (PsABI.ret s.ret) := by
  simp only [sizesOk, Bool.and_eq_true] at hs
  simp only [supported, Bool.and_eq_true, Bool.not_eq_true'] at h
  obtain ⟨⟨hty, hret⟩, hpad⟩ := h
  have hmem := retInMemory_eq s.ret hret
  have hb : min (b2n (retLarge s.ret)) GP_MAX = b2n (retLarge s.ret) := by
    simp only [b2n, GP_MAX_eq]; split <;> omega
  have h0 : min 0 FP_MAX = 0 := by simp
  have hst : ((if PsABI.retInMemory s.ret then 1 else 0 : Nat), (0 : Nat), (0 : Nat))
      = (min (b2n (retLarge s.ret)) GP_MAX, min 0 FP_MAX, 0) := by
    rw [hb, h0, hmem]; rfl
  have hloop := abi_loop s.params (b2n (retLarge s.ret)) 0 0 hs.1 hty (by
    simp only [CallRegions.stackAlignPad] at hpad; rw [hst] at hpad; exact hpad)
  have hassign : PsABI.assign s = (refLoop (b2n (retLarge s.ret), 0, 0) s.params).2 := by
    simp only [PsABI.assign]; rw [hst, hloop]
  have hrets := ret_abi s.ret hret (by
    intro t ht
    have := hs.2
    rw [ht] at this
    exact this)
  refine ⟨?_, ?_, ?_, hrets.1, hrets.2⟩
  · rw [hassign]; exact callerAssign_eq s hs.1
  · rw [hassign, calleeAssign_eq s hs.1, Sig.named, refLoop_take]
  · have h4 := (caller_loop s.params (b2n (retLarge s.ret)) 0 0 0 hs.1).2.2.2
    rw [hb, h0] at h4
    simp only [callerAl, popPhase, PsABI.al]
    rw [hst, hloop, h4]

example :
    let s : Sig := { ret := some (.agg false 24 8 (.cons 0 (.int 8 false false) (.cons 8 (.int 8 false false) (.cons 16 .dbl .nil)))),
                     params := [.int 4 false false, .int 8 false false, .int 8 false false, .int 8 false false,
                                .agg false 16 8 (.cons 0 (.int 8 false false) (.cons 8 .dbl .nil)),
                                .agg false 16 8 (.cons 0 (.int 8 false false) (.cons 8 (.int 8 false false) .nil)),
                                .dbl, .flt, .agg false 12 4 (.cons 0 (.arr .flt 3) .nil), .int 1 true true],
                     nNamed := 10, variadic := false }
    sizesOk s = true ∧ supported s = true := by decide

/-! ## variadic functions -/

/-- the signature seen by the callee's prologue: the named parameters only -/
def namedSig (s : Sig) : Sig := { s with params := s.named }

/-- full statement: in a chibicc-compiled variadic function the k-th `va_arg` reads the k-th variadic argument from where
    psABI 3.2.3 / 3.5.7 put it, for every variadic argument type.  False for aggregates of at most 16 bytes
    (known finding C06-va-arg-small-struct, Findings/C06.lean). -/
def C06_va_Statement : Prop :=
  ∀ s : Sig, sizesOk s = true → s.nNamed ≤ s.params.length → supported (namedSig s) = true →
    (calleeVa s).map some = ((PsABI.assign s).drop s.nNamed).map PsABI.vaLoc

/-- **C06 (va_arg across register exhaustion).**  For every variadic signature whose named part is outside the known-finding
    regions and whose variadic arguments are promoted integers/pointers, doubles, long doubles or aggregates of more than
    16 bytes, in any number and order: the `va_area` set-up of the prologue (gp_offset, fp_offset, overflow_arg_area counted
    like `assign_lvar_offsets`) followed by the walkers `__va_arg_gp/fp/mem` of include/stdarg.h yields for the k-th `va_arg`
    exactly the save-area slot or overflow-area offset of the k-th variadic argument under the psABI — through the
    exhaustion of the 6 INTEGER and 8 SSE registers and with the 16-byte alignment of long double in the overflow area. -/
theorem C06_va_partial (s : Sig) (hs : sizesOk s = true) (hn : s.nNamed ≤ s.params.length)
    (h : supported (namedSig s) = true) (hv : (s.params.drop s.nNamed).all vaArgOk = true) :
    (calleeVa s).map some = ((PsABI.assign s).drop s.nNamed).map PsABI.vaLoc := by
  simp only [sizesOk, Bool.and_eq_true] at hs
  simp only [supported, namedSig, Bool.and_eq_true, Bool.not_eq_true'] at h
  obtain ⟨⟨hty, hret⟩, hpad⟩ := h
  have hmem := retInMemory_eq s.ret hret
  have hb : min (b2n (retLarge s.ret)) GP_MAX = b2n (retLarge s.ret) := by
    simp only [b2n, GP_MAX_eq]; split <;> omega
  have h0 : min 0 FP_MAX = 0 := by simp
  have hst : ((if PsABI.retInMemory s.ret then 1 else 0 : Nat), (0 : Nat), (0 : Nat))
      = (min (b2n (retLarge s.ret)) GP_MAX, min 0 FP_MAX, 0) := by
    rw [hb, h0, hmem]; rfl
  have hnamed : s.named.all aggSizeOk = true := all_take _ _ _ hs.1
  have hloop := abi_loop s.named (b2n (retLarge s.ret)) 0 0 hnamed hty (by
    simp only [CallRegions.stackAlignPad] at hpad; rw [hst] at hpad; exact hpad)
  -- the psABI side: split the argument list at the last named parameter
  have hsplit : s.params = s.named ++ s.params.drop s.nNamed := by
    simp only [Sig.named]; exact (List.take_append_drop _ _).symm
  have hlen : (PsABI.assignLoop (min (b2n (retLarge s.ret)) GP_MAX, min 0 FP_MAX, 0) s.named).2.length = s.nNamed := by
    rw [assignLoop_length]; simp only [Sig.named, List.length_take]; omega
  have hspec : (PsABI.assign s).drop s.nNamed =
      (PsABI.assignLoop (PsABI.assignLoop (min (b2n (retLarge s.ret)) GP_MAX, min 0 FP_MAX, 0) s.named).1
        (s.params.drop s.nNamed)).2 := by
    simp only [PsABI.assign]
    rw [hst]
    conv => lhs; rw [hsplit]
    rw [assignLoop_append, ← hlen, List.drop_left]
  rw [hspec, hloop]
  -- the chibicc side
  simp only [calleeVa]
  rw [vaInit_eq s hs.1]
  have hg : min (refLoop (b2n (retLarge s.ret), 0, 0) s.named).1.1 GP_MAX ≤ 6 := by rw [GP_MAX_eq]; omega
  have hf : min (refLoop (b2n (retLarge s.ret), 0, 0) s.named).1.2.1 FP_MAX ≤ 8 := by rw [FP_MAX_eq]; omega
  have h8 := refLoop_fst_bounds s.named (b2n (retLarge s.ret)) 0 0 (by decide)
  have := va_walk (s.params.drop s.nNamed) _ _ _ hg hf h8 hv
  rw [← this]
  congr 2
  rw [Nat.mul_comm _ 8, Nat.mul_comm _ 16, Nat.add_comm _ 48]

example :
    let s : Sig := { ret := none,
                     params := [.int 4 false false, .dbl, .int 8 false false, .ldbl, .dbl, .int 4 false false, .int 8 false false,
                                .int 8 false false, .int 8 false false, .int 8 false false, .dbl, .dbl, .dbl, .dbl, .dbl, .dbl, .dbl,
                                .dbl, .ldbl, .agg false 24 8 (.cons 0 (.int 8 false false) (.cons 8 .dbl (.cons 16 .dbl .nil)))],
                     nNamed := 2, variadic := true }
    sizesOk s = true ∧ s.nNamed ≤ s.params.length ∧ supported (namedSig s) = true ∧ (s.params.drop s.nNamed).all vaArgOk = true := by
  decide

/-! ## stack alignment and clean-up -/

/-- **C06 (16-byte alignment at every call).**  A function entered with rsp ≡ 8 (mod 16) whose frame size is a multiple
    of 16 executes every `call *%r10` with rsp ≡ 0 (mod 16), whatever the signature and however many slots (`depth`)
    enclosing expressions have pushed: the parity rule on `depth + stack`, and the fact that at the call exactly the
    padding and the first-pass pushes are on the stack (`depthAtCall_eq`).  (`depth` is the true number of pushed slots:
    property C20; `alloca` keeps rsp a multiple of 16 by rounding its size.) -/
theorem C06_align (entry : Int) (stackSize depth : Nat) (s : Sig) (hs : sizesOk s = true)
    (he : entry % 16 = 8) (hf : stackSize % 16 = 0) :
    rspAtCall entry stackSize depth s % 16 = 0 := by
  simp only [sizesOk, Bool.and_eq_true] at hs
  have h1 := depthAtCall_eq depth s hs.1
  have h2 := stackArgs_parity depth s
  simp only [rspAtCall, h1]
  omega

example : sizesOk { ret := none, params := [.ldbl, .int 4 false false], nNamed := 2, variadic := false } = true := by decide

/-- **C06 (the caller removes exactly what it pushed).**  At the call the machine stack holds `depth + stack_args` slots,
    and after `add $8*stack_args, %rsp` it is back at `depth`: what the first pass pushed plus the padding is what
    `push_args` returned, what the second pass pushed is what the pop phase popped. -/
theorem C06_cleanup (depth : Nat) (s : Sig) (hs : sizesOk s = true) :
    depthAtCall depth s = (depth : Int) + stackArgs depth s ∧ depthAfterCall depth s = depth := by
  simp only [sizesOk, Bool.and_eq_true] at hs
  have h1 := depthAtCall_eq depth s hs.1
  exact ⟨h1, by simp only [depthAfterCall, h1]; omega⟩

/-! ## callee-saved registers -/

def hasSub (s : List Char) (p : List Char) : Bool :=
  match s with
  | [] => p.isEmpty
  | c :: cs => p.isPrefixOf (c :: cs) || hasSub cs p

/-- every spelling of rbx, r12, r13, r14, r15 (`%r12` is a prefix of `%r12d`, `%r12w`, `%r12b`) and the narrow spellings of rbp -/
def forbiddenSpellings : List (List Char) :=
  ["%rbx", "%ebx", "%bx", "%bl", "%bh", "%r12", "%r13", "%r14", "%r15", "%ebp", "%bp"].map String.toList

def mentionsForbidden (t : String × List String) : Bool :=
  t.2.any (fun o => forbiddenSpellings.any (fun b => hasSub o.toList b))

/-- the mnemonics of the back end; none has rbx, rbp or r12-r15 as an implicit operand (Intel SDM vol. 2: div/idiv/cqo/cdq
    use rax, rdx; shifts cl; cmpxchg rax; rep stosb rdi, rcx, al; push/pop/call/ret rsp; x87 and SSE instructions none).
    A mnemonic outside this list (cpuid, cmpxchg16b, xlat, enter, leave, pusha ...) makes the theorem fail. -/
def knownMnemonics : List String :=
  ["add","addq","addsd","addss","and","call","cdq","cmp","cqo","cvtsd2ss","cvtsi2sd","cvtsi2sdl","cvtsi2sdq","cvtsi2ssl",
   "cvtsi2ssq","cvtss2sd","cvttsd2sil","cvttsd2siq","cvttss2sil","cvttss2siq","data16 lea","dec","div","divsd","divss",
   "faddp","fadds","fchs","fcomip","fdivrp","fildl","fildll","fildq","fistpl","fistpq","fistps","fldcw","fldl","flds","fldt",
   "fldz","fmulp","fnstcw","fstp","fstpl","fstps","fstpt","fsubrp","fucomip","idiv","imul","inc","jbe","je","jmp","jne","jns",
   "js","lea","lock cmpxchg","mov","movd","movl","movq","movsbl","movsd","movss","movswl","movsxd","movzb","movzbl","movzwl",
   "movzx","mulsd","mulss","neg","not","or","pop","push","pxor","rep stosb","ret","rex64","sar","seta","setae","setb","setbe",
   "sete","setl","setle","setne","setnp","setp","shl","shr","sub","subsd","subss","test","ucomisd","ucomiss","xchg","xor",
   "xorpd","xorps"]

/-- `%rbp` as a register operand: only the prologue (`push %rbp`, `mov %rsp, %rbp`), the epilogue (`mov %rbp, %rsp`,
    `pop %rbp`) and reads of it as a source (`movq %rbp, N(%rbp)` in the va_area set-up) -/
def rbpUseOk (t : String × List String) : Bool :=
  if t.2.contains "%rbp" then
    t == ("push", ["%rbp"]) || t == ("mov", ["%rsp", "%rbp"]) || t == ("mov", ["%rbp", "%rsp"]) || t == ("pop", ["%rbp"])
      || ((t.1 == "mov" || t.1 == "movq") && t.2.head? == some "%rbp" && t.2.getLast? != some "%rbp")
  else true

set_option maxRecDepth 100000 in
/-- **C06 (callee-saved registers, part 1).**  Decided over the complete list of instruction templates that codegen.c can
    print (regenerated from the source on every run, `%s` arguments resolved to every string they can be): no template
    mentions rbx, r12, r13, r14 or r15 in any width; every mnemonic is a known one without such an implicit operand; rbp is
    written only by `mov %rsp, %rbp` and `pop %rbp`.  (`asm` statements are user text and excluded.) -/
theorem C06_callee_saved :
    templates.all (fun t => !(mentionsForbidden t) && knownMnemonics.contains t.1 && rbpUseOk t) = true ∧
    ChibiVerif.Gen.Templates.userAsmSites = 1 := by decide

/-- a function's frame registers: rsp, rbp, and the word the prologue saved at `entry - 8` -/
structure Frame where
  rsp : Int
  rbp : Int
  saved : Int

/-- `push %rbp; mov %rsp, %rbp; sub $stack_size, %rsp` -/
def prologue (entry callerRbp : Int) (stackSize : Nat) : Frame :=
  { rsp := entry - 8 - stackSize, rbp := entry - 8, saved := callerRbp }

/-- `mov %rbp, %rsp; pop %rbp; ret`: (rsp, rbp) afterwards.  `pop` reads the word at the new rsp, which is the saved one
    exactly when rbp still points at it. -/
def epilogue (f : Frame) (entry : Int) : Option (Int × Int) :=
  if f.rbp = entry - 8 then some (f.rbp + 8 + 8, f.saved) else none

/-- **C06 (callee-saved registers, part 2).**  Every path to `.L.return.f` runs `mov %rbp, %rsp; pop %rbp; ret`.  Since no
    template of the body writes rbp (part 1), whatever the body did to rsp, the caller gets back rsp = entry + 8 (the
    return address popped) and its own rbp — provided the body did not overwrite the saved word (memory safety of the
    compiled program, not a property of the calling convention). -/
theorem C06_epilogue_restores (entry callerRbp : Int) (stackSize : Nat) (bodyRsp : Int) :
    epilogue { prologue entry callerRbp stackSize with rsp := bodyRsp } entry = some (entry + 8, callerRbp) := by
  simp only [epilogue, prologue]
  simp

end ChibiVerif.Props.C06
