/-
C06 — calls obey the System V x86-64 calling convention.

Property theorems only (helper lemmas: Lemmas/CallConvLemmas.lean, Lemmas/PsABILemmas.lean).
Model: Model/CallConv.lean (codegen.c push_args / push_args2 / ND_FUNCALL / assign_lvar_offsets / emit_text /
copy_struct_reg / copy_struct_mem / copy_ret_buffer, include/stdarg.h); specification: Spec/PsABI.lean (psABI 3.2.3,
3.5.7); known-finding regions: Spec/CallRegions.lean.  Every theorem is for **all** signatures: any number and order of
parameters, any member trees.

`sizesOk s` (decidable) is the well-formedness of the types of `s`: in an aggregate of 1..16 bytes an eightbyte moved with
movss/movsd has 4 or 8 bytes (fails only for packed structs: known finding C06-packed-unaligned-param, where cc1 aborts; the GNU
empty struct is fine since /repo b298aee: it takes nothing), integer-class scalars have 1..8 bytes, no array is passed by value.
`supported s` (decidable) = outside the regions of the five known findings of known_findings.json.
-/
import ChibiVerif.Model.CallConv
import ChibiVerif.Spec.PsABI
import ChibiVerif.Spec.CallRegions
import ChibiVerif.Lemmas.CallConvLemmas
import ChibiVerif.Lemmas.PsABILemmas
import ChibiVerif.Lemmas.VaLemmas
import ChibiVerif.Lemmas.C06ArgSpecLemmas
import ChibiVerif.Lemmas.C06ArgLemmas
import ChibiVerif.Props.C01

namespace ChibiVerif.Props.C06
open ChibiVerif.CallConv
open ChibiVerif.Spec
open ChibiVerif.Spec.CallRegions (supported)
open ChibiVerif.Gen.Templates (templates GP_MAX FP_MAX)

/-! ## chibicc ↔ chibicc -/

/-- full statement: for every signature, neither side reaches an abort site of cc1 and the callee reads every named
    parameter from where the caller put the argument.  False as stated: see Findings/C06.lean (packed structs). -/
def C06_self_Statement : Prop :=
  ∀ s : Sig, ∃ a, callerAssign s = .ok a ∧ calleeAssign s = .ok (a.take s.nNamed)

/-- **C06 (chibicc-compiled caller and callee agree).**  For every well-formed signature the three loops of the caller
    (classification in `push_args`, the two pushing passes, the pop phase of `ND_FUNCALL`) and the two loops of the callee
    (`assign_lvar_offsets`, the register stores of the prologue) put and expect every argument in the same register
    pieces or at the same stack offset, and no abort site (`assert(depth == 0)`, `unreachable()`, `argreg64[6]`) is reached.
    Missing for the full statement: packed structs with unaligned members (known finding C06-packed-unaligned-param). -/
theorem C06_self_partial (s : Sig) (h : sizesOk s = true) :
    ∃ a, callerAssign s = .ok a ∧ calleeAssign s = .ok (a.take s.nNamed) := by
  simp only [sizesOk, Bool.and_eq_true] at h
  refine ⟨_, callerAssign_eq s h.1, ?_⟩
  rw [calleeAssign_eq s h.1, Sig.named, refLoop_take]

example : sizesOk { ret := some (.agg false 24 8 (.cons 0 (.int 8 false false) (.cons 8 (.int 8 false false) (.cons 16 .dbl .nil)))),
                    params := [.int 4 false false, .agg false 16 8 (.cons 0 (.int 8 false false) (.cons 8 .dbl .nil)), .ldbl,
                               .dbl, .flt, .agg false 12 4 (.cons 0 (.arr .flt 3) .nil), .agg false 0 1 .nil],
                    nNamed := 4, variadic := true } = true := by decide

/-! ## chibicc ↔ any ABI-conforming compiler -/

/-- full statement: for every well-formed signature both sides of chibicc place arguments, al and return values exactly as
    psABI 3.2.3 does.  False: see the five witnesses in Findings/C06.lean. -/
def C06_abi_Statement : Prop :=
  ∀ s : Sig, sizesOk s = true →
    callerAssign s = .ok (PsABI.assign s) ∧ calleeAssign s = .ok ((PsABI.assign s).take s.nNamed) ∧
    callerAl s = PsABI.al s ∧ retCaller s.ret = .ok (PsABI.ret s.ret) ∧ retCallee s.ret = .ok (PsABI.ret s.ret)

/-- **C06 (psABI conformance outside the known findings).**  For every well-formed signature outside the regions
    `C06-struct-with-ldouble`, `C06-packed-unaligned-param`, `C06-padding-eightbyte`, `C06-ldouble-stack-align`:
    the caller puts every argument where psABI 3.2.3 puts it (registers rdi rsi rdx rcx r8 r9 / xmm0-7 per eightbyte,
    all-or-nothing for aggregates, stack slots left to right from (%rsp)), the callee takes every named parameter from
    there, `mov $N, %rax` gives the number of vector registers used, and return values travel in rax/rdx/xmm0/xmm1/st0 or
    through the hidden pointer with rax = that pointer on return, on both sides.
    Proof: structural induction on member trees (`hasFlonum_leaves`: has_flonum is a statement about the flat list of
    scalars), the merge loop invariant (`foldClasses_getD`), and induction on the argument list with the (gp, fp, stack)
    counters as invariant (`caller_loop`, `callee_loop`, `abi_loop`). -/
theorem C06_abi_partial (s : Sig) (hs : sizesOk s = true) (h : supported s = true) :
    callerAssign s = .ok (PsABI.assign s) ∧ calleeAssign s = .ok ((PsABI.assign s).take s.nNamed) ∧
    callerAl s = PsABI.al s ∧ retCaller s.ret = .ok (PsABI.ret s.ret) ∧ retCallee s.ret = .ok (PsABI.ret s.ret) := by
  simp only [sizesOk, Bool.and_eq_true] at hs
  simp only [supported, Bool.and_eq_true, Bool.not_eq_true'] at h
  obtain ⟨⟨hty, hret⟩, hpad⟩ := h
  have hmem := retInMemory_eq s.ret hret
  have hb : min (b2n (retLarge s.ret)) GP_MAX = b2n (retLarge s.ret) := by
    simp only [b2n, GP_MAX_eq]; split <;> omega
  have h0 : min 0 FP_MAX = 0 := by simp
  have hst : ((if PsABI.retInMemory s.ret then 1 else 0 : Nat), (0 : Nat), (0 : Nat))
      = (min (b2n (retLarge s.ret)) GP_MAX, min 0 FP_MAX, 0) := by
    rw [hb, h0, hmem]; rfl
  have hloop := abi_loop s.params (b2n (retLarge s.ret)) 0 0 hs.1 hty (by
    simp only [CallRegions.stackAlignPad] at hpad; rw [hst] at hpad; exact hpad)
  have hassign : PsABI.assign s = (refLoop (b2n (retLarge s.ret), 0, 0) s.params).2 := by
    simp only [PsABI.assign]; rw [hst, hloop]
  have hrets := ret_abi s.ret hret (by
    intro t ht
    have := hs.2
    rw [ht] at this
    exact this)
  refine ⟨?_, ?_, ?_, hrets.1, hrets.2⟩
  · rw [hassign]; exact callerAssign_eq s hs.1
  · rw [hassign, calleeAssign_eq s hs.1, Sig.named, refLoop_take]
  · have h4 := (caller_loop s.params (b2n (retLarge s.ret)) 0 0 0 hs.1).2.2.2
    rw [hb, h0] at h4
    simp only [callerAl, popPhase, PsABI.al]
    rw [hst, hloop, h4]

example :
    let s : Sig := { ret := some (.agg false 24 8 (.cons 0 (.int 8 false false) (.cons 8 (.int 8 false false) (.cons 16 .dbl .nil)))),
                     params := [.int 4 false false, .int 8 false false, .int 8 false false, .int 8 false false,
                                .agg false 16 8 (.cons 0 (.int 8 false false) (.cons 8 .dbl .nil)),
                                .agg false 16 8 (.cons 0 (.int 8 false false) (.cons 8 (.int 8 false false) .nil)),
                                .dbl, .flt, .agg false 12 4 (.cons 0 (.arr .flt 3) .nil), .int 1 true true, .agg true 0 1 .nil],
                     nNamed := 11, variadic := false }
    sizesOk s = true ∧ supported s = true := by decide

/-! ## variadic functions -/

/-- the signature seen by the callee's prologue: the named parameters only -/
def namedSig (s : Sig) : Sig := { s with params := s.named }

/-- full statement: in a chibicc-compiled variadic function the k-th `va_arg` reads the k-th variadic argument from where
    psABI 3.2.3 / 3.5.7 put it, for every variadic argument type.  False for aggregates of at most 16 bytes
    (known finding C06-va-arg-small-struct, Findings/C06.lean). -/
def C06_va_Statement : Prop :=
  ∀ s : Sig, sizesOk s = true → s.nNamed ≤ s.params.length → supported (namedSig s) = true →
    (calleeVa s).map some = ((PsABI.assign s).drop s.nNamed).map PsABI.vaLoc

/-- **C06 (va_arg across register exhaustion).**  For every variadic signature whose named part is outside the known-finding
    regions and whose variadic arguments are promoted integers/pointers, doubles, long doubles or aggregates of more than
    16 bytes, in any number and order: the `va_area` set-up of the prologue (gp_offset, fp_offset, overflow_arg_area counted
    like `assign_lvar_offsets`) followed by the walkers `__va_arg_gp/fp/mem` of include/stdarg.h yields for the k-th `va_arg`
    exactly the save-area slot or overflow-area offset of the k-th variadic argument under the psABI — through the
    exhaustion of the 6 INTEGER and 8 SSE registers and with the 16-byte alignment of long double in the overflow area. -/
theorem C06_va_partial (s : Sig) (hs : sizesOk s = true) (hn : s.nNamed ≤ s.params.length)
    (h : supported (namedSig s) = true) (hv : (s.params.drop s.nNamed).all vaArgOk = true) :
    (calleeVa s).map some = ((PsABI.assign s).drop s.nNamed).map PsABI.vaLoc := by
  simp only [sizesOk, Bool.and_eq_true] at hs
  simp only [supported, namedSig, Bool.and_eq_true, Bool.not_eq_true'] at h
  obtain ⟨⟨hty, hret⟩, hpad⟩ := h
  have hmem := retInMemory_eq s.ret hret
  have hb : min (b2n (retLarge s.ret)) GP_MAX = b2n (retLarge s.ret) := by
    simp only [b2n, GP_MAX_eq]; split <;> omega
  have h0 : min 0 FP_MAX = 0 := by simp
  have hst : ((if PsABI.retInMemory s.ret then 1 else 0 : Nat), (0 : Nat), (0 : Nat))
      = (min (b2n (retLarge s.ret)) GP_MAX, min 0 FP_MAX, 0) := by
    rw [hb, h0, hmem]; rfl
  have hnamed : s.named.all aggSizeOk = true := all_take _ _ _ hs.1
  have hloop := abi_loop s.named (b2n (retLarge s.ret)) 0 0 hnamed hty (by
    simp only [CallRegions.stackAlignPad] at hpad; rw [hst] at hpad; exact hpad)
  -- the psABI side: split the argument list at the last named parameter
  have hsplit : s.params = s.named ++ s.params.drop s.nNamed := by
    simp only [Sig.named]; exact (List.take_append_drop _ _).symm
  have hlen : (PsABI.assignLoop (min (b2n (retLarge s.ret)) GP_MAX, min 0 FP_MAX, 0) s.named).2.length = s.nNamed := by
    rw [assignLoop_length]; simp only [Sig.named, List.length_take]; omega
  have hspec : (PsABI.assign s).drop s.nNamed =
      (PsABI.assignLoop (PsABI.assignLoop (min (b2n (retLarge s.ret)) GP_MAX, min 0 FP_MAX, 0) s.named).1
        (s.params.drop s.nNamed)).2 := by
    simp only [PsABI.assign]
    rw [hst]
    conv => lhs; rw [hsplit]
    rw [assignLoop_append, ← hlen, List.drop_left]
  rw [hspec, hloop]
  -- the chibicc side
  simp only [calleeVa]
  rw [vaInit_eq s hs.1]
  have hg : min (refLoop (b2n (retLarge s.ret), 0, 0) s.named).1.1 GP_MAX ≤ 6 := by rw [GP_MAX_eq]; omega
  have hf : min (refLoop (b2n (retLarge s.ret), 0, 0) s.named).1.2.1 FP_MAX ≤ 8 := by rw [FP_MAX_eq]; omega
  have h8 := refLoop_fst_bounds s.named (b2n (retLarge s.ret)) 0 0 (by decide)
  have := va_walk (s.params.drop s.nNamed) _ _ _ hg hf h8 hv
  rw [← this]
  congr 2
  rw [Nat.mul_comm _ 8, Nat.mul_comm _ 16, Nat.add_comm _ 48]

example :
    let s : Sig := { ret := none,
                     params := [.int 4 false false, .dbl, .int 8 false false, .ldbl, .dbl, .int 4 false false, .int 8 false false,
                                .int 8 false false, .int 8 false false, .int 8 false false, .dbl, .dbl, .dbl, .dbl, .dbl, .dbl, .dbl,
                                .dbl, .ldbl, .agg false 24 8 (.cons 0 (.int 8 false false) (.cons 8 .dbl (.cons 16 .dbl .nil)))],
                     nNamed := 2, variadic := true }
    sizesOk s = true ∧ s.nNamed ≤ s.params.length ∧ supported (namedSig s) = true ∧ (s.params.drop s.nNamed).all vaArgOk = true := by
  decide

/-! ## stack alignment and clean-up -/

/-- **C06 (16-byte alignment at every call).**  A function entered with rsp ≡ 8 (mod 16) whose frame size is a multiple
    of 16 executes every `call *%r10` with rsp ≡ 0 (mod 16), whatever the signature and however many slots (`depth`)
    enclosing expressions have pushed: the parity rule on `depth + stack`, and the fact that at the call exactly the
    padding and the first-pass pushes are on the stack (`depthAtCall_eq`).  (`depth` is the true number of pushed slots:
    property C20; `alloca` keeps rsp a multiple of 16 by rounding its size.) -/
theorem C06_align (entry : Int) (stackSize depth : Nat) (s : Sig) (hs : sizesOk s = true)
    (he : entry % 16 = 8) (hf : stackSize % 16 = 0) :
    rspAtCall entry stackSize depth s % 16 = 0 := by
  simp only [sizesOk, Bool.and_eq_true] at hs
  have h1 := depthAtCall_eq depth s hs.1
  have h2 := stackArgs_parity depth s
  simp only [rspAtCall, h1]
  omega

example : sizesOk { ret := none, params := [.ldbl, .int 4 false false], nNamed := 2, variadic := false } = true := by decide

/-- **C06 (the caller removes exactly what it pushed).**  At the call the machine stack holds `depth + stack_args` slots,
    and after `add $8*stack_args, %rsp` it is back at `depth`: what the first pass pushed plus the padding is what
    `push_args` returned, what the second pass pushed is what the pop phase popped. -/
theorem C06_cleanup (depth : Nat) (s : Sig) (hs : sizesOk s = true) :
    depthAtCall depth s = (depth : Int) + stackArgs depth s ∧ depthAfterCall depth s = depth := by
  simp only [sizesOk, Bool.and_eq_true] at hs
  have h1 := depthAtCall_eq depth s hs.1
  exact ⟨h1, by simp only [depthAfterCall, h1]; omega⟩

/-! ## callee-saved registers -/

def hasSub (s : List Char) (p : List Char) : Bool :=
  match s with
  | [] => p.isEmpty
  | c :: cs => p.isPrefixOf (c :: cs) || hasSub cs p

/-- every spelling of rbx, r12, r13, r14, r15 (`%r12` is a prefix of `%r12d`, `%r12w`, `%r12b`) and the narrow spellings of rbp -/
def forbiddenSpellings : List (List Char) :=
  ["%rbx", "%ebx", "%bx", "%bl", "%bh", "%r12", "%r13", "%r14", "%r15", "%ebp", "%bp"].map String.toList

def mentionsForbidden (t : String × List String) : Bool :=
  t.2.any (fun o => forbiddenSpellings.any (fun b => hasSub o.toList b))

/-- the mnemonics of the back end; none has rbx, rbp or r12-r15 as an implicit operand (Intel SDM vol. 2: div/idiv/cqo/cdq
    use rax, rdx; shifts cl; cmpxchg rax; rep stosb rdi, rcx, al; push/pop/call/ret rsp; btc its two operands and CF; x87
    (fcomi, fsub, fxch ...) and SSE (comisd, comiss, cvtsi2ss ...) instructions and the conditional jumps none).
    A mnemonic outside this list (cpuid, cmpxchg16b, xlat, enter, leave, pusha ...) makes the theorem fail. -/
def knownMnemonics : List String :=
  ["add","addq","addsd","addss","and","btc","call","cdq","cmp","comisd","comiss","cqo","cvtsd2ss","cvtsi2sd","cvtsi2sdl",
   "cvtsi2sdq","cvtsi2ss","cvtsi2ssl","cvtsi2ssq","cvtss2sd","cvttsd2sil","cvttsd2siq","cvttss2sil","cvttss2siq","data16 lea",
   "dec","div","divsd","divss","faddp","fadds","fchs","fcomi","fcomip","fdivrp","fildl","fildll","fildq","fistpl","fistpq",
   "fistps","fldcw","fldl","flds","fldt","fldz","fmulp","fnstcw","fstp","fstpl","fstps","fstpt","fsub","fsubrp","fucomip",
   "fxch","idiv","imul","inc","jae","jbe","je","jmp","jne","jns",
   "js","lea","lock cmpxchg","mov","movd","movl","movq","movsbl","movsd","movss","movswl","movsxd","movzb","movzbl","movzwl",
   "movzx","mulsd","mulss","neg","not","or","pop","push","pxor","rep stosb","ret","rex64","sar","seta","setae","setb","setbe",
   "sete","setl","setle","setne","setnp","setp","shl","shr","sub","subsd","subss","test","ucomisd","ucomiss","xchg","xor",
   "xorpd","xorps"]

/-- `%rbp` as a register operand: only the prologue (`push %rbp`, `mov %rsp, %rbp`), the epilogue (`mov %rbp, %rsp`,
    `pop %rbp`) and reads of it as a source (`movq %rbp, N(%rbp)` in the va_area set-up) -/
def rbpUseOk (t : String × List String) : Bool :=
  if t.2.contains "%rbp" then
    t == ("push", ["%rbp"]) || t == ("mov", ["%rsp", "%rbp"]) || t == ("mov", ["%rbp", "%rsp"]) || t == ("pop", ["%rbp"])
      || ((t.1 == "mov" || t.1 == "movq") && t.2.head? == some "%rbp" && t.2.getLast? != some "%rbp")
  else true

set_option maxRecDepth 100000 in
/-- **C06 (callee-saved registers, part 1).**  Decided over the complete list of instruction templates that codegen.c can
    print (regenerated from the source on every run, `%s` arguments resolved to every string they can be): no template
    mentions rbx, r12, r13, r14 or r15 in any width; every mnemonic is a known one without such an implicit operand; rbp is
    written only by `mov %rsp, %rbp` and `pop %rbp`.  (`asm` statements are user text and excluded.) -/
theorem C06_callee_saved :
    templates.all (fun t => !(mentionsForbidden t) && knownMnemonics.contains t.1 && rbpUseOk t) = true ∧
    ChibiVerif.Gen.Templates.userAsmSites = 1 := by decide

/-- a function's frame registers: rsp, rbp, and the word the prologue saved at `entry - 8` -/
structure Frame where
  rsp : Int
  rbp : Int
  saved : Int

/-- `push %rbp; mov %rsp, %rbp; sub $stack_size, %rsp` -/
def prologue (entry callerRbp : Int) (stackSize : Nat) : Frame :=
  { rsp := entry - 8 - stackSize, rbp := entry - 8, saved := callerRbp }

/-- `mov %rbp, %rsp; pop %rbp; ret`: (rsp, rbp) afterwards.  `pop` reads the word at the new rsp, which is the saved one
    exactly when rbp still points at it. -/
def epilogue (f : Frame) (entry : Int) : Option (Int × Int) :=
  if f.rbp = entry - 8 then some (f.rbp + 8 + 8, f.saved) else none

/-- **C06 (callee-saved registers, part 2).**  Every path to `.L.return.f` runs `mov %rbp, %rsp; pop %rbp; ret`.  Since no
    template of the body writes rbp (part 1), whatever the body did to rsp, the caller gets back rsp = entry + 8 (the
    return address popped) and its own rbp — provided the body did not overwrite the saved word (memory safety of the
    compiled program, not a property of the calling convention). -/
theorem C06_epilogue_restores (entry callerRbp : Int) (stackSize : Nat) (bodyRsp : Int) :
    epilogue { prologue entry callerRbp stackSize with rsp := bodyRsp } entry = some (entry + 8, callerRbp) := by
  simp only [epilogue, prologue]
  simp

/-! ## argument conversions (parse.c `funcall`, C11 6.5.2.2)

`Gen.Funcall.argStep` is the body of the argument loop of `funcall()` as **translated from parse.c on every run**;
`C06Args.funcall` the loop around it; `argSeq` the instructions the inserted `ND_CAST`s print (cast table regenerated from
codegen.c).  `Represents` is the register invariant of C01, `C01_cast` / `C02_select_partial` the conversion theorems that are
reused here; `X86.run` / `Fp.run` the instruction semantics of C01 / C02. -/

section Args
open ChibiVerif.C06Args ChibiVerif.Spec.CallArgs ChibiVerif.Spec.IntSpec ChibiVerif.Gen.CommonType
open ChibiVerif.C01 (Represents MemHolds castSeq descr)

/-- **C06 (which conversion each argument gets).**  For every parameter list and every argument list (any lengths; arithmetic
    types, pointers, enumerations, structs/unions) and both kinds of callee type, `funcall()` does what C11 6.5.2.2 prescribes:
    the diagnostic "too few arguments" / "too many arguments" exactly when the counts disagree (more arguments than
    parameters is accepted only for `...` and for callees declared `()`), otherwise every argument with a corresponding
    parameter is converted to the parameter's type (`new_cast(arg, param_ty)`; a struct/union is handed over as it is), and
    every trailing argument undergoes the default argument promotions: `float → double` by a cast, and integer types narrower
    than `int` by *no* cast — which is the promotion, because of the register invariant (`C06_arg_default_promotions`). -/
theorem C06_funcall_spec (ps as : List STy) (variadic : Bool) :
    agrees (passedTypes ps variadic as) (funcall ⟨ps.map descrS, variadic⟩ (as.map descrS)) as :=
  funcall_agrees ps as variadic

example : passedTypes [.arith (.int .bool), .agg false 12] true [.arith (.int .i8), .agg false 12, .arith .f32, .arith (.int .u16), .ptr]
      = .ok [.arith (.int .bool), .agg false 12, .arith .f64, .arith (.int .i32), .ptr] ∧
    funcall ⟨[ty_bool, ⟨.TY_STRUCT, 12, false, false⟩], true⟩ [ty_char, ⟨.TY_STRUCT, 12, false, false⟩, ty_float, ty_ushort, ty_ptr]
      = .ok [[ty_bool], [], [ty_double], [], []] ∧
    funcall ⟨[ty_bool], false⟩ [ty_char, ty_int] = .error "too many arguments" ∧
    funcall ⟨[ty_bool, ty_int], true⟩ [ty_char] = .error "too few arguments" := ⟨rfl, rfl, rfl, rfl⟩

/-- **C06 (declared parameter lists).**  `func_params()`: `(void)` is a prototype without parameters; an empty list `()` gives
    no information about the parameters (C11 6.7.6.3p14), so calls through it get the default argument promotions — chibicc
    marks it variadic; array and function parameters are adjusted to pointers (6.7.6.3p7-8). -/
theorem C06_param_decl :
    fnTyOf .void = ⟨[], false⟩ ∧ fnTyOf .empty = ⟨[], true⟩ ∧
    (∀ (sz : Nat) (u b e : Bool), fnTyOf (.list [⟨.TY_ARRAY, sz, u, b⟩, ⟨.TY_FUNC, sz, u, b⟩, ty_char] e) = ⟨[ty_ptr, ty_ptr, ty_char], e⟩) := by
  refine ⟨rfl, rfl, ?_⟩
  intro sz u b e
  rfl

/-- **C06 (the parameter object holds the C11 conversion of the argument) — integer types.**  For every parameter type `to` and
    every argument type `frm` among the nine integer types, in a call through a prototype (fixed or the named part of a variadic
    one), for every machine state whose %rax represents the argument value `v` (the result of `gen_expr(arg)`, property C01):
    the instructions `funcall()`'s cast adds are those of `cast(frm, to)` and run; then
    * register argument number `r` (0..5): after `push %rax` … `pop argreg64[r]` the register represents `convert to v`, the C11
      conversion "as if by assignment" (6.5.2.2p7, 6.3.1.2, 6.3.1.3); in the callee — whatever state it is entered in, as long
      as that register is untouched — the prologue's `store_gp(r, off, sizeof to)` makes the parameter object at `off(%rbp)` hold
      `convert to v`, and a later use of the parameter (`lea off(%rbp), %rax` + `load`) has that value;
    * stack argument: after `push %rax` the 8-byte slot at (%rsp) represents `convert to v`; the callee's parameter object *is*
      the low bytes of that slot (any state in which the slot's eight bytes are at address `a` has the object at `a` holding
      `convert to v`). -/
theorem C06_arg_convert (frm to : ITy) (variadic : Bool) (s : X86.State) (v : Int) (h : Represents frm (s.get .rax) v) :
    ∃ code s1, argSeq variadic (some (descr to)) (descr frm) = some code ∧ X86.run code s = some s1 ∧
      (∀ r, r < 6 → ∃ s', X86.run (passRegSeq code r) s = some s' ∧
          Represents to (s'.get (gpReg r)) (convert to v) ∧ s'.get .rsp = s1.get .rsp ∧
          ∀ (c : X86.State) (off : Int), c.get (gpReg r) = s'.get (gpReg r) →
            ∃ c' c'', X86.run (storeGpSeq r off to.size) c = some c' ∧ MemHolds to c' (c.ea off .rbp) (convert to v) ∧
              X86.run (paramReadSeq to off) c' = some c'' ∧ Represents to (c''.get .rax) (convert to v)) ∧
      (∃ s', X86.run (passStackSeq code) s = some s' ∧ s'.get .rsp = s1.get .rsp - 8 ∧
          Represents to (s'.read64 (s'.get .rsp)) (convert to v) ∧
          ∀ (c : X86.State) (a : BitVec 64), c.read64 a = s'.read64 (s'.get .rsp) → MemHolds to c a (convert to v)) := by
  obtain ⟨s1, hrun, hrep⟩ := ChibiVerif.Props.C01.C01_cast frm to s v h
  refine ⟨castSeq frm to, s1, argSeq_int frm to variadic, hrun, ?_, ?_⟩
  · intro r hr
    obtain ⟨s', h1, h2, h3, _⟩ := pass_reg (castSeq frm to) r hr s s1 hrun
    refine ⟨s', h1, h2 ▸ hrep, h3, ?_⟩
    intro c off hc
    have hlow : LowHolds to (c.get (gpReg r)) (convert to v) := by
      rw [hc, h2]; exact represents_low to _ _ hrep
    obtain ⟨c', hs, hm, hregs⟩ := store_gp_ok to r hr off c _ hlow
    have hea : c'.ea off .rbp = c.ea off .rbp := by simp only [X86.State.ea, X86.State.get, hregs]
    obtain ⟨c'', hr1, hr2⟩ := param_read_ok to off c' _ (hea ▸ hm)
    exact ⟨c', c'', hs, hm, hr1, hr2⟩
  · obtain ⟨s', h1, h2, h3⟩ := pass_stack (castSeq frm to) s s1 hrun
    refine ⟨s', h1, h3, h2 ▸ hrep, ?_⟩
    intro c a hc
    have hl : LowHolds to (c.read64 a) (convert to v) := by
      rw [hc, h2]; exact represents_low to _ _ hrep
    exact slot_holds to c a _ hl

example : Represents .i8 (0xdeadbeef_ffffff80#64) (-128) ∧ convert .bool (-128) = 1 ∧ convert .u16 (-128) = 65408 :=
  ⟨⟨by decide, by decide⟩, by decide, by decide⟩

/-- **C06 (what a callee may rely on, and what chibicc's callee does rely on).**  Whatever compiler made the call: if the low
    `sizeof t` bytes of the argument register are the object representation of `w` (all the psABI promises for char / short /
    int; for `_Bool` it promises the low byte is 0 or 1), the chibicc-compiled callee's parameter object holds `w` — it never
    looks at the bits above (`mov %dil / %di / %edi / %rdi, off(%rbp)`), and re-extends on every use. -/
theorem C06_param_home (t : ITy) (r : Nat) (hr : r < 6) (off : Int) (c : X86.State) (w : Int)
    (h : LowHolds t (c.get (gpReg r)) w) :
    ∃ c' c'', X86.run (storeGpSeq r off t.size) c = some c' ∧ MemHolds t c' (c.ea off .rbp) w ∧
      X86.run (paramReadSeq t off) c' = some c'' ∧ Represents t (c''.get .rax) w := by
  obtain ⟨c', hs, hm, hregs⟩ := store_gp_ok t r hr off c w h
  have hea : c'.ea off .rbp = c.ea off .rbp := by simp only [X86.State.ea, X86.State.get, hregs]
  obtain ⟨c'', hr1, hr2⟩ := param_read_ok t off c' _ (hea ▸ hm)
  exact ⟨c', c'', hs, hm, hr1, hr2⟩

example : LowHolds .i16 (0x1234_5678_9abc_fffe#64) (-2) := ⟨by decide, by decide⟩

/-- **C06 (`_Bool` arguments are normalised).**  For every integer argument type and every value, the register (all 64 bits) or
    the stack slot (all 8 bytes) that carries an argument for a `_Bool` parameter holds exactly 0 or 1, and 1 exactly when the
    argument compares unequal to 0 (psABI: bit 0 carries the truth value, bits 1-7 are zero; a gcc callee at -O2 uses the byte
    as an `int` without masking). -/
theorem C06_arg_bool_normalised (frm : ITy) (variadic : Bool) (s : X86.State) (v : Int) (h : Represents frm (s.get .rax) v) :
    ∃ code, argSeq variadic (some ty_bool) (descr frm) = some code ∧
      (∀ r, r < 6 → ∃ s', X86.run (passRegSeq code r) s = some s' ∧
          (s'.get (gpReg r) = 0#64 ∨ s'.get (gpReg r) = 1#64) ∧ (s'.get (gpReg r) = 1#64 ↔ v ≠ 0)) ∧
      (∃ s', X86.run (passStackSeq code) s = some s' ∧
          (s'.read64 (s'.get .rsp) = 0#64 ∨ s'.read64 (s'.get .rsp) = 1#64) ∧ (s'.read64 (s'.get .rsp) = 1#64 ↔ v ≠ 0)) := by
  obtain ⟨code, s1, hsel, _, hreg, hstk⟩ := C06_arg_convert frm .bool variadic s v h
  have hv : convert .bool v ≠ 0 ↔ v ≠ 0 := by simp only [convert]; split <;> simp_all
  refine ⟨code, hsel, ?_, ?_⟩
  · intro r hr
    obtain ⟨s', h1, h2, _⟩ := hreg r hr
    obtain ⟨hb, hi⟩ := represents_bool _ _ h2
    exact ⟨s', h1, hb, hi.trans hv⟩
  · obtain ⟨s', h1, _, h2, _⟩ := hstk
    obtain ⟨hb, hi⟩ := represents_bool _ _ h2
    exact ⟨s', h1, hb, hi.trans hv⟩

example : Represents .u8 (0xffffffff_00000080#64) 128 := ⟨by decide, by decide⟩

/-- **C06 (what the upper bits of a narrow argument hold).**  For a parameter type narrower than 64 bits the low 32 bits of the
    argument register / stack slot are the parameter value sign- or zero-extended to 32 bits (`_Bool`: zero-extended) — more
    than the psABI requires, and what clang-compiled callees assume; gcc-compiled callees assume nothing beyond the low
    `sizeof` bytes.  For 64-bit types the whole register is the value.  Bits 32..63 of a narrow argument are unspecified
    (Findings/C06.lean `C06_arg_upper_bits_garbage`); no callee may read them, and chibicc's does not (`C06_param_home`). -/
theorem C06_arg_extension (frm to : ITy) (variadic : Bool) (s : X86.State) (v : Int) (h : Represents frm (s.get .rax) v) :
    ∃ code, argSeq variadic (some (descr to)) (descr frm) = some code ∧
      (∀ r, r < 6 → ∃ s', X86.run (passRegSeq code r) s = some s' ∧
          (if to.size = 8 then s'.get (gpReg r) = BitVec.ofInt 64 (convert to v)
           else (s'.get (gpReg r)).setWidth 32 = BitVec.ofInt 32 (convert to v))) ∧
      (∃ s', X86.run (passStackSeq code) s = some s' ∧
          (if to.size = 8 then s'.read64 (s'.get .rsp) = BitVec.ofInt 64 (convert to v)
           else (s'.read64 (s'.get .rsp)).setWidth 32 = BitVec.ofInt 32 (convert to v))) := by
  obtain ⟨code, s1, hsel, _, hreg, hstk⟩ := C06_arg_convert frm to variadic s v h
  have key : ∀ x : BitVec 64, Represents to x (convert to v) →
      (if to.size = 8 then x = BitVec.ofInt 64 (convert to v) else x.setWidth 32 = BitVec.ofInt 32 (convert to v)) := by
    intro x hx
    have := (ChibiVerif.C01.represents_iff to x _).1 hx
    cases to <;> simp_all [ITy.size]
    -- `_Bool`: the whole register is 0 or 1
    simp only [convert]
    split <;> rfl
  refine ⟨code, hsel, ?_, ?_⟩
  · intro r hr
    obtain ⟨s', h1, h2, _⟩ := hreg r hr
    exact ⟨s', h1, key _ h2⟩
  · obtain ⟨s', h1, _, h2, _⟩ := hstk
    exact ⟨s', h1, key _ h2⟩

example : Represents .i32 (0x00000000_fffffffb#64) (-5) := ⟨by decide, by decide⟩

/-- **C06 (default argument promotions, integer types).**  A trailing argument of a variadic callee, and every argument of a
    callee declared `()`, of integer type `frm`: `funcall()` adds no instruction, and the register / stack slot represents the
    argument value *in the promoted type* (6.5.2.2p6-7, 6.3.1.1: `int` for `_Bool`, `char`, `short` and their unsigned
    variants) — `va_arg(ap, int)` in the callee reads the low four bytes of the slot the value was spilled to (`C06_va_partial`)
    and gets `v`. -/
theorem C06_arg_default_promotions (frm : ITy) (s : X86.State) (v : Int) (h : Represents frm (s.get .rax) v) :
    argSeq true none (descr frm) = some [] ∧ (fnTyOf .empty).variadic = true ∧
      (∀ r, r < 6 → ∃ s', X86.run (passRegSeq [] r) s = some s' ∧ Represents (promote frm) (s'.get (gpReg r)) v ∧
          LowHolds (promote frm) (s'.get (gpReg r)) v) ∧
      (∃ s', X86.run (passStackSeq []) s = some s' ∧ Represents (promote frm) (s'.read64 (s'.get .rsp)) v ∧
          ∀ (c : X86.State) (a : BitVec 64), c.read64 a = s'.read64 (s'.get .rsp) → MemHolds (promote frm) c a v) := by
  have hp := represents_promote frm _ v h
  refine ⟨argSeq_tail_int frm, rfl, ?_, ?_⟩
  · intro r hr
    obtain ⟨s', h1, h2, _⟩ := pass_reg [] r hr s s rfl
    exact ⟨s', h1, h2 ▸ hp, h2 ▸ represents_low _ _ _ hp⟩
  · obtain ⟨s', h1, h2, _⟩ := pass_stack [] s s rfl
    refine ⟨s', h1, h2 ▸ hp, ?_⟩
    intro c a hc
    have hl : LowHolds (promote frm) (c.read64 a) v := by
      rw [hc, h2]; exact represents_low _ _ _ hp
    exact slot_holds _ c a v hl

example : Represents .u16 (0x7777_7777_0000_ffff#64) 65535 ∧ promote .u16 = .i32 := ⟨⟨by decide, by decide⟩, by decide⟩

end Args

end ChibiVerif.Props.C06
