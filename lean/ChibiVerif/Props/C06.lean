/-
C06 — calls obey the System V x86-64 calling convention.  (work in progress: first theorem only)
-/
import ChibiVerif.Model.CallConv
import ChibiVerif.Spec.PsABI
import ChibiVerif.Spec.CallRegions

namespace ChibiVerif.Props.C06
open ChibiVerif.CallConv
open ChibiVerif.Gen.Templates (templates)

def hasSub (s : List Char) (p : List Char) : Bool :=
  match s with
  | [] => p.isEmpty
  | c :: cs => p.isPrefixOf (c :: cs) || hasSub cs p

def calleeSavedSpellings : List (List Char) :=
  ["%rbx", "%ebx", "%bx", "%bl", "%bh", "%r12", "%r13", "%r14", "%r15"].map String.toList

def mentionsCalleeSaved (t : String × List String) : Bool :=
  t.2.any (fun o => calleeSavedSpellings.any (fun b => hasSub o.toList b))

set_option maxRecDepth 100000 in
theorem C06_callee_saved_unmentioned : templates.all (fun t => !mentionsCalleeSaved t) = true := by decide

end ChibiVerif.Props.C06
